#!/venv/bin/python
"""Regenerates /verif/MANIFEST.json from the table below + which check modules exist."""
import json, os, sys
ROOT = os.path.dirname(os.path.dirname(os.path.abspath(__file__)))
sys.path.insert(0, ROOT)
from vlib.common import CHECKS

PY = "/venv/bin/python"
INFO = {
 "C01": ("exploration", "3/C01", "runtime monitoring: all-signal snapshots after every eval/tick under 5 pass groups + injected linear extensions, compared with an independent bit-level reference model; re-run probe for the fixed-point clause",
         "Generated acyclic designs are simulated by the real passes; every signal value observed after every evaluation is compared with a pure-int reference and across schedules. Sampled designs/schedules, not all.",
         "reference model (vlib/specgen) written independently of pymtl3; generator covers the constructs listed in DESIGN 2.1"),
 "C02": ("exploration", "3/C02", "runtime monitoring: sys.monitoring PY_START invocation traces of update/net blocks + stale-read probe, judged against bit-level may-write/may-read sets of the generator spec",
         "Observed block invocation order of every evaluation pass is checked against orderings derived from the generator's own bit-level read/write sets (never from pymtl3 metadata).",
         "only schedules the passes themselves emit are judged; read/write sets are the syntactic ones of the generated source"),
 "C03": ("translation_validation", "3/C03", "runtime monitoring / differential co-simulation: emitted SystemVerilog executed by an independent interpreter (vlib/svsim) vs the PyMTL simulation, cycle by cycle; driver analysis of the elaborated text",
         "Each accepted design is translated by the real pass, the emitted text is parsed/elaborated/executed by svsim and compared on every output port every cycle with the PyMTL simulation of the same object.",
         "svsim (hand-written IEEE-1800 subset interpreter, validated on the repo's own test vectors) is the trusted base; two-state semantics only"),
 "C04": ("exploration", "3/C04", "runtime contracts (pre/post-conditions + range invariant) wrapped around every Bits method, evaluated on exhaustive small widths, boundary random operands up to 1023 bits and real library simulations",
         "Every Bits operation executed in the workload processes is judged by a contract against an int-level reference; widths 1-5 exhaustively, random boundary operands otherwise.",
         "vlib/bitsref int semantics written from the property/docs; operands outside {Bits,int,bool} not judged"),
 "C05": ("exploration", "3/C05", "runtime contracts on __getitem__/__setitem__ (result, exception class, frame condition) + post-condition checks at the helper call boundary (concat/zext/sext/trunc/reduce/clog2)",
         "All (n,lo,hi,step,value) combinations for small widths are executed against the real class under contracts; helpers and clog2 compared with bit-level definitions over boundary-dense inputs.",
         "vlib/bitsref; helper misuse outside the statement not asserted"),
 "C06": ("exploration", "3/C06", "runtime monitoring of generated bitstruct types: to_bits/from_bits/==/hash/clone/deepcopy/@=/<<= observed and compared with a layout computed from the type shape; mutation-after-copy aliasing probe",
         "Random struct shapes (nested, multi-dim list fields, up to 1023 bits) are built with the real decorator; every API result is compared with an independent layout on ints; copies are probed for aliasing by mutating every leaf.",
         "vlib/bitsref.pack/unpack layout from the property statement"),
 "C07": ("exploration", "3/C07", "runtime monitoring: register snapshots after every tick under permuted update_ff orders and all pass groups vs reference next-state function on pre-edge values; pre-edge visibility probe at ff-block entry",
         "ff-heavy generated designs are ticked under many ff-block permutations (all k! for k<=5); registers after every tick compared with the reference next-state; blocks are traced to see only pre-edge values.",
         "reference model; permutations injected at top._sched.schedule_ff"),
 "C08": ("exploration", "3/C08", "runtime monitoring: get_all_value_nets()/adjacency observed across statement permutations, side flips and hash seeds vs connected components + unique driver computed from the generator spec; net member values in simulation",
         "Each generated connection multiset is elaborated under many permutations/side flips; nets and writers must equal the spec's components/drivers and each other; simulated member values must equal the writer's.",
         "generator never creates ambiguous entry members"),
 "C09": ("exploration", "3/C09", "runtime monitoring of elaborate(): exception class observed for knowingly injected single defects across statement orders and hash seeds; legal base designs must elaborate",
         "Legal base designs + single-defect mutants with known expected error class are elaborated under many statement orders; outcome class is observed.",
         "defects are injected by construction; expected error class table from pymtl3's documented errors"),
 "C10": ("exploration", "3/C10", "runtime probes: per-node runtime nbits/int value recorded by an instrumented twin block vs static RTLIR node widths; width errors raised in simulation vs checker verdict",
         "Every sub-expression of accepted generated blocks is evaluated at run time with a probe and its width compared with the type checker's; rejected/accepted verdicts compared with simulated width errors.",
         "node matching by source position; excluded constructs per property text"),
 "C11": ("exploration", "3/C11", "runtime monitoring: re-run probe after each evaluation (fixed point), reference values for false loops, exception class for divergent loops, SCC iteration counts from the invocation tracer",
         "Cyclic generated designs are evaluated under Dynamic and Mamba schedulers; returned states are probed for fixed-pointness and compared with the reference; divergent loops must raise UpblkCyclicError within the iteration bound.",
         "logical iteration bound = pymtl3's own 100"),
 "C12": ("translation_validation", "3/C12", "runtime monitoring / differential co-simulation of the Yosys-backend text under svsim vs PyMTL simulation, leaf-port to packed-slice mapping, driver analysis",
         "As C03 on the Yosys text; flattened leaf ports are driven/compared against slices of the packed PyMTL port value computed by an independent layout.",
         "svsim trusted base; bitsref layout"),
 "C13": ("exploration", "3/C13", "runtime monitoring: bytes of translations produced by fresh processes with different hash seeds / heap layouts compared; module/instance/identifier tables of the emitted text; per-instance stand-alone body comparison",
         "Generated parameterised hierarchies are translated in several fresh processes; texts must be byte-identical, module tables consistent, and instances sharing a module name must have equal stand-alone bodies.",
         "finite set of hash seeds; svsim parser for the tables"),
 "C14": ("exploration", "3/C14", "runtime monitoring: repr/eval round trip and parent/host/level API observations on every object of generated hierarchies vs the generator's own name table",
         "Every object of generated hierarchies is round-tripped through eval(repr(o)) on the real objects; metadata APIs are compared with the name table; re-elaboration must give the same names.",
         "generator name table"),
 "C15": ("exploration", "3/C15", "runtime monitoring: canonical metadata dump + simulation traces + residue scan after replacement histories vs a from-scratch build of the same final design",
         "Random replacement histories are applied to real hierarchies; all queryable metadata and simulation traces are compared with a from-scratch build; the object graph is scanned for residue of deleted components.",
         "canonical dump drops empty defaultdict residue"),
 "C16": ("exploration", "3/C16", "offline checker over recorded event logs: the .vcd file parsed by an independent reader and the text-wave dict vs snapshots recorded by a wrapper around the dump function itself",
         "VCD files written by the real pass are parsed by an independent reader and compared for every signal and cycle with snapshots taken at the dump point.",
         "vlib/vcdparse; documented name mangling"),
 "C17": ("exploration", "3/C17", "runtime monitoring at the interface: rdy/val/msg/count every cycle vs a FIFO reference per kind; exhaustive reachable-state exploration through the real RTL for small capacities + random histories; unique message ids",
         "All library queue classes are driven through the real simulator with protocol-legal offers; every cycle's outputs are compared with a list-based FIFO model; small capacities explored exhaustively over reachable states.",
         "vlib/fiforef written from the property statement"),
 "C18": ("exploration", "3/C18", "offline checker over recorded request/response histories (client boundary) and the processing order at the backing store vs sequential byte-array replay; unique write data",
         "Multi-port random request streams under many timing configurations; responses and final image are compared with a byte-array model replayed in the observed processing order; per-port order and exactly-once checked.",
         "processing order read from wrappers around the FL memory instance methods"),
 "C19": ("exploration", "3/C19", "runtime monitoring: grants each cycle and priority register after each tick vs pointer+scan reference; exhaustive state x input for small nreqs + random adversarial histories + bounded-wait fairness counter",
         "Real arbiters are driven from every reachable priority state with every request vector for nreqs<=6, plus long random/adversarial histories; every cycle judged against an int reference.",
         "vlib/arbref"),
 "C20": ("exploration", "3/C20", "runtime monitoring: proc2mngr sequences and final memory images of ProcFL/CL/RTL on random TinyRV0 programs under random timing vs an independent ISA interpreter; checksum FL/CL/RTL vs int spec",
         "Random terminating TinyRV0 programs with dense hazards run on all three real processor models under varied timing; observations compared with an interpreter written from the ISA document.",
         "vlib/rv0ref from tinyrv0-isa.md; bounded progress in cycles"),
}

def main():
  checks, na = [], []
  for pid, modname in sorted(CHECKS.items()):
    level, ref, tech, text, note = INFO[pid]
    if os.path.exists(os.path.join(ROOT, "vlib", "checks", modname + ".py")):
      checks.append({
        "property_id": pid,
        "quick_cmd": f"cd /verif && {PY} -m vlib.run {pid} --tier quick",
        "thorough_cmd": f"cd /verif && {PY} -m vlib.run {pid} --tier thorough",
        "evidence_file": f"/verif/evidence/{pid}.json",
        "replay_cmd_template": f"cd /verif && {PY} -m vlib.run {pid} --replay {{path}}",
        "engine": "vlib",
        "level_claimed": {"category": level, "text": text, "design_ref": "DESIGN.md section " + ref},
        "level_note": note,
        "technique": tech,
      })
    else:
      na.append({"property_id": pid, "reason": "check designed (DESIGN.md section %s) but not built yet; runtime monitoring does apply" % ref})
  m = {
    "version": 1,
    "setup_cmd": "cd /verif && /venv/bin/python -c \"import vlib.common, pymtl3; print('ok', pymtl3.__file__)\"",
    "hooks": {"guard": "PYMTL3_VERIF", "enable": "no source hooks: monitors attach from outside (sys.monitoring, class/instance wrapping, top._sched injection); the guard variable is unused",
              "baseline_off_cmd": "cd /repo && /venv/bin/python -m pytest -ra -q -p no:cacheprovider --timeout=900 --continue-on-collection-errors",
              "source_commits": [], "add_only": True},
    "engines": [{"name": "vlib", "path": "/verif/vlib", "serves_properties": [c["property_id"] for c in checks],
                 "kind_free_text": "pure-Python runtime-monitoring framework: shard driver, contracts, tracers, reference models, generators, SV interpreter"}],
    "checks": checks,
    "not_applicable": na,
    "notes": "Exit codes: 0 held on everything observed, 1 violation (VIOLATION line + replay file), 2 inconclusive (monitor thresholds not reached). Known findings: /verif/known_findings.json.",
  }
  with open(os.path.join(ROOT, "MANIFEST.json"), "w") as f:
    json.dump(m, f, indent=1)
  print("claimed", [c["property_id"] for c in checks], "n/a", [x["property_id"] for x in na])

main()
