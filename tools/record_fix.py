#!/venv/bin/python
"""Record a repaired defect in the three places that list it:
   known_findings.json (status fixed), selftest/mutants.py (a revert-mutant) and the table of DESIGN.md 8.3.
   usage: tools/record_fix.py <spec.json>
   spec = {"id","property","mechanism","commit","what","short","design_prop"?, "mutants":[{"id","props","edits":[[file,old,new],...],"count"?}]}"""
import ast
import json
import sys

spec = json.load(open(sys.argv[1]))
V = "/verif/"

kf = json.load(open(V + "known_findings.json"))
assert not any(f["id"] == spec["id"] for f in kf["findings"]), "already recorded"
kf["findings"].append({"id": spec["id"], "property": spec["property"], "status": "fixed", "mechanism": spec["mechanism"],
                       "commit": spec["commit"], "what": spec["what"],
                       "line": f"fixed: property={spec['property']} {spec['commit']} {spec['short']}"})
json.dump(kf, open(V + "known_findings.json", "w"), indent=1)

src = open(V + "selftest/mutants.py").read()
assert src.rstrip().endswith("]")
body = src.rstrip()[:-1].rstrip()
for m in spec.get("mutants", []):
  ent = {"id": m["id"], "props": m["props"], "edits": [tuple(e) for e in m["edits"]]}
  if "count" in m: ent["count"] = m["count"]
  body += "\n " + repr(ent) + ","
new = body + "\n]\n"
ast.parse(new)
open(V + "selftest/mutants.py", "w").write(new)

d = open(V + "DESIGN.md").read()
marker = "\nRecorded as known findings (`known_findings.json`"
assert marker in d
row = f"| {spec['id']} | {spec.get('design_prop', spec['property'])} | {spec['what_short'] if 'what_short' in spec else spec['short']} | `{spec['commit']}` |\n"
i = d.index(marker)
d = d[:i].rstrip("\n") + "\n" + row + d[i:]
open(V + "DESIGN.md", "w").write(d)
print("recorded", spec["id"])
