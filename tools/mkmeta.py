#!/venv/bin/python
"""usage: tools/mkmeta.py <seed-dir-name> <round> <breaks> <needs> <initially> <caught_by comma list> [strengthening]"""
import json, sys
name, rnd, breaks, needs, initially, caught = sys.argv[1:7]
m = {"property": name[:3], "round": int(rnd), "breaks": breaks, "needs": needs, "initially": initially}
if len(sys.argv) > 7: m["strengthening"] = sys.argv[7]
m["caught_by"] = [c for c in caught.split(",") if c]
m["ran"] = ("tools/try_seed.sh <worktree> <name> <checks>: patch applied to a scratch worktree of /repo HEAD; cd /verif && VERIF_REPO=<scratch> "
            "VERIF_EVID=/tmp/evid_seed /venv/bin/python -m vlib.run <Cxx> --tier quick; demo run with PYTHONPATH=<scratch> (exit 1) and PYTHONPATH=/repo (exit 0)")
json.dump(m, open(f"/verif/seeded/{name}/meta.json", "w"), indent=1)
print("ok", name)
