#!/bin/bash
# usage: try_seed.sh <worktree dir or id (C01 -> /tmp/wt_C01)> <seed-dir-name> <check ids...>
# copies the sub-agent's deliverables into /verif/seeded/<name>/, applies the patch to a SCRATCH worktree of /repo (HEAD),
# runs the named checks (quick) against it (VERIF_REPO), runs the demonstration against the scratch tree (expected exit 1)
# and against /repo (expected exit 0).  /repo itself is never modified.
if [ -d "$1" ]; then WT=$1; else WT=/tmp/wt_$1; fi; NAME=$2; shift 2
D=/verif/seeded/$NAME; mkdir -p $D
[ -f $WT/seeded.diff ] && cp $WT/seeded.diff $D/patch.diff
cp $WT/demo_*.py $D/ 2>/dev/null; cp $WT/notes.md $D/ 2>/dev/null
DEMO=$(ls $D/demo_*.py | head -1)
S=/tmp/tryseed_wt_$$
git -C /repo worktree add --detach -q $S HEAD || exit 3
git -C $S apply $D/patch.diff || { echo "apply failed"; git -C /repo worktree remove --force $S; exit 3; }
R=/tmp/seedrun_$$; mkdir -p $R; cp $DEMO $R/
for c in "$@"; do
  ( cd /verif; VERIF_REPO=$S VERIF_EVID=/tmp/evid_seed /venv/bin/python -m vlib.run $c --tier quick > $R/$c.log 2>&1; echo "check $c rc=$? : $(grep -m2 VIOLATION $R/$c.log | cut -c1-200)"; tail -1 $R/$c.log | cut -c1-200 )
done
( cd $R; PYTHONPATH=$S timeout 900 /venv/bin/python $(basename $DEMO) > demo_with.log 2>&1; echo "demo with patch rc=$?"; tail -2 demo_with.log | cut -c1-200 )
( cd $R; PYTHONPATH=/repo timeout 900 /venv/bin/python $(basename $DEMO) > demo_without.log 2>&1; echo "demo without patch rc=$?"; tail -1 demo_without.log | cut -c1-200 )
git -C /repo worktree remove --force $S
echo "logs in $R"
