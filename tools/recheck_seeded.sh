#!/bin/bash
# re-applies every seeded mutant to a scratch worktree of /repo (HEAD), runs the checks listed in its meta.json (quick) against
# that copy (VERIF_REPO) and prints CAUGHT / MISSED / NOAPPLY.  /repo itself is not touched.
cd /verif
WT=/tmp/recheck_wt
git -C /repo worktree remove --force $WT 2>/dev/null
git -C /repo worktree add --detach -q $WT HEAD || exit 3
for d in /verif/seeded/*/; do
  n=$(basename $d)
  if grep -q '"obsolete"' $d/meta.json; then echo "OBSOLETE $n (harmless on the repaired tree, see meta.json)"; continue; fi
  if ! git -C $WT apply --check $d/patch.diff 2>/dev/null; then echo "NOAPPLY $n"; continue; fi
  git -C $WT apply $d/patch.diff
  checks=$(/venv/bin/python -c "import json;print(' '.join(json.load(open('$d/meta.json'))['caught_by']))")
  res=""
  for c in $checks; do
    VERIF_REPO=$WT VERIF_EVID=/tmp/evid_recheck /venv/bin/python -m vlib.run $c --tier quick > /tmp/evid_recheck_$c.log 2>&1; rc=$?
    res="$res $c:$rc"
  done
  git -C $WT checkout -- .
  if echo "$res" | grep -q ":1"; then echo "CAUGHT $n$res"; else echo "MISSED $n$res"; fi
done
git -C /repo worktree remove --force $WT
rm -rf /tmp/evid_recheck /tmp/evid_recheck_*.log
