#!/bin/bash
# runs the repository's unedited baseline suite (guard off) and compares the passing set with BASELINE.json stable_pass
OUT=${1:-/tmp/baseline_run}
mkdir -p $OUT
cd /repo && /venv/bin/python -m pytest -ra -q -p no:cacheprovider --timeout=900 --continue-on-collection-errors --junitxml=$OUT/junit.xml > $OUT/log.txt 2>&1
/venv/bin/python - <<PY
import json, xml.etree.ElementTree as ET
b=json.load(open('/root/.vp/BASELINE.json'))
passed=set()
for tc in ET.parse('$OUT/junit.xml').getroot().iter('testcase'):
    if not any(c.tag in ('failure','error','skipped') for c in tc):
        passed.add(tc.get('classname')+'::'+tc.get('name'))
sp=set(b['stable_pass'])
print('passed',len(passed),'stable_pass',len(sp),'missing',len(sp-passed),'extra',len(passed-sp))
print('MISSING:',sorted(sp-passed)[:20])
PY
