#!/bin/bash
# usage: [CHECKS="C01 C02"] sweep.sh <tier> <seed>...   : runs every check for each seed, evidence redirected to a scratch dir, prints one line per run
TIER=$1; shift
OUT=$(mktemp -d /tmp/vsweep-$$-XXXX)
for seed in "$@"; do
  for p in ${CHECKS:-C01 C02 C03 C04 C05 C06 C07 C08 C09 C10 C11 C12 C13 C14 C15 C16 C17 C18 C19 C20}; do
    VERIF_EVID=$OUT/evid_$seed VERIF_SEED=$seed /venv/bin/python -m vlib.run $p --tier $TIER > $OUT/$p.$seed.log 2>&1
    rc=$?
    echo "seed=$seed $p rc=$rc $(tail -1 $OUT/$p.$seed.log | cut -c1-160)"
    if [ $rc -ne 0 ]; then grep -h "VIOLATION\|INCONCLUSIVE" $OUT/$p.$seed.log | head -3 | cut -c1-300; fi
  done
done
echo "logs in $OUT"
