#!/venv/bin/python
"""Detection-power self test: apply one mutant (text replacement) to a scratch copy of /repo, run the quick check of
the intended property against the copy (VERIF_REPO), expect exit 1 + VIOLATION; remove the copy.
usage: run_selftest.py [mutant-id ...] [--all] [--tier quick]"""
import json, os, shutil, subprocess, sys, tempfile, time
HERE = os.path.dirname(os.path.abspath(__file__))
ROOT = os.path.dirname(HERE)
sys.path.insert(0, HERE)
from mutants import MUTANTS

def run(m, tier):
  scratch = tempfile.mkdtemp(prefix="verif-selftest-")
  try:
    subprocess.run(["rsync", "-a", "--exclude", ".git", "--exclude", "__pycache__", "--exclude", "*.v", "--exclude", "*.vcd",
                    "/repo/pymtl3", "/repo/examples", scratch], check=True)
    for (f, old, new) in m["edits"]:
      p = os.path.join(scratch, f)
      s = open(p).read()
      if s.count(old) < 1:
        return "STALE(mutant text not found: %s)" % f, 0
      open(p, "w").write(s.replace(old, new, m.get("count", 1)))
    env = dict(os.environ, VERIF_REPO=scratch, VERIF_EVID=os.path.join(scratch, "evid"))
    t0 = time.time()
    out = []
    for prop in m["props"]:
      p = subprocess.run([sys.executable, "-m", "vlib.run", prop, "--tier", tier], cwd=ROOT, env=env, capture_output=True, text=True)
      v = [l for l in p.stdout.splitlines() if l.startswith("VIOLATION")]
      out.append((prop, p.returncode, len(v), (p.stdout.splitlines() or [""])[-1][:160]))
    return out, time.time() - t0
  finally:
    shutil.rmtree(scratch, ignore_errors=True)

def main():
  args = [a for a in sys.argv[1:] if not a.startswith("--")]
  tier = "quick"
  ids = args or [m["id"] for m in MUTANTS]
  res = {}
  for m in MUTANTS:
    if m["id"] not in ids: continue
    r, dt = run(m, tier)
    caught = isinstance(r, list) and any(rc == 1 and nv > 0 for (_, rc, nv, _) in r)
    res[m["id"]] = {"caught": caught, "detail": r, "wall": round(dt, 1)}
    print(("CAUGHT " if caught else "MISSED ") + m["id"], r if not caught else [(x[0], x[1]) for x in r], f"{dt:.0f}s", flush=True)
  json.dump(res, open(os.path.join(HERE, "last_result.json"), "w"), indent=1)
  return 0 if all(v["caught"] for v in res.values()) else 1

sys.exit(main())
