"""Hand-written realistic mutants of /repo (text replacements) used to measure detection power of the checks."""
MUTANTS = [
 {"id": "bits-sub-nomask", "props": ["C04"], "edits": [("pymtl3/datatypes/PythonBits.py",
   "      return _new_valid_bits( nbits, (self._uint - other._uint) & _upper[nbits] )", "      return _new_valid_bits( nbits, (self._uint - other._uint) )")]},
 {"id": "bits-lt-le", "props": ["C04"], "edits": [("pymtl3/datatypes/PythonBits.py",
   "      return _new_valid_bits( 1, self._uint < other._uint )", "      return _new_valid_bits( 1, self._uint <= other._uint )")]},
 {"id": "bits-ctor-lower-bound", "props": ["C04"], "edits": [("pymtl3/datatypes/PythonBits.py",
   "  _lower.append(  _lower[i-1] << 1      )", "  _lower.append( (_lower[i-1] << 1) - 1 )")]},
 {"id": "bits-setitem-mask", "props": ["C05"], "edits": [("pymtl3/datatypes/PythonBits.py",
   "        self._uint = (sv & (~((1 << stop) - (1 << start)))) | \\\n                     ((v._uint & _upper[slice_nbits]) << start)",
   "        self._uint = (sv & (~((1 << stop) - (1 << (start+1))))) | \\\n                     ((v._uint & _upper[slice_nbits]) << start)")]},
 {"id": "sext-uint", "props": ["C05"], "edits": [("pymtl3/datatypes/helpers.py",
   "    return Bits( new_width, value.int() )", "    return Bits( new_width, value.uint() )")]},
 {"id": "struct-tobits-noreverse", "props": ["C06"], "edits": [("pymtl3/datatypes/bitstructs.py",
   "      for i in reversed(range(len(type_))):\n        start_bit, tos = _gen_to_bits_strs", "      for i in range(len(type_)):\n        start_bit, tos = _gen_to_bits_strs")]},
 {"id": "struct-clone-alias", "props": ["C06"], "edits": [("pymtl3/datatypes/bitstructs.py",
   "    return f\"{prefix}.clone()\"", "    return f\"{prefix}\"")]},
 {"id": "gendag-skip-sibling-slices", "props": ["C02", "C01"], "edits": [("pymtl3/passes/sim/GenDAGPass.py",
   "          if x.slice_overlap( obj ) and x in write_upblks:", "          if False and x.slice_overlap( obj ) and x in write_upblks:")]},
 {"id": "gendag-no-parent-walk-read-side", "props": ["C02", "C01"], "edits": [("pymtl3/passes/sim/GenDAGPass.py",
   "          writers.append( x )\n        x = x.get_parent_object()", "          writers.append( x )\n        break")]},
 {"id": "gendag-no-parent-walk-write-side", "props": ["C02", "C01"], "edits": [("pymtl3/passes/sim/GenDAGPass.py",
   "          readers.append( x )\n        x = x.get_parent_object()", "          readers.append( x )\n        break")]},
 {"id": "overlap-off-by-one", "props": ["C02", "C01"], "edits": [("pymtl3/dsl/Connectable.py",
   "      if x.start <= y.start:  return y.start < x.stop", "      if x.start <= y.start:  return y.start < x.stop - 1")]},
 {"id": "flip-before-last-ff", "props": ["C07", "C01"], "edits": [("pymtl3/passes/sim/PrepareSimPass.py",
   "    ret.extend( top._sched.schedule_ff )\n    ret.extend( top._sched.schedule_posedge_flip )",
   "    ret.extend( top._sched.schedule_ff[:-1] )\n    ret.extend( top._sched.schedule_posedge_flip )\n    ret.extend( top._sched.schedule_ff[-1:] )")]},
 {"id": "ilshift-writes-uint", "props": ["C07", "C04"], "edits": [("pymtl3/datatypes/PythonBits.py",
   "      self._next = v.to_bits()._uint\n    except AttributeError:\n      # Cast to int\n      v = int(v)\n      lo = _lower[nbits]\n      up = _upper[nbits]\n\n      if v < lo or v > up:\n        raise ValueError( f\"RHS value {hex(v)} of <<= is too wide",
   "      self._next = self._uint = v.to_bits()._uint\n    except AttributeError:\n      # Cast to int\n      v = int(v)\n      lo = _lower[nbits]\n      up = _upper[nbits]\n\n      if v < lo or v > up:\n        raise ValueError( f\"RHS value {hex(v)} of <<= is too wide")]},
 {"id": "arbiter-kill-init", "props": ["C19"], "edits": [("pymtl3/stdlib/basic_rtl/arbiters.py", "      s.kills[0] @= 1", "      s.kills[0] @= 0")], "count": 2},
 {"id": "arbiter-en-ignored", "props": ["C19"], "edits": [("pymtl3/stdlib/basic_rtl/arbiters.py",
   "      s.priority_en @= ( s.grants != 0 ) & s.en", "      s.priority_en @= ( s.grants != 0 )")]},
 {"id": "pipeq-no-deq-bypass", "props": ["C17"], "edits": [("pymtl3/stdlib/queues/enrdy_queues.py",
   "      s.enq.rdy @= ~s.full.out | s.deq.rdy", "      s.enq.rdy @= ~s.full.out")]},
 {"id": "mem-amo-returns-new", "props": ["C18"], "edits": [("pymtl3/stdlib/mem/MagicMemoryFL.py",
   "    s.write( addr, nbytes, AMO_FUNS[ int(amo) ]( ret, data ) )\n    s.trace = \"[amo]\"\n    return ret",
   "    new = AMO_FUNS[ int(amo) ]( ret, data )\n    s.write( addr, nbytes, new )\n    s.trace = \"[amo]\"\n    return new")]},
 {"id": "procfl-bne-offset", "props": ["C20"], "edits": [("examples/ex03_proc/ProcFL.py", "s.PC = s.PC + sext( inst.b_imm, 32 )", "s.PC = s.PC + zext( inst.b_imm, 32 )")]},
 {"id": "names-slice-of-slice", "props": ["C14"], "edits": [("pymtl3/dsl/Connectable.py",
   "      top_signal = s._dsl.parent_obj\n", "      top_signal = s\n")]},
]

# --- re-introductions of the defects that were repaired with "fix:" commits: the checks must report them again ---
MUTANTS += [
 {"id": "revert-F-B1", "props": ["C05"], "count": 2, "edits": [("pymtl3/datatypes/PythonBits.py", "      if idx.step is not None:", "      if idx.step:"),
    ("pymtl3/datatypes/PythonBits.py", "        stop  = self._nbits if idx.stop is None else int(idx.stop)", "        stop  = int(idx.stop or self._nbits)")]},
 {"id": "revert-F-B2", "props": ["C05"], "edits": [("pymtl3/datatypes/helpers.py", "  return ( int( math.ceil( N ) ) - 1 ).bit_length()", "  return int( math.ceil( math.log( N, 2 ) ) )")]},
 {"id": "revert-F-S1", "props": ["C06"], "edits": [("pymtl3/datatypes/bitstructs.py", "    if isinstance( type_, list ):\n      return \"(\" + \",\".join( [ _gen_hashable_str(", "    if False and isinstance( type_, list ):\n      return \"(\" + \",\".join( [ _gen_hashable_str(")]},
 {"id": "revert-F-M2", "props": ["C18"], "edits": [("pymtl3/stdlib/stream/magic_memory.py", "        if s.req_stalls[i].send.val & s.req_stalls[i].send.rdy:", "        if s.req_stalls[i].send.val:")]},
 {"id": "revert-F-M1", "props": ["C18"], "edits": [("pymtl3/stdlib/mem/MagicMemoryCL.py", "zext( s.mem.amo( req.type_, req.addr, len_, req.data[0:len_<<3] ),\n                     req_classes[i].data_nbits ) )", "s.mem.amo( req.type_, req.addr, len_, req.data ) )")]},
 {"id": "revert-F-D2", "props": ["C09"], "edits": [("pymtl3/dsl/ComponentLevel3.py", "            elif v is not pred.get( u ):", "            elif v is not pred[u]:")]},
 {"id": "revert-F-D1", "props": ["C09"], "edits": [("pymtl3/dsl/ComponentLevel2.py", "          if wrx_blks[0] != wr_blks[0]:\n            raise MultiWriterError( \\\n              \"Two-writer conflict between sibling", "          if True:\n            raise MultiWriterError( \\\n              \"Two-writer conflict between sibling")]},
]

MUTANTS += [
 {"id": "dyn-snapshot-first-var-only", "props": ["C11"], "edits": [("pymtl3/passes/sim/DynamicSchedulePass.py",
   "        for x in sorted( variables, key=repr ):", "        for x in sorted( variables, key=repr )[:1]:")]},
 {"id": "dyn-iteration-cap-removed", "props": ["C11"], "edits": [("pymtl3/passes/sim/DynamicSchedulePass.py",
   "    if N > 100:", "    if N > 100000000:")]},
 {"id": "dyn-scc-compare-skipped-for-struct", "props": ["C11"], "edits": [("pymtl3/passes/sim/DynamicSchedulePass.py",
   "          elif is_bitstruct_class( w._dsl.Type ):\n            if w not in final_variables:\n              final_variables.add( x )",
   "          elif is_bitstruct_class( w._dsl.Type ):\n            pass")]},
 {"id": "floodfill-stops-early", "props": ["C08"], "edits": [("pymtl3/dsl/ComponentLevel3.py",
   "            if v not in visited:\n              pred[v] = u\n              Q.append( v )", "            if v not in visited and len(net) < 3:\n              pred[v] = u\n              Q.append( v )")]},
]

MUTANTS += [
 {"id": "vcd-dump-after-ff", "props": ["C16"], "edits": [("pymtl3/passes/sim/PrepareSimPass.py",
   "    ret.extend( top._sched.schedule_ff )\n    ret.extend( top._sched.schedule_posedge_flip )",
   "    ret.extend( top._sched.schedule_ff )\n    ret.extend( top._sched.schedule_posedge_flip )\n    if top.has_metadata( VcdGenerationPass.vcd_func ): ret.append( ret.pop(0) )")]},
 {"id": "vcd-last-values-off-by-one", "props": ["C16"], "edits": [("pymtl3/passes/tracing/VcdGenerationPass.py",
   "        if last_values[i] != net_bits_bin_str:\n          last_values[i] = net_bits_bin_str", "        if last_values[i-1] != net_bits_bin_str:\n          last_values[i] = net_bits_bin_str")]},
 {"id": "vcd-net-representative-wrong", "props": ["C16"], "edits": [("pymtl3/passes/tracing/VcdGenerationPass.py",
   "    net_details = [ ( trimmed_value_nets[i][0], net_symbol_mapping[i] )", "    net_details = [ ( trimmed_value_nets[i][0], net_symbol_mapping[max(0,i-1)] )")]},
 {"id": "textwave-uint-instead-of-bits", "props": ["C16"], "edits": [("pymtl3/passes/tracing/PrintTextWavePass.py",
   "      if x.is_top_level_signal() and x.get_field_name() != \"clk\" and x.get_field_name() != \"reset\":", "      if x.is_top_level_signal() and x.get_field_name() != \"clk\" and x.get_field_name() != \"reset\" and x._dsl.Type.nbits != 33:")]},
]

MUTANTS += [
 {"id": "revert-F-R1", "props": ["C15"], "edits": [("pymtl3/dsl/ComponentLevel2.py", "        s._dsl.all_WR_U_constraints[k] -= m._dsl.WR_U_constraints[k]", "        s._dsl.all_WR_U_constraints[k] -= m._dsl.RD_U_constraints[k]")]},
 {"id": "revert-F-R2", "props": ["C15"], "edits": [("pymtl3/dsl/ComponentLevel4.py", "      s._dsl.all_update_once   -= m._dsl.update_once\n      s._dsl.all_M_constraints -= m._dsl.M_constraints", "      pass")]},
 {"id": "revert-F-R3", "props": ["C15"], "edits": [("pymtl3/dsl/Component.py", "    top._dsl.all_signals       |= late_signals\n    top._dsl.all_named_objects |= late_signals", "    pass")]},
 {"id": "revert-F-R4", "props": ["C15"], "edits": [("pymtl3/dsl/Component.py", "        top._dsl.all_adjacency.pop( y, None )", "        pass")]},
 {"id": "delete-forgets-all-signals", "props": ["C15"], "edits": [("pymtl3/dsl/Component.py", "      top._dsl.all_signals       -= removed_signals", "      pass")]},
 {"id": "add-forgets-saved-upblk-writes", "props": ["C15"], "edits": [("pymtl3/dsl/Component.py", "      parent._dsl.upblk_writes[blk].add( eval(obj_name) )", "      pass")]},
]

MUTANTS += [
 {"id": "revert-F-T2", "props": ["C03"], "edits": [("pymtl3/passes/backends/verilog/translation/behavioral/VBehavioralTranslatorL1.py", "      _one_bit = ( current_nbits == 1 )", "      _one_bit = True")]},
 {"id": "revert-F-T5", "props": ["C03"], "edits": [("pymtl3/passes/backends/verilog/translation/behavioral/VBehavioralTranslatorL1.py", "    if isinstance( node.value, ( bir.IfExp, bir.UnaryOp, bir.BinOp, bir.Compare ) ):\n      value = f\"( {value} )\"", "    if False:\n      value = f\"( {value} )\"")]},
 {"id": "revert-F-T4", "props": ["C03"], "edits": [("pymtl3/passes/backends/verilog/translation/behavioral/VBehavioralTranslatorL1.py", "    elif isinstance( node.value, ( bir.IfExp, bir.UnaryOp, bir.BinOp, bir.Compare,\n                                   bir.Truncate, bir.SizeCast, bir.Reduce ) ):", "    elif False:")]},
 {"id": "revert-F-T1", "props": ["C03"], "edits": [("pymtl3/passes/backends/verilog/translation/behavioral/VBehavioralTranslatorL2.py", "    if hasattr( node, '_value' ) and node._value is not None and \\", "    if False and \\")]},
 {"id": "revert-F-Y2", "props": ["C12"], "edits": [("pymtl3/passes/backends/yosys/translation/behavioral/YosysBehavioralTranslatorL1.py", "  def visit_Truncate( s, node ):\n    node.value._top_expr = 1", "  def visit_Truncate( s, node ):")]},
 {"id": "tr-zext-pad-off-by-one", "props": ["C03", "C12"], "edits": [("pymtl3/passes/backends/verilog/translation/behavioral/VBehavioralTranslatorL1.py", "    padded_nbits = target_nbits - current_nbits\n    if padded_nbits == 0:\n      return value\n    else:", "    padded_nbits = target_nbits - current_nbits\n    if padded_nbits == 0:\n      return value\n    elif padded_nbits > 20:\n      padded_nbits -= 1\n      return f\"{{ {{ {padded_nbits} {{ 1'b0 }} }}, {value} }}\"\n    else:")]},
 {"id": "tr-slice-upper-not-decremented", "props": ["C03", "C12"], "edits": [("pymtl3/passes/backends/verilog/translation/behavioral/VBehavioralTranslatorL1.py", "        upper = str( int( node.upper._value - 1 ) )", "        upper = str( int( node.upper._value - 1 ) if node.upper._value < 60 else int( node.upper._value ) )")]},
 {"id": "tr-struct-field-order-reversed", "props": ["C03"], "edits": [("pymtl3/passes/backends/verilog/translation/structural/VStructuralTranslatorL2.py", "    make_indent( field_decls, 1 )\n    field_decl = '\\n'.join( field_decls )", "    make_indent( field_decls, 1 )\n    field_decl = '\\n'.join( reversed( field_decls ) if len( field_decls ) == 4 else field_decls )")]},
 {"id": "tr-sizecast-negative-not-truncated", "props": ["C03"], "edits": [("pymtl3/passes/backends/verilog/translation/behavioral/VBehavioralTranslatorL2.py", "    rhs = s.visit_expr_wrap( node.right )\n\n    return f'{lhs} {op} {rhs}'", "    rhs = s.visit_expr_wrap( node.right )\n    if op == '-' and lhs.startswith( '(' ): return f'{rhs} {op} {lhs}'\n    return f'{lhs} {op} {rhs}'")], "count": 1},
]

MUTANTS += [
 {"id": "revert-F-N1", "props": ["C13"], "edits": [("pymtl3/passes/backends/verilog/util/utility.py", "  if len( full_name ) < 64 and re.fullmatch( r'[A-Za-z_][A-Za-z0-9_$]*', full_name ):", "  if len( full_name ) < 64 and not any([c in full_name for c in [' ', '<', '>', '.', '[', ']']]):")]},
 {"id": "name-ignores-param-k", "props": ["C13"], "edits": [("pymtl3/passes/rtlir/util/utility.py", "    comp_name += '__' + arg_name + '_' + get_string(arg_value)", "    comp_name += '__' + arg_name + '_' + ( get_string(arg_value) if arg_name != 'k' else 'x' )")]},
 {"id": "connections-in-set-order", "props": ["C13"], "edits": [("pymtl3/passes/rtlir/structural/StructuralRTLIRGenL1Pass.py", "    ordered_conns = [ *m.get_connect_order() ]", "    ordered_conns = list( set( m.get_connect_order() ) )")]},
 {"id": "name-hash-from-python-hash", "props": ["C13"], "edits": [("pymtl3/passes/backends/verilog/util/utility.py", "  param_name = param_hash.hexdigest()", "  param_name = format( hash( full_name ) & 0xffffffffffffffff, '016x' )")]},
]

MUTANTS += [
 {"id": "revert-F-W1", "props": ["C10"], "edits": [("pymtl3/passes/rtlir/rtype/RTLIRDataType.py", "    return value.bit_length()", "    return ceil(log2(value+1))")]},
 {"id": "revert-F-W3", "props": ["C10"], "edits": [("pymtl3/passes/rtlir/behavioral/BehavioralRTLIRTypeCheckL1Pass.py", "       rhs_type.get_length() > lhs_type.get_length():\n      raise PyMTLTypeError( s.blk, node.ast,\n        f'The LHS of the assignment", "       False:\n      raise PyMTLTypeError( s.blk, node.ast,\n        f'The LHS of the assignment")]},
 {"id": "tc-slice-width-plus-one", "props": ["C10"], "edits": [("pymtl3/passes/rtlir/behavioral/BehavioralRTLIRTypeCheckL1Pass.py", "      node.Type = rt.NetWire( rdt.Vector( int( upper_val - lower_val ) ) )", "      node.Type = rt.NetWire( rdt.Vector( int( upper_val - lower_val ) + ( 1 if lower_val == 3 else 0 ) ) )")]},
 {"id": "tc-binop-result-min-width", "props": ["C10"], "edits": [("pymtl3/passes/rtlir/behavioral/BehavioralRTLIRTypeCheckL2Pass.py", "      res_nbits = max( l_nbits, r_nbits )", "      res_nbits = min( l_nbits, r_nbits )")]},
 {"id": "tc-compare-accepts-explicit-mismatch", "props": ["C10"], "edits": [("pymtl3/passes/rtlir/behavioral/BehavioralRTLIRTypeCheckL2Pass.py", "    if l_explicit and r_explicit:\n      if l_type != r_type:", "    if l_explicit and r_explicit:\n      if l_type != r_type and l_nbits > r_nbits:")]},
 {"id": "tc-binop-accepts-explicit-mismatch", "props": ["C10"], "edits": [("pymtl3/passes/rtlir/behavioral/BehavioralRTLIRTypeCheckL2Pass.py", "        if not isinstance( op, s.BinOp_left_nbits ) and l_type != r_type:", "        if not isinstance( op, s.BinOp_left_nbits ) and l_type != r_type and l_nbits < r_nbits:")]},
]

MUTANTS += [
 {"id": "revert-F-C1", "props": ["C08"], "edits": [("pymtl3/dsl/NamedObject.py", "        if s.__dict__.get( name ) is obj:\n          return\n        fields = sd.NamedObject_fields", "        fields = sd.NamedObject_fields")]},
 {"id": "revert-F-Y4", "props": ["C12"], "edits": [("pymtl3/passes/backends/yosys/translation/structural/YosysStructuralTranslatorL4.py", "        if obj is not None:\n          c_name = _subcomp_name( obj )\n", "")]},
 {"id": "revert-F-W5", "props": ["C10"], "edits": [("pymtl3/passes/rtlir/behavioral/BehavioralRTLIRTypeCheckL2Pass.py", "          target_nbits = lhs_nbits\n          op = node.orelse\n        else:\n          target_nbits = rhs_nbits\n          op = node.body\n", "          target_nbits = lhs_nbits\n          op = node.body\n        else:\n          target_nbits = rhs_nbits\n          op = node.orelse\n")]},
 {"id": "revert-F-S2", "props": ["C02"], "edits": [("pymtl3/passes/sim/GenDAGPass.py", "      for z in ( equiv[v] if v in equiv else (v,) ):", "      for z in (v,):")]},
 {"id": "revert-F-W8", "props": ["C10"], "edits": [("pymtl3/passes/rtlir/behavioral/BehavioralRTLIRTypeCheckL2Pass.py", "    lhs_is_vector = isinstance(lhs_dtype, (rdt.Vector, rdt.Bool))\n    rhs_is_vector = isinstance(rhs_dtype, (rdt.Vector, rdt.Bool))", "    lhs_is_vector = isinstance(lhs_dtype, rdt.Vector)\n    rhs_is_vector = isinstance(rhs_dtype, rdt.Vector)")]},
 {"id": "revert-F-D3", "props": ["C09"], "edits": [("pymtl3/dsl/ComponentLevel3.py", "    for blk, writes in s._dsl.all_upblk_writes.items():\n      for obj in writes:\n        writer_prop[ obj ] = True # propagatable\n", ""),
    ("pymtl3/dsl/ComponentLevel3.py", "      for obj in writes:\n        obj = obj.get_parent_object()\n        while obj.is_signal():", "      for obj in writes:\n        writer_prop[ obj ] = True # propagatable\n        obj = obj.get_parent_object()\n        while obj.is_signal():")]},
 {"id": "revert-F-D3b", "props": ["C09"], "edits": [("pymtl3/dsl/ComponentLevel3.py", "                    assert not has_writer or writer is v", "                    assert not has_writer")]},
 {"id": "revert-F-R5", "props": ["C15"], "edits": [("pymtl3/dsl/Component.py", "    top._dsl.all_named_objects |= obj._collect_all_single()\n", "")]},
 {"id": "revert-F-R6", "props": ["C15"], "edits": [("pymtl3/dsl/Component.py", "      if blk in parent._dsl.update_ff:\n        written._dsl.needs_double_buffer = True\n", "")]},
 {"id": "revert-F-R7", "props": ["C15"], "edits": [("pymtl3/dsl/Component.py", "from .NamedObject import NamedObject, ParamTreeNode\n", "from .NamedObject import NamedObject\n")]},
 {"id": "revert-F-R8", "props": ["C15"], "edits": [("pymtl3/dsl/Component.py", "            elif other in removed_connectables and other in parent._dsl.adjacency.get( x, () ):", "            elif False:")]},
 {"id": "revert-F-R9", "props": ["C15"], "edits": [("pymtl3/dsl/Component.py", "                stale_consts.add( other )\n", "")]},
 {"id": "revert-F-S3", "props": ["C11"], "edits": [("pymtl3/passes/sim/DynamicSchedulePass.py", "        scc_blks = [ unwrap.get( x, x ) for x in scc ]", "        scc_blks = list( scc )"), ("pymtl3/passes/mamba/Mamba2020Pass.py", "      scc_blks = [ unwrap.get( x, x ) for x in scc ]", "      scc_blks = list( scc )")]},
 {"id": "revert-F-Y5", "props": ["C12"], "edits": [("pymtl3/passes/backends/yosys/translation/structural/YosysStructuralTranslatorL3.py", 'f"{ifc_idx}[{i}]" )', 'f"[{i}]{ifc_idx}" )')]},
 {"id": "revert-F-Y5b", "props": ["C12"], "edits": [("pymtl3/passes/backends/yosys/translation/structural/YosysStructuralTranslatorL4.py", 'f"{c_idx}[{i}]" )', 'f"[{i}]{c_idx}" )')]},
 {"id": "revert-F-N3", "props": ["C13"], "edits": [("pymtl3/passes/rtlir/util/utility.py", "    if isinstance(obj, Bits):\n", "    if False:\n")]},
 {"id": "revert-F-C2", "props": ["C14"], "edits": [("pymtl3/dsl/NamedObject.py", "      elif isinstance( obj, list ) and any( isinstance( x, (NamedObject, list) ) for x in obj ):", "      elif isinstance( obj, list ) and obj and isinstance( obj[0], (NamedObject, list) ):")]},
 {"id": "revert-F-S4", "props": ["C07"], "edits": [("pymtl3/dsl/ComponentLevel2.py", "            if blk in m._dsl.update_ff:\n              for x in m._dsl.func_writes[u]:", "            if False:\n              for x in m._dsl.func_writes[u]:")]},
 {"id": "revert-F-S5", "props": ["C01"], "count": 9, "edits": [("pymtl3/dsl/AstHelper.py", "          if   x in self.locals:  pass # assigned in the block itself\n          elif x in self.closure: n = (True, x)\n          elif x in self.globals: n = (False, x)", "          if   x in self.globals: n = (False, x)\n          elif x in self.closure: n = (True, x)")]},
 {"id": "revert-F-S6", "props": ["C02"], "edits": [("pymtl3/dsl/ComponentLevel2.py", "    if '_name_info' in cls.__dict__:", "    if hasattr( cls, '_name_info' ):")]},
 {"id": "revert-F-D4", "props": ["C09"], "edits": [("pymtl3/dsl/ComponentLevel3.py", "              if u is not v and u is not writer and u in net and u.slice_overlap( v ):", "              if False:")]},
 {"id": "revert-F-S7", "props": ["C02"], "edits": [("pymtl3/dsl/AstHelper.py", "    for x in node.keywords:\n      self.visit( x.value )\n", ""), ("pymtl3/dsl/AstHelper.py", "      self.generic_visit( node )\n      return\n", "      return\n")]},
 {"id": "revert-F-W9", "props": ["C10"], "edits": [("pymtl3/passes/rtlir/behavioral/BehavioralRTLIRTypeCheckL2Pass.py", "          if nbits > node.Type.get_dtype().get_length():", "          if False:")]},
 {"id": "revert-F-T9", "props": ["C03"], "edits": [("pymtl3/passes/backends/verilog/translation/behavioral/VBehavioralTranslatorL1.py", "    if isinstance( node.Type, rt.Port ) or \\\n       ( isinstance( node.Type, rt.Array ) and isinstance( node.Type.get_sub_type(), rt.Port ) ):", "    if isinstance( node.Type, rt.Port ):")]},
]
