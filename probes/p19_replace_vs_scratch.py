from pymtl3 import *
class A(Component):
  def construct(s, k=1):
    s.in_ = InPort(8); s.out = OutPort(8); s.w = Wire(8); s.c = InPort(8)
    @update
    def upa(): s.w @= s.in_ + k
    @update
    def upb(): s.out @= s.w + s.c
    s.add_constraints( U(upa) < U(upb) )
class B(Component):
  def construct(s, k=1):
    s.in_ = InPort(8); s.out = OutPort(8); s.c = InPort(8); s.r = Wire(8)
    @update_ff
    def ffb(): s.r <<= s.in_
    @update
    def upb(): s.out @= s.r + k + s.c
def mk(which):
  class Top(Component):
    def construct(s):
      s.in_ = InPort(8); s.out = OutPort(8); s.t = Wire(8)
      s.x = [ (which[i])(i) for i in range(2) ]
      s.x[0].in_ //= s.in_
      s.x[1].in_ //= s.x[0].out
      s.x[0].c //= 5
      s.x[1].c //= s.t
      s.out //= s.x[1].out
      @update
      def upt(): s.t @= s.x[0].out ^ 1
  return Top
def dump(t):
  d={}
  d['comps']=sorted(repr(c) for c in t.get_all_components())
  d['sigs']=sorted(repr(c) for c in t.get_all_object_filter(lambda x: x.is_signal()))
  d['nets']=sorted((repr(w), tuple(sorted(repr(x) for x in n))) for w,n in t.get_all_value_nets())
  d['adj']=sorted((repr(k), tuple(sorted(repr(x) for x in v))) for k,v in t.get_signal_adjacency_dict().items() if v)
  d['blks']=sorted((repr(t.get_update_block_host_component(b)), b.__name__) for b in t.get_all_update_blocks())
  rd,wr,cl=t.get_all_upblk_metadata()
  d['rd']=sorted((b.__name__, tuple(sorted(repr(x) for x in v))) for b,v in rd.items())
  d['wr']=sorted((b.__name__, tuple(sorted(repr(x) for x in v))) for b,v in wr.items())
  uu,rdu,wru,mm=t.get_all_explicit_constraints()
  d['uu']=sorted((a.__name__,b.__name__) for a,b in uu)
  d['ff']=sorted(b.__name__ for b in t.get_all_update_ff())
  return d
t1=mk([A,A])(); t1.elaborate(); t1.replace_component(t1.x[1], B)
t2=mk([A,B])(); t2.elaborate()
d1,d2=dump(t1),dump(t2)
for k in d1:
  if d1[k]!=d2[k]:
    print('DIFF',k); print('  repl:',[x for x in d1[k] if x not in d2[k]]); print('  scratch:',[x for x in d2[k] if x not in d1[k]])
print('done')
for t in (t1,t2):
  t.apply(DefaultPassGroup()); t.sim_reset(); t.in_@=3; t.sim_tick(); t.sim_tick(); print(t.out)
