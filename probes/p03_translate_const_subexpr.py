from pymtl3 import *
from pymtl3.passes.backends.verilog import VerilogTranslationPass
from pymtl3.passes.backends.yosys import YosysTranslationPass
N = 4
class A(Component):
  def construct(s):
    s.in_ = InPort(2); s.out = OutPort(2); s.o2 = OutPort(1); s.o3 = OutPort(4)
    @update
    def up():
      s.out @= s.in_ + (N >> 1)
      s.o2 @= s.in_ < (N % 3)
      s.o3 @= zext(s.in_, 4) + (20 % 16)
a=A(); a.elaborate()
a.set_metadata(VerilogTranslationPass.enable, True)
a.apply(VerilogTranslationPass())
print(open(a.get_metadata(VerilogTranslationPass.translated_filename)).read())
a.apply(DefaultPassGroup())
a.sim_reset()
for v in range(4):
  a.in_ @= v; a.sim_eval_combinational(); print(v, a.out, a.o2, a.o3)
