import itertools, random, sys
from pymtl3 import *
@bitstruct
class P:
  a: Bits4
  b: Bits4
def build(order, flips):
  class T(Component):
    def construct(s):
      s.in_ = InPort(P); s.x = Wire(P); s.y = Wire(P); s.z = Wire(4); s.o = OutPort(4); s.q = Wire(8); s.o2=OutPort(4)
      stmts = [
        (lambda: s.x, lambda: s.in_),
        (lambda: s.y.a, lambda: s.x.b),
        (lambda: s.z, lambda: s.y.a),
        (lambda: s.o, lambda: s.z),
        (lambda: s.q[0:4], lambda: s.x.a),
        (lambda: s.q[4:8], lambda: s.z),
        (lambda: s.o2, lambda: s.q[2:6]),
        (lambda: s.y.b, lambda: s.q[4:8]),
      ]
      for i in order:
        l, r = stmts[i]
        if flips[i]: connect(r(), l())
        else: connect(l(), r())
  t=T(); t.elaborate(); return t
def canon(t):
  return sorted( (repr(w), tuple(sorted(repr(x) for x in net))) for w,net in t.get_all_value_nets() if not any(n in repr(w) for n in ('clk','reset')))
ref=None
rng=random.Random(1)
res=set()
for k in range(300):
  order=list(range(8)); rng.shuffle(order); flips=[rng.random()<.5 for _ in range(8)]
  try:
    c=tuple(canon(build(order,flips)))
  except Exception as e:
    c=('EXC',type(e).__name__, str(e)[:60])
  res.add(c)
print(len(res))
for c in res: print(c)
