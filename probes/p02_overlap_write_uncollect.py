from pymtl3 import *
from pymtl3.dsl.errors import *

# same block writes overlapping slices
class A(Component):
  def construct(s):
    s.in_ = InPort(8); s.out = OutPort(8)
    @update
    def up():
      s.out[0:6] @= s.in_[0:6]
      s.out[4:8] @= s.in_[4:8]
a=A()
try:
  a.elaborate(); print('A elaborated OK')
except Exception as e: print('A', type(e).__name__, str(e)[:100])

# WR_U uncollect
class Inner(Component):
  def construct(s):
    s.in_ = InPort(8); s.out = OutPort(8); s.w = Wire(8)
    @update
    def up1(): s.w @= s.in_
    @update
    def up2(): s.out @= s.w
    s.add_constraints( WR(s.w) < U(up2), RD(s.in_) > U(up2) )
class Inner2(Component):
  def construct(s):
    s.in_ = InPort(8); s.out = OutPort(8)
    @update
    def upx(): s.out @= s.in_
class Top(Component):
  def construct(s):
    s.in_ = InPort(8); s.out = OutPort(8)
    s.c = Inner()
    s.c.in_ //= s.in_
    s.c.out //= s.out
t=Top(); t.elaborate()
uu, rd, wr, mm = t.get_all_explicit_constraints()
print('before', {repr(k):len(v) for k,v in rd.items()}, {repr(k):len(v) for k,v in wr.items()})
t.replace_component(t.c, Inner2)
uu, rd, wr, mm = t.get_all_explicit_constraints()
print('after', {repr(k):len(v) for k,v in rd.items()}, {repr(k):len(v) for k,v in wr.items()})
