from pymtl3 import *
from pymtl3.passes.PassGroups import SimpleSimPass
from pymtl3.passes.mamba.PassGroups import UnrollSim, HeuTopoUnrollSim, Mamba2020
class T(Component):
  def construct(s):
    s.in_ = InPort(8); s.x = Wire(8); s.y = Wire(8); s.z = OutPort(8)
    @update
    def A():
      s.x @= s.in_
      s.z @= s.y
    @update
    def B():
      s.y @= s.x + 1
for pg in [DefaultPassGroup(), SimpleSimPass(), UnrollSim(print_line_trace=False), HeuTopoUnrollSim(print_line_trace=False), Mamba2020(print_line_trace=False)]:
  t=T(); t.elaborate()
  try:
    t.apply(pg); t.sim_reset(); t.in_ @= 5; t.sim_eval_combinational(); print(type(pg).__name__, t.z)
  except Exception as e:
    print(type(pg).__name__, 'EXC', type(e).__name__, str(e)[:80])
