from pymtl3 import *
class Sub(Component):
  def construct(s):
    s.in_ = InPort(8); s.out = OutPort(8); s.r = Wire(8)
    @update
    def up_a(): s.out @= s.in_ + s.r
    @update_ff
    def ff_r():
      if s.reset: s.r <<= 0
      else: s.r <<= s.r + 1
class Top(Component):
  def construct(s):
    s.in_ = InPort(8); s.out = OutPort(8); s.w = Wire(8)
    s.a = Sub(); s.b = Sub()
    s.a.in_ //= s.in_
    s.b.in_[0:4] //= s.a.out[4:8]
    s.b.in_[4:8] //= s.w[0:4]
    @update
    def up_w(): s.w @= s.in_ ^ 0x55
    @update
    def up_o(): s.out @= s.b.out & s.a.out
