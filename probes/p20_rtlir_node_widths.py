from pymtl3 import *
from pymtl3.passes.rtlir import BehavioralRTLIRGenPass, BehavioralRTLIRTypeCheckPass
from pymtl3.passes.rtlir.behavioral import BehavioralRTLIR as bir
import ast
K = 5
class A(Component):
  def construct(s):
    s.a = InPort(8); s.b = InPort(8); s.o = OutPort(8); s.o1 = OutPort(1)
    @update
    def up():
      tmp = s.a + 1
      s.o @= (tmp & s.b) + K if s.a[0] else zext(s.b[2:5], 8) << 2
      s.o1 @= (s.a < 300-100) & (s.b[1:3] == 3)
m=A(); m.elaborate()
m.apply(BehavioralRTLIRGenPass(m)); m.apply(BehavioralRTLIRTypeCheckPass(m))
up = m.get_metadata(BehavioralRTLIRGenPass.rtlir_upblks)
for blk, ir in up.items():
  def walk(n, d=0):
    if isinstance(n, bir.BaseBehavioralRTLIR):
      a=getattr(n,'ast',None)
      pos = (a.lineno,a.col_offset,a.end_lineno,a.end_col_offset) if a is not None and hasattr(a,'lineno') else None
      T=getattr(n,'Type',None)
      w = T.get_dtype().get_length() if T is not None and hasattr(T,'get_dtype') else None
      print(' '*d, type(n).__name__, pos, w, getattr(n,'_is_explicit',None), getattr(n,'_value',None))
      for k,v in vars(n).items():
        if k in ('ast','Type'): continue
        if isinstance(v,list):
          for x in v: walk(x,d+1)
        else: walk(v,d+1)
  walk(ir)
