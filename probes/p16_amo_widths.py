from pymtl3 import *
from pymtl3.stdlib.mem.MagicMemoryFL import MagicMemoryFL
from pymtl3.stdlib.mem.MemMsg import MemMsgType, mk_mem_msg
m = MagicMemoryFL(1024); m.elaborate()
m.write(0x10, 4, Bits32(0x11223344))
for nbytes, data in ((4, Bits32(5)), (2, Bits32(5)), (4, Bits128(5)), (2, Bits16(0xffff))):
  try:
    print(nbytes, data.nbits, m.amo(MemMsgType.AMO_ADD, 0x10, nbytes, data), m.read(0x10,4))
  except Exception as e:
    print(nbytes, data.nbits, 'EXC', type(e).__name__, str(e)[:70])
# write with Bits wider than nbytes
try:
  m.write(0x20, 2, Bits32(0x12345678)); print(m.read(0x20,4))
except Exception as e: print('w', type(e).__name__, e)
print(m.read(0x11, 3), m.read(0x3fe, 4) if False else '')
