from pymtl3 import *
from pymtl3.passes.backends.verilog import VerilogTranslationPass
def mk(n):
  class Inner(Component):
    def construct(s):
      s.in_ = InPort(8); s.out = OutPort(8)
      @update
      def up(): s.out @= s.in_ + n
  return Inner
A, B = mk(1), mk(2)
class Top(Component):
  def construct(s):
    s.in_ = InPort(8); s.o1 = OutPort(8); s.o2 = OutPort(8)
    s.a = A(); s.b = B()
    s.a.in_ //= s.in_; s.b.in_ //= s.in_
    s.o1 //= s.a.out; s.o2 //= s.b.out
t=Top(); t.elaborate()
t.set_metadata(VerilogTranslationPass.enable, True)
t.apply(VerilogTranslationPass())
src=open(t.get_metadata(VerilogTranslationPass.translated_filename)).read()
import re
print(re.findall(r'^module (\w+)', src, re.M)); print([l for l in src.splitlines() if 'out = in_' in l])
t.apply(DefaultPassGroup()); t.sim_reset(); t.in_ @= 10; t.sim_eval_combinational(); print(t.o1, t.o2)
