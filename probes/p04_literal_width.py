from pymtl3.passes.rtlir.rtype.RTLIRDataType import _get_nbits_from_value
bad=[]
for n in range(1,200):
  for v in (2**n-1, 2**n, 2**n+1):
    if v>1 and _get_nbits_from_value(v)!=v.bit_length(): bad.append((n,v-2**n,_get_nbits_from_value(v),v.bit_length()))
print(bad[:12], len(bad))
