from pymtl3 import *
from pymtl3.passes.mamba.PassGroups import Mamba2020
from pymtl3.dsl.errors import UpblkCyclicError
@bitstruct
class P:
  a: Bits4
  b: Bits4
class T(Component):
  def construct(s):
    s.in_ = InPort(4); s.st = Wire(P); s.x = Wire(8); s.o = OutPort(4); s.o2 = OutPort(4)
    @update
    def A():
      s.st.a @= s.in_
      s.o @= s.st.b + s.x[4:8]
    @update
    def B():
      s.st.b @= s.st.a + 1
      s.x[0:4] @= s.st.a
    @update
    def C():
      s.x[4:8] @= s.x[0:4] + 2
      s.o2 @= s.o
for pg in (DefaultPassGroup(), Mamba2020(print_line_trace=False)):
  t=T(); t.elaborate(); t.apply(pg); t.sim_reset()
  for v in (3, 9, 15, 0):
    t.in_ @= v; t.sim_eval_combinational()
    exp_o = ((v+1)&15) + ((v+2)&15) & 15
    print(type(pg).__name__, v, t.st, t.x, t.o, t.o2, 'exp', hex(exp_o))
class D(Component):
  def construct(s):
    s.in_ = InPort(4); s.x = Wire(4); s.y = Wire(4)
    @update
    def A(): s.x @= s.y + s.in_
    @update
    def B(): s.y @= s.x
for pg in (DefaultPassGroup(), Mamba2020(print_line_trace=False)):
  t=D(); t.elaborate(); t.apply(pg)
  try:
    t.sim_reset(); t.in_ @= 0; t.sim_eval_combinational(); print('zero ok', t.x, t.y)
    t.in_ @= 1; t.sim_eval_combinational(); print('returned!', t.x, t.y)
  except UpblkCyclicError as e: print(type(pg).__name__, 'UpblkCyclicError')
