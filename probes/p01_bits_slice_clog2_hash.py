from pymtl3 import *
import math
x = Bits8(0xA5)
for sl in [(2,0),(0,0),(None,0),(4,None)]:
  try:
    print(sl, x[sl[0]:sl[1]])
  except Exception as e:
    print(sl, type(e).__name__, e)
y = Bits8(0xff)
try:
  y[4:0] = Bits4(0); print('set 4:0 ->', y)
except Exception as e: print(type(e).__name__, e)
bad=[n for n in range(1,70) if clog2(2**n)!=n]
print('clog2 bad pow2 exps', bad)
bad=[n for n in range(1,70) if clog2(2**n+1)!=n+1]
print('clog2 bad pow2+1 exps', bad[:10])
@bitstruct
class S:
  a: Bits4
  b: [Bits2, Bits2]
s=S()
try: print(hash(s))
except Exception as e: print('hash', type(e).__name__, e)
print(S.nbits, s.to_bits(), S.from_bits(Bits8(0b10110100)))
