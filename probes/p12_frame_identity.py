import sys, time
import gen_mod
from pymtl3 import *
mon=sys.monitoring; T=3; mon.use_tool_id(T,'v')
top=gen_mod.Top(); top.elaborate(); top.apply(DefaultPassGroup())
ids=[]
def cb(code, off):
  f=sys._getframe(1)
  s=f.f_locals.get('s')
  ids.append((code.co_name, repr(s) if s is not None else None))
mon.register_callback(T, mon.events.PY_START, cb)
for b in top._dag.final_upblks: mon.set_local_events(T, b.__code__, mon.events.PY_START)
top.sim_reset(); ids.clear(); top.sim_eval_combinational(); print(ids)
