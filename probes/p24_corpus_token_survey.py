import inspect, re, collections, traceback, sys
from pymtl3 import *
from pymtl3.passes.testcases import test_cases as tc
from pymtl3.passes.backends.verilog import VerilogTranslationPass
from pymtl3.passes.backends.yosys import YosysTranslationPass
cases=[(n,c) for n,c in vars(tc).items() if n.startswith('Case') and inspect.isclass(c) and hasattr(c,'DUT')]
print(len(cases),'cases')
ok=collections.Counter(); errs=collections.Counter(); toks=collections.Counter()
withtv=0
for n,c in cases:
  if hasattr(c,'TV'): withtv+=1
  for P in (VerilogTranslationPass, YosysTranslationPass):
    try:
      m=c.DUT(); m.elaborate(); m.set_metadata(P.enable, True); m.apply(P())
      src=open(m.get_metadata(P.translated_filename)).read()
      ok[P.__name__]+=1
      code='\n'.join(l for l in src.splitlines() if not l.strip().startswith('//'))
      for t in re.findall(r"[A-Za-z_$][A-Za-z_0-9$]*|\d+'[a-z]\w+|'\{|\+:|<=|>=|==|!=|<<|>>|\*\*|[^\sA-Za-z0-9_]", code): 
        if not re.match(r"[A-Za-z_$]", t) or t in ('module','endmodule','input','output','logic','assign','always_comb','always_ff','posedge','begin','end','if','else','for','int','unsigned','integer','localparam','typedef','struct','packed','wire','reg','function','case','endcase','generate','genvar','signed','parameter'): toks[t if not re.match(r"\d+'",t) else "N'dV"]+=1
    except Exception as e:
      errs[(P.__name__, type(e).__name__)]+=1
print(ok, withtv)
print(errs)
print(toks)
