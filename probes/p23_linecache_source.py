import linecache, types, sys
from pymtl3 import *
src = '''
from pymtl3 import *
class G(Component):
  def construct(s):
    s.a = InPort(8); s.o = OutPort(8)
    @update
    def up():
      s.o @= s.a + 1
    s.q = OutPort(8)
    s.q //= lambda: s.a & 3
'''
fname='<verif-gen-1>'
linecache.cache[fname]=(len(src),None,src.splitlines(True),fname)
mod=types.ModuleType('verif_gen_1'); mod.__file__=fname
sys.modules['verif_gen_1']=mod
exec(compile(src,fname,'exec'), mod.__dict__)
m=mod.G(); m.elaborate(); m.apply(DefaultPassGroup()); m.sim_reset(); m.a@=6; m.sim_eval_combinational(); print(m.o, m.q)
from pymtl3.passes.backends.verilog import VerilogTranslationPass
m2=mod.G(); m2.elaborate(); m2.set_metadata(VerilogTranslationPass.enable,True); m2.apply(VerilogTranslationPass())
print([l for l in open(m2.get_metadata(VerilogTranslationPass.translated_filename)) if 'At ' in l or ' = ' in l])
