import sys, random
from pymtl3 import *
from pymtl3.passes.PassGroups import SimpleSimPass
from pymtl3.passes.mamba.PassGroups import UnrollSim, HeuTopoUnrollSim, Mamba2020
import gen_mod
mon = sys.monitoring
TOOL = 3
mon.use_tool_id(TOOL, "verif")
def run(pg):
  top = gen_mod.Top(); top.elaborate()
  top.apply(pg)
  blks = {b.__code__: b.__name__ for b in top._dag.final_upblks}
  trace=[]
  def cb(code, off):
    trace.append(blks[code])
  mon.register_callback(TOOL, mon.events.PY_START, cb)
  for c in blks: mon.set_local_events(TOOL, c, mon.events.PY_START)
  top.sim_reset()
  trace.clear()
  top.in_ @= 0x37
  top.sim_eval_combinational()
  print(type(pg).__name__, trace, top.out, top.a.out, top.b.in_)
  trace.clear(); top.sim_tick(); print('  tick', trace, top.out)
  for c in blks: mon.set_local_events(TOOL, c, 0)
for pg in [DefaultPassGroup(), SimpleSimPass(), UnrollSim(print_line_trace=False), HeuTopoUnrollSim(print_line_trace=False), Mamba2020(print_line_trace=False)]:
  run(pg)
