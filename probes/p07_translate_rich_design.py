from pymtl3 import *
from pymtl3.passes.backends.verilog import VerilogTranslationPass
from pymtl3.passes.backends.yosys import YosysTranslationPass
@bitstruct
class In1:
  p: Bits4
  q: [Bits2, Bits2]
@bitstruct
class St:
  a: Bits8
  b: In1
class Ifc(Interface):
  def construct(s):
    s.msg = InPort(St); s.val = InPort()
class Sub(Component):
  def construct(s, n=3):
    s.i = [Ifc() for _ in range(2)]
    s.o = OutPort(8)
    s.os = OutPort(St)
    s.w = Wire(St)
    s.arr = [Wire(4) for _ in range(3)]
    s.K = Bits8(3)
    @update
    def upw():
      s.w @= s.i[0].msg
      for i in range(3):
        s.arr[i] @= s.i[1].msg.b.p + i
    @update
    def up():
      tv = s.w.a[0:4] + s.arr[s.i[0].msg.a[0:2]]
      if s.i[0].val & (s.w.b.q[1] == 2):
        s.o @= concat(tv, s.w.b.q[0], s.w.b.q[1])
      else:
        s.o @= sext(s.arr[1], 8) if s.i[1].val else zext(trunc(s.w.a, 3), 8)
      s.os @= St(s.o, In1(tv, s.w.b.q))
    s.r = Wire(8)
    @update_ff
    def ff():
      if s.reset: s.r <<= 0
      else: s.r <<= s.r + s.K + s.o
class Top(Component):
  def construct(s):
    s.sub = Sub(3)
    s.x = [InPort(St) for _ in range(2)]
    s.v = InPort(2)
    s.o = OutPort(8); s.os = OutPort(St)
    for k in range(2):
      s.sub.i[k].msg //= s.x[k]
      s.sub.i[k].val //= s.v[k]
    s.o //= s.sub.o
    s.os //= s.sub.os
for P in (VerilogTranslationPass, YosysTranslationPass):
  t=Top(); t.elaborate()
  t.set_metadata(P.enable, True)
  t.apply(P())
  print(open(t.get_metadata(P.translated_filename)).read())
