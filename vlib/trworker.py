"""Worker for C13: translate a batch of designs in THIS fresh process (its own PYTHONHASHSEED / address layout) and write
the emitted texts to a JSON file.   usage: python -m vlib.trworker <batch.json> <out.json> <heap_pad>"""
import json
import os
import sys
import tempfile
import traceback


def pval(d, mod_ns):
  """decode a parameter descriptor into a python value"""
  from pymtl3 import mk_bits, mk_bitstruct
  k = d["kind"]
  if k in ("int", "str", "bool", "float", "none"):
    return d.get("v")
  if k == "tuple": return tuple(pval(x, mod_ns) for x in d["v"])
  if k == "list": return [pval(x, mod_ns) for x in d["v"]]
  if k == "bits_type": return mk_bits(d["n"])
  if k == "bits_value": return mk_bits(d["n"])(d["v"])
  if k == "struct_type":
    return mk_bitstruct(d["name"], {fn: mk_bits(w) for fn, w in d["fields"]})
  if k == "struct_value":
    return mk_bitstruct(d["name"], {fn: mk_bits(w) for fn, w in d["fields"]})(*[mk_bits(w)(x) for (fn, w), x in zip(d["fields"], d["v"])])
  if k == "func":
    return (lambda x: x)
  if k == "object":
    return object()
  raise KeyError(k)


PARAM_SRC = '''
from pymtl3 import *
class Leaf(Component):
  def construct(s, T, k, inc=1, tag=None, opt=0):
    s.i = InPort(T); s.o = OutPort(T)
    s.r = Wire(T)
    s.kk = int(k) & 3          # a constant read through an attribute of the component (extracted per instance)
    INC = int(inc) & 3
    @update
    def up(): s.o @= (s.i + s.r + s.kk) ^ INC
    @update_ff
    def ff(): s.r <<= s.i
class Leaf2(Component):
  def construct(s, T, k, inc=1, tag=None, opt=0):
    s.i = InPort(T); s.o = OutPort(T)
    K = int(k) & 3
    INC = int(inc) & 3
    @update
    def up(): s.o @= (s.i ^ K) + INC
def _mk(c, T):
  cls = Leaf if c[0] == 0 else Leaf2
  kw = {}
  # c[4] = call shape: which defaulted parameters are passed (by keyword); the others are left at their defaults
  if c[4] & 1: kw["inc"] = c[5]
  if c[4] & 2: kw["tag"] = c[2]
  if c[4] & 4: kw["opt"] = c[3]
  if c[4] & 8:
    return cls(T, c[1], c[5] if c[4] & 1 else 1, **{k: v for k, v in kw.items() if k != "inc"})      # inc positional
  return cls(T, c[1], **kw)
class Mid(Component):
  def construct(s, T, cfgs):
    s.i = InPort(T); s.o = [OutPort(T) for _ in range(len(cfgs))]
    s.leafs = [ _mk(c, T) for c in cfgs ]
    for j in range(len(cfgs)):
      s.leafs[j].i //= s.i
      s.o[j] //= s.leafs[j].o
class ParamTop(Component):
  def construct(s, T, groups):
    s.i = InPort(T)
    s.mids = [ Mid(T, g) for g in groups ]
    n = sum(len(g) for g in groups)
    s.o = [OutPort(T) for _ in range(n)]
    q = 0
    for a, g in enumerate(groups):
      s.mids[a].i //= s.i
      for j in range(len(g)):
        s.o[q] //= s.mids[a].o[j]; q += 1
'''


def build(item, G):
  """-> (module, top object)"""
  if item["type"] == "specgen":
    src = G.emit(item["design"])
    mod = G.load_source(src, "c13")
    cname = item.get("top") or item["design"]["top"]
    return mod, getattr(mod, cname)()
  mod = G.load_source(PARAM_SRC, "c13p")
  T = pval(item["T"], None)
  if item["type"] == "param":
    groups = [[(c[0], pval(c[1], None), pval(c[2], None), pval(c[3], None), c[4], c[5]) for c in g] for g in item["groups"]]
    top = mod.ParamTop(T, groups)
    for a, g in enumerate(item["groups"]):
      for j, c in enumerate(g):
        if len(c) > 6 and c[6]:
          top.set_param(f"top.mids[{a}].leafs[{j}].construct", **c[6])
    return mod, top
  c = item["cfg"]      # single leaf stand-alone, constructed with the SAME call shape (and the same set_param overrides)
  top = mod._mk((c[0], pval(c[1], None), pval(c[2], None), pval(c[3], None), c[4], c[5]), T)
  if len(c) > 6 and c[6]:
    top.set_param("top.construct", **c[6])
  return mod, top


def main(argv):
  batch_file, out_file, pad = argv[0], argv[1], int(argv[2])
  _pad = [object() for _ in range(pad)]
  os.chdir(tempfile.mkdtemp(prefix="trworker-", dir=os.environ.get("VERIF_SCRATCH") or None))      # inside the shard scratch dir: removed with it
  from vlib import specgen as G, cosim
  with open(batch_file) as f:
    batch = json.load(f)
  out = []
  for item in batch:
    res = {}
    for be in item["backends"]:
      try:
        mod, top = build(item, G)
        top.elaborate()
        text, fn, topmod = cosim.translate(top, be)
        res[be] = {"text": text, "top_module": topmod}
        # "any number of times": the same elaborated design translated once more in this process
        try:
          text2, fn2, topmod2 = cosim.translate(top, be)
          if text2 != text or topmod2 != topmod:
            import difflib
            res[be]["again_differs"] = [l for l in difflib.unified_diff(text.splitlines(), text2.splitlines(), lineterm="", n=0)][:12]
          else: res[be]["again_same"] = True
        except Exception as e:
          res[be]["again_raised"] = f"{type(e).__name__}: {str(e)[:200]}"
        try: os.remove(fn)
        except OSError: pass
      except Exception as e:
        res[be] = {"rejected": type(e).__name__, "msg": str(e)[:200]}
    out.append(res)
  with open(out_file, "w") as f:
    json.dump(out, f)


if __name__ == "__main__":
  main(sys.argv[1:])
