import sys
from vlib.common import shard_main
if __name__ == "__main__":
  sys.exit(shard_main(sys.argv[1:]))
