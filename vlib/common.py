"""Shared driver / shard plumbing for all checks.

A check module (vlib/checks/cXX_*.py) provides

  PROPERTY     "C04"
  LEVEL        "exploration" | "translation_validation"
  RULE         text: how cases are generated and what makes one distinct / non-trivial
  ASSUMPTIONS  list of strings
  def plan(tier, seed) -> list of shard parameter dicts (JSON-able); one subprocess each
  def run_shard(sh)    -> None; uses the Shard API below (sh.params holds the dict)
  def thresholds(tier) -> {counter name: minimum}  (minimum-observation thresholds)
  optional  EXHAUSTIVE(tier, counters) -> bool
  optional  def replay(witness, sh) -> re-executes one recorded witness

Verdicts are three valued.  exit 0 = held on everything observed, exit 1 =
violation (VIOLATION line), exit 2 = inconclusive (monitor not reached /
too many watchdog hits) -- never folded into the other two.
"""
import hashlib
import json
import os
import random
import shutil
import subprocess
import sys
import tempfile
import time
import traceback
from collections import Counter
from concurrent.futures import ThreadPoolExecutor

ROOT = os.path.dirname(os.path.dirname(os.path.abspath(__file__)))
REPO = os.environ.get("VERIF_REPO", "/repo")       # selftest points this at a mutated scratch copy
EVID = os.environ.get("VERIF_EVID", os.path.join(ROOT, "evidence"))
REPLAY = os.path.join(EVID, "replay")
KNOWN = os.path.join(ROOT, "known_findings.json")
NCPU = min(16, os.cpu_count() or 4)

CHECKS = {
  "C01": "c01_schedule", "C02": "c02_order", "C03": "c03_sv", "C04": "c04_bits",
  "C05": "c05_slices", "C06": "c06_bitstruct", "C07": "c07_ff", "C08": "c08_nets",
  "C09": "c09_reject", "C10": "c10_widths", "C11": "c11_cycles", "C12": "c12_yosys",
  "C13": "c13_determinism", "C14": "c14_names", "C15": "c15_replace", "C16": "c16_waves",
  "C17": "c17_queues", "C18": "c18_memory", "C19": "c19_arbiter", "C20": "c20_proc",
}


def stable_hash(*xs):
  return hashlib.sha1(repr(xs).encode()).hexdigest()


def mkrng(*xs):
  return random.Random(int(stable_hash(*xs)[:16], 16))


def jsonable(x, depth=0):
  if depth > 12:
    return repr(x)[:200]
  if isinstance(x, (str, int, float, bool)) or x is None:
    if isinstance(x, int) and not isinstance(x, bool) and abs(x) >= 2 ** 62:
      return hex(x)
    return x
  if isinstance(x, dict):
    return {str(k): jsonable(v, depth + 1) for k, v in x.items()}
  if isinstance(x, (list, tuple, set, frozenset)):
    xs = list(x)
    if isinstance(x, (set, frozenset)):
      xs = sorted(xs, key=repr)
    return [jsonable(v, depth + 1) for v in xs]
  return repr(x)[:400]


class Shard:
  """Collects what one shard process observed."""

  def __init__(self, prop, tier, seed, idx, params, only=None):
    self.prop, self.tier, self.seed, self.idx = prop, tier, seed, idx
    self.params = params
    self.only = only           # replay: restrict to one case id
    self.counters = Counter()
    self.fps = set()
    self.violations = []
    self.samples = []
    self.inconc = Counter()
    self.t0 = time.time()

  # -- randomness -------------------------------------------------------
  def rng(self, *case):
    return mkrng(self.prop, self.seed, self.idx, *case)

  # -- counters ---------------------------------------------------------
  def count(self, key, n=1):
    self.counters[key] += n

  def fp(self, *x):
    """register a fingerprint of a distinct non-trivial case"""
    self.fps.add(stable_hash(*x)[:14])

  def sample(self, x, cap=3):
    if len(self.samples) < cap:
      self.samples.append(jsonable(x))

  def inconclusive(self, reason):
    self.inconc[reason] += 1

  def violation(self, kind, witness, mechanism=None, case=None):
    """kind: short slug of what was refuted; mechanism: known-finding key
    computed by a predicate over the witness (None = unclassified)."""
    self.count("violations_raw")
    # bounded storage, but a classified (listed) finding never uses up the room of an unclassified one: at most 6 witnesses per
    # listed mechanism, at most 40 unclassified witnesses
    if mechanism is not None:
      self.count("listed:" + str(mechanism))
      room = sum(1 for v in self.violations if v["mechanism"] == mechanism) < 6
    else:
      room = sum(1 for v in self.violations if v["mechanism"] is None) < 40
    if room:
      self.violations.append({"kind": kind, "mechanism": mechanism, "case": jsonable(case),
                              "witness": jsonable(witness)})

  def elapsed(self):
    return time.time() - self.t0

  def dump(self):
    return {"idx": self.idx, "counters": dict(self.counters), "fps": sorted(self.fps),
            "violations": self.violations, "samples": self.samples,
            "inconc": dict(self.inconc), "wall": self.elapsed()}


def load_check(prop):
  import importlib
  return importlib.import_module("vlib.checks." + CHECKS[prop])


def load_known(prop):
  try:
    with open(KNOWN) as f:
      data = json.load(f)
  except FileNotFoundError:
    return []
  return [e for e in data.get("findings", []) if e.get("property") == prop]


# ---------------------------------------------------------------------------
# shard process entry
# ---------------------------------------------------------------------------

def shard_main(argv):
  prop, tier, seed, idx, pfile, ofile = argv[:6]
  only = argv[6] if len(argv) > 6 else None
  seed, idx = int(seed), int(idx)
  with open(pfile) as f:
    params = json.load(f)[idx]
  mod = load_check(prop)
  sh = Shard(prop, tier, seed, idx, params, only=only)
  status = "ok"
  try:
    pad = params.get("heap_pad", 0) if isinstance(params, dict) else 0
    _pad = [object() for _ in range(pad)]
    mod.run_shard(sh)
  except BaseException as e:  # harness failure, not a verdict
    status = "crash"
    sh.inconclusive("shard-crash:" + type(e).__name__)
    sh.samples.append({"crash": traceback.format_exc()[-3000:]})
  out = sh.dump()
  out["status"] = status
  with open(ofile, "w") as f:
    json.dump(out, f)
  return 0


# ---------------------------------------------------------------------------
# driver
# ---------------------------------------------------------------------------

def _run_one(prop, tier, seed, idx, params, pfile, scratch, timeout, only=None):
  odir = os.path.join(scratch, f"s{idx}")
  os.makedirs(odir, exist_ok=True)
  ofile = os.path.join(odir, "result.json")
  env = dict(os.environ)
  env["PYTHONPATH"] = REPO + os.pathsep + ROOT + os.pathsep + env.get("PYTHONPATH", "")
  env["PYTHONHASHSEED"] = str(params.get("hashseed", 0) if isinstance(params, dict) else 0)
  env["PYTHONDONTWRITEBYTECODE"] = "1"
  env["VERIF_SCRATCH"] = odir
  cmd = [sys.executable, "-m", "vlib.shard", prop, tier, str(seed), str(idx), pfile, ofile]
  if only is not None:
    cmd.append(only)
  if isinstance(params, dict) and params.get("noaslr") and shutil.which("setarch"):
    cmd = ["setarch", os.uname().machine, "-R"] + cmd
  t0 = time.time()
  try:
    p = subprocess.run(cmd, cwd=odir, env=env, timeout=timeout, stdout=subprocess.PIPE,
                       stderr=subprocess.PIPE, text=True)
    if os.path.exists(ofile):
      with open(ofile) as f:
        r = json.load(f)
      r["stderr_tail"] = p.stderr[-1500:] if r.get("status") != "ok" else ""
      return r
    return {"idx": idx, "status": "noresult", "counters": {}, "fps": [], "violations": [],
            "samples": [{"stderr": p.stderr[-3000:], "rc": p.returncode}],
            "inconc": {"shard-noresult": 1}, "wall": time.time() - t0}
  except subprocess.TimeoutExpired:
    return {"idx": idx, "status": "timeout", "counters": {}, "fps": [], "violations": [],
            "samples": [], "inconc": {"shard-timeout(wall-clock watchdog)": 1},
            "wall": time.time() - t0}


def run_check(prop, tier="quick", seed=0, replay=None):
  mod = load_check(prop)
  t0 = time.time()
  os.makedirs(REPLAY, exist_ok=True)
  scratch = tempfile.mkdtemp(prefix=f"verif-{prop}-")
  try:
    if replay:
      with open(replay) as f:
        w = json.load(f)
      plan = [w["shard_params"]]
      tier, seed = w.get("tier", tier), w.get("seed", seed)
      idxs = [(0, w.get("shard_idx", 0))]
      only = json.dumps(w.get("case"))
    else:
      plan = mod.plan(tier, seed)
      idxs = [(i, i) for i in range(len(plan))]
      only = None
    pfile = os.path.join(scratch, "plan.json")
    # plan file is indexed by the *real* shard idx
    full = {}
    for (pi, real) in idxs:
      full[real] = plan[pi]
    maxi = max(full) + 1
    with open(pfile, "w") as f:
      json.dump([full.get(i) for i in range(maxi)], f)
    timeout = getattr(mod, "SHARD_TIMEOUT", {}).get(tier, 900 if tier == "quick" else 5400)
    results = []
    with ThreadPoolExecutor(max_workers=NCPU) as ex:
      futs = [ex.submit(_run_one, prop, tier, seed, real, full[real], pfile, scratch, timeout, only)
              for (_, real) in idxs]
      for fu in futs:
        results.append(fu.result())
  finally:
    shutil.rmtree(scratch, ignore_errors=True)

  counters, fps, inconc, samples, viols = Counter(), set(), Counter(), [], []
  crashed = 0
  for r in results:
    counters.update(r.get("counters", {}))
    fps.update(r.get("fps", []))
    inconc.update(r.get("inconc", {}))
    if r.get("status") != "ok":
      crashed += 1
      samples.extend(r.get("samples", [])[-1:])
    else:
      for s in r.get("samples", []):
        if len(samples) < 4:
          samples.append(s)
    for v in r.get("violations", []):
      v["shard_idx"] = r["idx"]
      v["shard_params"] = full.get(r["idx"])
      viols.append(v)

  pm = getattr(mod, "post_merge", None)
  if pm is not None:
    pm(counters)

  # --- classify violations against known findings (by mechanism) -------
  known = load_known(prop)
  known_open = {e["mechanism"]: e for e in known if e.get("status") == "known"}
  new, reproduced = [], Counter()
  for v in viols:
    m = v.get("mechanism")
    if m is not None and m in known_open:
      reproduced[m] += 1
    else:
      new.append(v)

  lines = []
  rc = 0
  for m, e in known_open.items():
    if reproduced[m]:
      lines.append(f"KNOWN-FINDING: property={prop} {e['id']} {e['what']} (reproduced {max(reproduced[m], counters.get('listed:' + str(m), 0))}x this run)")
    elif not replay:
      lines.append(f"NOTE: listed finding {e['id']} ({m}) was not reproduced by this run's probe stream")
  seen = set()
  for v in new:
    rc = 1
    key = (v["kind"], v.get("mechanism"))
    if key in seen or len(seen) >= 8:
      continue
    seen.add(key)
    h = stable_hash(v["kind"], v["witness"])[:12]
    path = os.path.join(REPLAY, f"{prop}-{h}.json")
    with open(path, "w") as f:
      json.dump({"property": prop, "tier": tier, "seed": seed, "kind": v["kind"],
                 "mechanism": v.get("mechanism"), "case": v.get("case"),
                 "shard_idx": v["shard_idx"], "shard_params": v["shard_params"],
                 "witness": v["witness"]}, f, indent=1)
    lines.append(f"VIOLATION property={prop} replay={path}")

  # --- thresholds / inconclusive --------------------------------------
  unmet = {}
  if not replay:
    for k, mn in mod.thresholds(tier).items():
      if counters.get(k, 0) < mn:
        unmet[k] = (counters.get(k, 0), mn)
  n_inc = sum(inconc.values())
  evals = counters.get("evaluations", 0)
  too_many_inc = crashed > 0 or (evals and n_inc > 0.2 * max(evals, 1))
  if rc == 0 and not replay and (unmet or too_many_inc):
    rc = 2
    lines.append(f"INCONCLUSIVE property={prop} unmet_thresholds={unmet} inconclusive={dict(inconc)} crashed_shards={crashed}")

  wall = time.time() - t0
  if not replay:
    cov = {
      "evaluations": int(evals),
      "distinct_nontrivial": len(fps),
      "rule": mod.RULE,
      "samples": samples[:4] or ["<no sample recorded>"],
      "monitor_counters": {k: int(v) for k, v in sorted(counters.items())},
      "inconclusive": dict(inconc),
      "thresholds": mod.thresholds(tier),
      "thresholds_unmet": {k: list(v) for k, v in unmet.items()},
      "shards": len(results),
      "known_findings_reproduced": dict(reproduced),
      "verdict": {0: "held-on-observed", 1: "violated", 2: "inconclusive"}[rc],
    }
    ex_fn = getattr(mod, "exhaustive", None)
    if ex_fn is not None:
      cov["exhaustive"] = bool(ex_fn(tier, counters)) and rc == 0
      cov["exhaustive_note"] = getattr(mod, "EXHAUSTIVE_NOTE", "")
    if mod.LEVEL == "translation_validation":
      cov["programs"] = int(counters.get("programs", 0))
      cov["disagreements_checked"] = int(counters.get("disagreements_checked", 0))
    ev = {"property_id": prop, "tier": tier, "seed": int(seed), "level": mod.LEVEL,
          "coverage": cov, "assumptions": list(mod.ASSUMPTIONS), "wall_s": round(wall, 2),
          "violations": len(new)}
    os.makedirs(EVID, exist_ok=True)
    with open(os.path.join(EVID, f"{prop}.json"), "w") as f:
      json.dump(ev, f, indent=1)
  for l in lines:
    print(l)
  print(f"[{prop}] tier={tier} seed={seed} evaluations={evals} distinct={len(fps)} "
        f"violations={len(new)} known={sum(reproduced.values())} inconclusive={n_inc} "
        f"wall={wall:.1f}s rc={rc}")
  if replay:
    for v in viols:
      print("REPLAYED:", json.dumps(v["witness"])[:2000])
  return rc
