"""IEEE 1800-2017 Annex B: the reserved keywords of SystemVerilog, written down from the standard (NOT taken from pymtl3's table)."""
SV_KEYWORDS = set("""
accept_on alias always always_comb always_ff always_latch and assert assign assume automatic before begin bind bins binsof bit
break buf bufif0 bufif1 byte case casex casez cell chandle checker class clocking cmos config const constraint context continue
cover covergroup coverpoint cross deassign default defparam design disable dist do edge else end endcase endchecker endclass
endclocking endconfig endfunction endgenerate endgroup endinterface endmodule endpackage endprimitive endprogram endproperty
endspecify endsequence endtable endtask enum event eventually expect export extends extern final first_match for force foreach
forever fork forkjoin function generate genvar global highz0 highz1 if iff ifnone ignore_bins illegal_bins implements implies
import incdir include initial inout input inside instance int integer interconnect interface intersect join join_any join_none
large let liblist library local localparam logic longint macromodule matches medium modport module nand negedge nettype new
nexttime nmos nor noshowcancelled not notif0 notif1 null or output package packed parameter pmos posedge primitive priority
program property protected pull0 pull1 pulldown pullup pulsestyle_ondetect pulsestyle_onevent pure rand randc randcase
randsequence rcmos real realtime ref reg reject_on release repeat restrict return rnmos rpmos rtran rtranif0 rtranif1 s_always
s_eventually s_nexttime s_until s_until_with scalared sequence shortint shortreal showcancelled signed small soft solve specify
specparam static string strong strong0 strong1 struct super supply0 supply1 sync_accept_on sync_reject_on table tagged task this
throughout time timeprecision timeunit tran tranif0 tranif1 tri tri0 tri1 triand trior trireg type typedef union unique unique0
unsigned until until_with untyped use uwire var vectored virtual void wait wait_order wand weak weak0 weak1 while wildcard wire
with within wor xnor xor
""".split())
# words that the back ends themselves emit in their syntactic role (a port of that name cannot be told from the keyword in the text)
EMITTED_SYNTAX = {"module", "endmodule", "input", "output", "logic", "always_comb", "always_ff", "begin", "end", "if", "else", "for",
                  "int", "unsigned", "integer", "assign", "typedef", "struct", "packed", "localparam", "posedge", "wire", "reg", "signed"}
