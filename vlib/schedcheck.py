"""Engine shared by C01 / C02 / C07: run one generated design under many schedules with all monitors on.

judge (set of oracle families the calling check claims):
  "values"  every signal after every eval / tick == reference (C01), cross-schedule equality is implied
  "rerun"   re-invoking every comb block after an evaluation changes nothing (C01)
  "order"   positional oracle + exactly-once on the invocation trace (C02)
  "stale"   stale-read probe for comb blocks (C02)
  "ff"      registers after tick == reference next-state; ff blocks see pre-edge values (C07)
"""
import traceback
from collections import Counter

from vlib import specgen as G
from vlib import simmon as M


def block_tables(design, ref):
  """spec-side facts: per (host, name): kind, read refs (deduped), required ordered pairs among comb blocks"""
  reads = {}
  kinds = {}
  for h, b in ref.blocks:
    rd, wr = G.stmt_reads_writes(b["stmts"], [], [])
    seen = {}
    own = ref.rw[(h, b["name"])][1]
    for r in rd:
      # a block may read (sequentially, after writing them) bits it writes itself: not subject to the entry-time probe
      if any(ref.find(c) in own for c in ref.ref_cells(h, r)):
        continue
      seen[(r["path"], r["lo"], r["w"])] = r
    reads[(h, b["name"])] = list(seen.values())
    kinds[(h, b["name"])] = b["kind"]
  comb = [k for k, v in kinds.items() if v == "comb"]
  pairs = []
  kind_of_pair = {}
  for a in comb:
    Wa = ref.rw[a][1]
    for b in comb:
      if a == b: continue
      if Wa & ref.rw[b][0]:
        if ref.rw[b][1] & ref.rw[a][0]:
          continue          # mutual dependency = block-level cycle; not part of the acyclic premise
        pairs.append((a, b))
  # explicit constraints of the spec (U(a) < U(b), WR(x) < U(b): every writer of x before b, RD(x) > U(a): every reader of x after a)
  import re
  explicit = []
  by_host = {}
  for (h, n), v in kinds.items():
    by_host.setdefault(h, []).append(n)
  for host, cname in ref.inst.items():
    for c in design["classes"][cname].get("constraints", []):
      m = re.fullmatch(r"U\((\w+)\) < U\((\w+)\)", c)
      if m:
        explicit.append(((host, m.group(1)), (host, m.group(2)), c)); continue
      m = re.fullmatch(r"(WR|RD)\(s\.([\w\[\]]+)\) ([<>]) U\((\w+)\)", c)
      if m:
        kind_, sig, op, blk = m.groups()
        cells = {ref.find(x) for x in ref.cell[f"{host}.{sig}"]}
        for (h2, n2) in [(host, n) for n in by_host.get(host, [])]:
          if (h2, n2) == (host, blk) or kinds[(h2, n2)] != "comb": continue
          # the constraint names the signal object s.<sig> itself: blocks of this component that write / read exactly it
          rd_, wr_ = G.stmt_reads_writes(next(b for hh, b in ref.blocks if hh == h2 and b["name"] == n2)["stmts"], [], [])
          objs = wr_ if kind_ == "WR" else rd_
          if any(r["path"] == sig and not r["steps"] for r in objs):
            explicit.append((((h2, n2), (host, blk), c) if op == "<" else ((host, blk), (h2, n2), c)))
  return reads, kinds, pairs, explicit


def run_design(sh, design, rng, case, modes, ncyc, judge, tag, reps=None):
  src = G.emit(design)
  mod = G.load_source(src, tag)
  try:
    return _run(sh, design, src, mod, rng, case, modes, ncyc, judge, reps or {})
  finally:
    G.unload(mod)


def _viol(sh, kind, case, design, src, **kw):
  w = dict(kw)
  w["design_source"] = src
  sh.violation(kind, w, case=case)


def _run(sh, design, src, mod, rng, case, modes, ncyc, judge, reps):
  seq = M.gen_inputs(rng, design, ncyc)
  # half of the designs are brought up with the simulator's own sim_reset() (the registers that do not test reset keep running
  # through it), the others with two reset cycles driven by the harness
  use_sim_reset = ("values" in judge or "ff" in judge) and rng.random() < 0.5
  reftrace, ref = M.reference_trace(design, seq, sim_reset=use_sim_reset)
  if reftrace is None:
    sh.inconclusive("reference-did-not-settle(generator produced a bit-level loop)")
    return None
  if not G.block_graph_acyclic(ref):
    sh.inconclusive("generated-design-has-block-level-cycle(outside the acyclic premise)")
    return None
  widths = {p: w for p, w in G.top_inputs(design)}
  reads, kinds, pairs, explicit = block_tables(design, ref)
  paths = sorted(ref.sig)
  regcells = set()
  for k, v in kinds.items():
    if v == "ff": regcells |= ref.rw[k][1]
  regpaths = [p for p in paths if any(ref.find(c) in regcells for c in ref.cell[p])]
  user_comb = {(h, n, "comb") for (h, n), v in kinds.items() if v == "comb"}
  user_ff = {(h, n, "ff") for (h, n), v in kinds.items() if v == "ff"}
  schedules = set()
  ff_orders = set()
  stats = Counter()
  runs = []
  for mode in modes:
    for rep in range(reps.get(mode, 1)):
      runs.append(mode)
  for mode in runs:
    top = getattr(mod, design["top"])()
    try:
      M.apply_mode(top, mode, rng)
    except Exception as e:
      _viol(sh, "scheduler-or-elaboration-raised-on-legal-acyclic-design", case, design, src, mode=mode,
            error=traceback.format_exc()[-600:])
      continue
    live = M.Live(top)
    captured = {}
    def on_start(key, captured=captured, live=live):
      rs = reads.get((key[0], key[1]))
      if rs:
        captured.setdefault(key, []).append([live.ref(key[0], r) for r in rs])
    need_probe = "stale" in judge or "ff" in judge
    tr = M.Tracer(top, on_start if need_probe else None)
    last_final = {}
    first_pass_keys = None
    bad = False
    try:
      if use_sim_reset:
        top.sim_reset(); tr.take(); captured.clear(); stats["runs_started_with_sim_reset"] += 1
      for cyc, inp in enumerate(seq):
        M.set_inputs(top, live, inp, widths, int(cyc < 2 and not use_sim_reset))
        tr.take(); captured.clear()
        top.sim_eval_combinational()
        ev = tr.take()
        passes = [("eval", ev, dict(captured))]
        captured.clear()
        finals_eval = {}
        if "stale" in judge:      # final values of the eval pass must be read now, before the tick changes them
          for key in ev:
            rs = reads.get((key[0], key[1]))
            if rs:
              for r in rs:
                finals_eval[(key[0], r["path"], r["lo"], r["w"])] = live.ref(key[0], r)
        if "values" in judge or "rerun" in judge:
          snap = live.snapshot(paths)
          stats["snapshots"] += 1
          if "values" in judge:
            stats["value_comparisons"] += len(paths)
            exp = reftrace[cyc][0]
            diff = [(p, hex(snap[p]), hex(exp[p])) for p in paths if snap[p] != exp[p]]
            if diff:
              _viol(sh, "signal-differs-from-dataflow-reference-after-eval", case, design, src, mode=mode, cycle=cyc,
                    diff=diff[:5], inputs=inp, schedule=[e[:2] for e in ev])
              bad = True
          if "rerun" in judge and not bad:
            tr_events = tr.events
            for blk in list(top._dag.final_upblks - top.get_all_update_ff()):
              blk()
              stats["rerun_invocations"] += 1
            tr.take()
            snap2 = live.snapshot(paths)
            if snap2 != snap:
              d2 = [(p, hex(snap[p]), hex(snap2[p])) for p in paths if snap[p] != snap2[p]]
              _viol(sh, "state-after-evaluation-is-not-a-fixed-point", case, design, src, mode=mode, cycle=cyc, diff=d2[:5])
              bad = True
            captured.clear()
        pre_edge = {}
        if "ff" in judge:
          pre_edge = {(k, i): live.ref(k[0], r) for k in kinds if kinds[k] == "ff" for i, r in enumerate(reads[k])}
        top.sim_tick()
        ev = tr.take()
        p1, ffev, p2 = M.split_tick(ev)
        cap = dict(captured); captured.clear()
        passes.append(("tick-pass1", p1, cap)); passes.append(("tick-pass2", p2, cap))
        if ffev:
          ff_orders.add(tuple(e[:2] for e in ffev))
        # ---- C07: ff blocks saw pre-edge values; registers == next-state ---------------------
        if "ff" in judge:
          if Counter(ffev) != Counter(user_ff):
            _viol(sh, "ff-blocks-not-executed-exactly-once-per-tick", case, design, src, mode=mode, cycle=cyc,
                  got=[e[:2] for e in ffev]); bad = True
          for key in ffev:
            vals = cap.get(key, [[]])[0]
            for i, v in enumerate(vals):
              stats["ff_preedge_comparisons"] += 1
              if v != pre_edge[((key[0], key[1]), i)]:
                r = reads[(key[0], key[1])][i]
                _viol(sh, "ff-block-observed-post-edge-value", case, design, src, mode=mode, cycle=cyc, block=key[:2],
                      ref=G.ref_text(r), seen=hex(v), pre_edge=hex(pre_edge[((key[0], key[1]), i)]),
                      ff_order=[e[:2] for e in ffev]); bad = True
          snap = live.snapshot(regpaths if "values" not in judge else paths)
          exp = reftrace[cyc][1]
          stats["register_comparisons"] += len(regpaths)
          diff = [(p, hex(snap[p]), hex(exp[p])) for p in snap if snap[p] != exp[p]]
          if diff:
            _viol(sh, "register-differs-from-next-state-function", case, design, src, mode=mode, cycle=cyc, diff=diff[:5],
                  ff_order=[e[:2] for e in ffev]); bad = True
        elif "values" in judge:
          snap = live.snapshot(paths)
          stats["snapshots"] += 1; stats["value_comparisons"] += len(paths)
          exp = reftrace[cyc][1]
          diff = [(p, hex(snap[p]), hex(exp[p])) for p in paths if snap[p] != exp[p]]
          if diff:
            _viol(sh, "signal-differs-from-dataflow-reference-after-tick", case, design, src, mode=mode, cycle=cyc,
                  diff=diff[:5], inputs=inp, ff_order=[e[:2] for e in ffev]); bad = True
        # ---- C02: order / exactly-once / stale reads ---------------------------------------
        if "order" in judge or "stale" in judge:
          for pname, pev, pcap in passes:
            pev = [e for e in pev if e[2] == "comb"]
            if "order" in judge:
              cnt = Counter(pev)
              stats["passes_checked"] += 1
              if first_pass_keys is None:
                first_pass_keys = set(cnt)
              dup = [k[:2] for k, n in cnt.items() if n != 1]
              missing = [k[:2] for k in (user_comb | first_pass_keys) if k not in cnt]
              if dup or missing:
                _viol(sh, "block-not-executed-exactly-once-in-a-pass", case, design, src, mode=mode, cycle=cyc, which=pname,
                      duplicated=dup[:4], missing=missing[:4]); bad = True
              pos = {}
              for i, k in enumerate(pev):
                pos.setdefault((k[0], k[1]), i)
              for (a, b, ctext) in explicit:
                stats["explicit_constraints_checked"] += 1
                if a in pos and b in pos and pos[a] > pos[b]:
                  _viol(sh, "explicit-constraint-not-honoured", case, design, src, mode=mode, cycle=cyc, which=pname, constraint=ctext,
                        first=a, second=b, schedule=[e[:2] for e in pev]); bad = True
                  break
              for (a, b) in pairs:
                stats["ordered_pairs_checked"] += 1
                if a in pos and b in pos and pos[a] > pos[b]:
                  _viol(sh, "reader-scheduled-before-writer", case, design, src, mode=mode, cycle=cyc, which=pname,
                        writer=a, reader=b, schedule=[e[:2] for e in pev]); bad = True
                  break
            if "stale" in judge and pname != "tick-pass1":
              newfinal = {}
              for key in pev:
                lst = pcap.get(key)
                if not lst: continue
                vals = lst[-1]
                rs = reads[(key[0], key[1])]
                for i, v in enumerate(vals):
                  lk = (key[0], rs[i]["path"], rs[i]["lo"], rs[i]["w"])
                  fin = finals_eval[lk] if pname == "eval" else live.ref(key[0], rs[i])
                  if last_final.get(lk, fin) != fin:
                    stats["discriminating_stale_read_comparisons"] += 1
                  stats["stale_read_comparisons"] += 1
                  if v != fin:
                    _viol(sh, "block-read-a-value-that-changed-later-in-the-same-pass(stale read)", case, design, src,
                          mode=mode, cycle=cyc, which=pname, block=key[:2], ref=G.ref_text(rs[i]), seen=hex(v),
                          final=hex(fin), schedule=[e[:2] for e in pev]); bad = True
                  newfinal[lk] = fin
              last_final.update(newfinal)
        if bad:
          break
        schedules.add(("eval",) + tuple(e[:2] for e in passes[0][1]))
    except Exception as e:
      _viol(sh, "simulation-raised-on-legal-acyclic-design", case, design, src, mode=mode, error=traceback.format_exc()[-700:])
    finally:
      tr.close()
    stats["mode_runs"] += 1
    stats["mode:" + mode] += 1
  stats["distinct_schedules"] = len({s for s in schedules if s and s[0] == "eval"})
  stats["distinct_ff_orders"] = len(ff_orders)
  stats["pairs"] = len(pairs)
  stats["ff_blocks"] = len(user_ff)
  stats["comb_blocks"] = len(user_comb)
  return stats
