"""Reference semantics of fixed-width unsigned values on plain Python ints.

Written from the property statements (C04/C05/C06) and docs/ref/datatypes.rst,
not from PythonBits.py.  Nothing here imports pymtl3.

Outcome encoding used by the contracts:
  ("ok", width, value)   a Bits result of that width and unsigned value
  ("raise", "ValueError") ...
A spec function returns the *set* (list) of acceptable outcomes.
"""

def mask(n):
  return (1 << n) - 1

ARITH = {
  "add": lambda a, b: a + b,
  "sub": lambda a, b: a - b,
  "mul": lambda a, b: a * b,
  "and": lambda a, b: a & b,
  "or":  lambda a, b: a | b,
  "xor": lambda a, b: a ^ b,
}
DIV = {"floordiv": lambda a, b: a // b, "mod": lambda a, b: a % b}
CMP = {
  "eq": lambda a, b: a == b, "ne": lambda a, b: a != b, "lt": lambda a, b: a < b,
  "le": lambda a, b: a <= b, "gt": lambda a, b: a > b, "ge": lambda a, b: a >= b,
}
SHIFT = {"lshift": lambda a, b: a << b if b < 4096 else 0, "rshift": lambda a, b: a >> b}

ALL_BINOPS = list(ARITH) + list(DIV) + list(CMP) + list(SHIFT)
REFLECTABLE = ["add", "sub", "mul", "and", "or", "xor", "floordiv", "mod"]


def spec_binop(op, n, a, okind, on, ov, reflected=False):
  """self = Bits(n, a).  other: okind 'bits' (width on, value ov) or 'int' (ov).
  reflected: python evaluated  other <op> self  with other an int."""
  m = mask(n)
  if okind == "bits":
    assert not reflected
    if on != n:
      if op in SHIFT:   # property: may be rejected or accepted with left-operand width
        if op == "lshift":
          v = (a << ov) & m if ov < n else 0
        else:
          v = a >> ov if ov < 4096 else 0
        return [("raise", "ValueError"), ("ok", n, v)]
      return [("raise", "ValueError")]
    b = ov
  else:
    if ov < 0 or ov > m:
      outs = [("raise", "ValueError")]
      if op in DIV and ((not reflected and ov == 0) or (reflected and a == 0)):
        outs.append(("raise", "ZeroDivisionError"))
      return outs
    b = ov
  x, y = (b, a) if reflected else (a, b)
  if op in ARITH:
    return [("ok", n, ARITH[op](x, y) & m)]
  if op in DIV:
    if y == 0:
      return [("raise", "ZeroDivisionError")]
    return [("ok", n, DIV[op](x, y) & m)]
  if op in CMP:
    return [("ok", 1, int(CMP[op](x, y)))]
  if op == "lshift":
    return [("ok", n, (x << y) & m if y < n else 0)]
  if op == "rshift":
    return [("ok", n, x >> y if y < n else 0)]
  raise KeyError(op)


def spec_invert(n, a):
  return [("ok", n, (~a) & mask(n))]


def ctor_accepts(n, v):
  return -(1 << (n - 1)) <= v <= mask(n)


def spec_store_int(n, v):
  """constructor / @= / <<= with a python int"""
  if ctor_accepts(n, v):
    return [("ok", n, v & mask(n))]
  return [("raise", "ValueError")]


def spec_store_bits(n, on, ov):
  if on == n:
    return [("ok", n, ov)]
  return [("raise", "ValueError")]


def to_signed(n, a):
  return a - (1 << n) if a >> (n - 1) else a


# ---- C05 ---------------------------------------------------------------

def slice_valid(n, lo, hi, step):
  """lo/hi: int or None; step: anything (None = absent)"""
  if step is not None:
    return False
  lo = 0 if lo is None else lo
  hi = n if hi is None else hi
  return 0 <= lo < hi <= n


def spec_getslice(n, x, lo, hi, step):
  if not slice_valid(n, lo, hi, step):
    return [("raise", "IndexError")]
  lo = 0 if lo is None else lo
  hi = n if hi is None else hi
  return [("ok", hi - lo, (x >> lo) & mask(hi - lo))]


def spec_getbit(n, x, i):
  if not (0 <= i < n):
    return [("raise", "IndexError")]
  return [("ok", 1, (x >> i) & 1)]


def spec_setslice(n, x, lo, hi, step, vkind, vn, vv):
  """returns acceptable outcomes where 'ok' carries the new value of x"""
  if not slice_valid(n, lo, hi, step):
    return [("raise", "IndexError")]
  lo = 0 if lo is None else lo
  hi = n if hi is None else hi
  w = hi - lo
  if vkind == "bits":
    if vn != w:
      return [("raise", "ValueError")]
    val = vv
  else:
    if not ctor_accepts(w, vv):
      return [("raise", "ValueError")]
    val = vv & mask(w)
  return [("ok", n, (x & ~(mask(w) << lo)) | (val << lo))]


def spec_setbit(n, x, i, vkind, vn, vv):
  if not (0 <= i < n):
    return [("raise", "IndexError")]
  if vkind == "bits":
    if vn != 1:
      return [("raise", "ValueError")]
    val = vv
  else:
    if not ctor_accepts(1, vv):
      return [("raise", "ValueError")]
    val = vv & 1
  return [("ok", n, (x & ~(1 << i)) | (val << i))]


def clog2(N):
  k = 0
  while (1 << k) < N:
    k += 1
  return k


def parity(x):
  return bin(x).count("1") & 1


# ---- C06 struct layout on shapes ---------------------------------------
# shape := int (leaf width) | ("struct", name, [(fname, shape), ...]) | ("list", len, shape)

def shape_nbits(sh):
  if isinstance(sh, int):
    return sh
  if sh[0] == "struct":
    return sum(shape_nbits(f) for _, f in sh[2])
  return sh[1] * shape_nbits(sh[2])


def pack(sh, v):
  """v: int | dict fname->v | list.  first field most significant; list elem 0 least significant"""
  if isinstance(sh, int):
    assert 0 <= v < (1 << sh)
    return v
  if sh[0] == "struct":
    out = 0
    for fname, fsh in sh[2]:
      out = (out << shape_nbits(fsh)) | pack(fsh, v[fname])
    return out
  out = 0
  w = shape_nbits(sh[2])
  for i in reversed(range(sh[1])):
    out = (out << w) | pack(sh[2], v[i])
  return out


def unpack(sh, b):
  if isinstance(sh, int):
    return b & mask(sh)
  if sh[0] == "struct":
    total = shape_nbits(sh)
    out = {}
    pos = total
    for fname, fsh in sh[2]:
      w = shape_nbits(fsh)
      pos -= w
      out[fname] = unpack(fsh, (b >> pos) & mask(w))
    return out
  w = shape_nbits(sh[2])
  return [unpack(sh[2], (b >> (i * w)) & mask(w)) for i in range(sh[1])]


def leaves(sh, prefix=()):
  """yield (path, lo, width) for every leaf; lo is the bit offset inside the packed value"""
  out = []
  def rec(sh, path, lo):
    if isinstance(sh, int):
      out.append((path, lo, sh))
      return
    if sh[0] == "struct":
      pos = lo + shape_nbits(sh)
      for fname, fsh in sh[2]:
        w = shape_nbits(fsh)
        pos -= w
        rec(fsh, path + (fname,), pos)
      return
    w = shape_nbits(sh[2])
    for i in range(sh[1]):
      rec(sh[2], path + (i,), lo + i * w)
  rec(sh, tuple(prefix), 0)
  return out
