"""Runtime contracts on the real pymtl3 Bits class (C04/C05).

install() replaces the methods of pymtl3.datatypes.PythonBits.Bits by wrappers
that capture the operands as plain ints, call the original, and compare the
observed outcome (result width / value / exception class, stored-value range
invariant, frame condition) with vlib.bitsref.  Dunder lookup happens on the
type at call time and every BitsN subclass inherits from Bits, so *every*
operation executed anywhere in the process - harness workloads as well as real
simulations of library components - is judged.

The monitor only judges calls whose operands are Bits / int / bool (the
operand kinds the properties speak about); everything else is counted as
'outside'.
"""
from collections import Counter

from vlib import bitsref as R

STATS = Counter()
VIOLATIONS = []
_installed = False
_orig = {}
MAXV = 50

BINOPS = {
  "__add__": ("add", False), "__radd__": ("add", True),
  "__sub__": ("sub", False), "__rsub__": ("sub", True),
  "__mul__": ("mul", False), "__rmul__": ("mul", True),
  "__and__": ("and", False), "__rand__": ("and", True),
  "__or__": ("or", False), "__ror__": ("or", True),
  "__xor__": ("xor", False), "__rxor__": ("xor", True),
  "__floordiv__": ("floordiv", False), "__rfloordiv__": ("floordiv", True),
  "__mod__": ("mod", False), "__rmod__": ("mod", True),
  "__lshift__": ("lshift", False), "__rshift__": ("rshift", False),
  "__eq__": ("eq", False), "__ne__": ("ne", False), "__lt__": ("lt", False),
  "__le__": ("le", False), "__gt__": ("gt", False), "__ge__": ("ge", False),
}


def _viol(kind, **kw):
  STATS["violations"] += 1
  if len(VIOLATIONS) < MAXV:
    kw["kind"] = kind
    VIOLATIONS.append(kw)


def _classify(Bits, x):
  """-> ('bits', n, v) | ('int', None, v) | None"""
  if isinstance(x, Bits):
    return ("bits", x._nbits, int(x._uint))
  if isinstance(x, int):
    return ("int", None, int(x))
  return None


def _range_ok(Bits, b):
  try:
    u, n = b._uint, b._nbits
  except AttributeError:
    return False
  return isinstance(u, int) and isinstance(n, int) and 1 <= n < 1024 and 0 <= u < (1 << n)


def _observe(Bits, fn, args, kwargs):
  try:
    r = fn(*args, **kwargs)
  except Exception as e:  # noqa
    return ("raise", type(e).__name__), None, e
  return None, r, None


def _match_result(Bits, r, outs):
  """r is a returned object; is it one of the acceptable ('ok', w, v)?"""
  if not isinstance(r, Bits) or not _range_ok(Bits, r):
    return False
  return ("ok", r._nbits, int(r._uint)) in outs


def install():
  global _installed
  if _installed:
    return
  from pymtl3.datatypes.PythonBits import Bits
  _installed = True

  def wrap_binop(name, op, reflected):
    orig = getattr(Bits, name)
    _orig[name] = orig

    def w(self, other):
      n, a = self._nbits, int(self._uint)
      k = _classify(Bits, other)
      if k is None:
        STATS["outside:" + name] += 1
        return orig(self, other)
      if reflected and k[0] != "int":
        STATS["outside:" + name] += 1
        return orig(self, other)
      outs = R.spec_binop(op, n, a, k[0], k[1], k[2], reflected)
      exc, r, e = _observe(Bits, orig, (self, other), {})
      STATS["judged:" + name] += 1
      if exc is not None:
        STATS["cell:%s:%s:%s" % (name, k[0], exc[1])] += 1
        if exc not in outs:
          _viol("binop-unexpected-exception", op=name, n=n, a=a, other=k, got=exc, expected=outs)
        if int(self._uint) != a:
          _viol("binop-mutated-operand", op=name, n=n, a=a, other=k)
        raise e
      STATS["cell:%s:%s:ok" % (name, k[0])] += 1
      if not _match_result(Bits, r, outs):
        got = (type(r).__name__, getattr(r, "_nbits", None), getattr(r, "_uint", None))
        _viol("binop-wrong-result", op=name, n=n, a=a, other=k, got=got, expected=outs)
      if int(self._uint) != a or (k[0] == "bits" and int(other._uint) != k[2]):
        _viol("binop-mutated-operand", op=name, n=n, a=a, other=k)
      return r
    w.__name__ = name
    setattr(Bits, name, w)

  for name, (op, refl) in BINOPS.items():
    wrap_binop(name, op, refl)

  # ---- invert ----------------------------------------------------------
  o_inv = Bits.__invert__
  def inv(self):
    n, a = self._nbits, int(self._uint)
    exc, r, e = _observe(Bits, o_inv, (self,), {})
    STATS["judged:__invert__"] += 1
    if exc is not None:
      _viol("invert-raised", n=n, a=a, got=exc); raise e
    if not _match_result(Bits, r, R.spec_invert(n, a)):
      _viol("invert-wrong-result", n=n, a=a, got=(getattr(r, "_nbits", None), getattr(r, "_uint", None)))
    return r
  Bits.__invert__ = inv

  # ---- constructor -----------------------------------------------------
  o_init = Bits.__init__
  def init(self, nbits, v=0, trunc_int=False):
    k = _classify(Bits, v)
    if k is None or not isinstance(nbits, int) or isinstance(nbits, bool):
      STATS["outside:__init__"] += 1
      return o_init(self, nbits, v, trunc_int)
    if nbits < 1 or nbits >= 1024:
      outs = [("raise", "ValueError")]
    elif k[0] == "bits":
      outs = R.spec_store_bits(nbits, k[1], k[2])
    elif trunc_int:
      outs = [("ok", nbits, k[2] & R.mask(nbits))]
    else:
      outs = R.spec_store_int(nbits, k[2])
    exc, r, e = _observe(Bits, o_init, (self, nbits, v, trunc_int), {})
    STATS["judged:__init__"] += 1
    if exc is not None:
      STATS["cell:__init__:%s:%s" % (k[0], exc[1])] += 1
      if exc not in outs:
        _viol("ctor-unexpected-exception", n=nbits, v=k, trunc_int=bool(trunc_int), got=exc, expected=outs)
      raise e
    STATS["cell:__init__:%s:ok" % k[0]] += 1
    if not _range_ok(Bits, self) or ("ok", self._nbits, int(self._uint)) not in outs:
      _viol("ctor-wrong-state", n=nbits, v=k, trunc_int=bool(trunc_int),
            got=(getattr(self, "_nbits", None), getattr(self, "_uint", None)), expected=outs)
    return r
  Bits.__init__ = init

  # ---- @= and <<= ------------------------------------------------------
  def wrap_assign(name, nonblocking):
    orig = getattr(Bits, name)
    def w(self, v):
      n, a = self._nbits, int(self._uint)
      k = _classify(Bits, v)
      if k is None:
        STATS["outside:" + name] += 1
        return orig(self, v)
      outs = R.spec_store_bits(n, k[1], k[2]) if k[0] == "bits" else R.spec_store_int(n, k[2])
      exc, r, e = _observe(Bits, orig, (self, v), {})
      STATS["judged:" + name] += 1
      if exc is not None:
        STATS["cell:%s:%s:%s" % (name, k[0], exc[1])] += 1
        if exc not in outs:
          _viol("assign-unexpected-exception", op=name, n=n, a=a, v=k, got=exc, expected=outs)
        if int(self._uint) != a:
          _viol("assign-failed-but-mutated", op=name, n=n, a=a, v=k)
        raise e
      STATS["cell:%s:%s:ok" % (name, k[0])] += 1
      if outs[0][0] != "ok":
        _viol("assign-accepted-illegal", op=name, n=n, a=a, v=k, expected=outs)
        return r
      want = outs[0][2]
      if r is not self:
        _viol("assign-returned-other-object", op=name, n=n)
      if nonblocking:
        if int(self._uint) != a:
          _viol("nonblocking-visible-before-flip", n=n, a=a, v=k, got=int(self._uint))
        nx = getattr(self, "_next", None)
        if nx is None or int(nx) != want:
          _viol("nonblocking-wrong-next", n=n, a=a, v=k, got=nx, expected=want)
      else:
        if not _range_ok(Bits, self) or int(self._uint) != want:
          _viol("blocking-wrong-value", n=n, a=a, v=k, got=self._uint, expected=want)
      return r
    w.__name__ = name
    setattr(Bits, name, w)
  wrap_assign("__imatmul__", False)
  wrap_assign("__ilshift__", True)

  o_flip = Bits._flip
  def flip(self):
    try:
      nx = self._next
    except AttributeError:
      STATS["outside:_flip(no _next)"] += 1
      return o_flip(self)
    r = o_flip(self)
    STATS["judged:_flip"] += 1
    if self._uint != nx or not _range_ok(Bits, self):
      _viol("flip-wrong-value", n=self._nbits, got=self._uint, expected=nx)
    return r
  Bits._flip = flip

  # ---- conversions -----------------------------------------------------
  def wrap_conv(name, spec):
    orig = getattr(Bits, name)
    def w(self, *args):
      n, a = self._nbits, int(self._uint)
      r = orig(self, *args)
      STATS["judged:" + name] += 1
      ok = spec(n, a, r, self)
      if not ok or int(self._uint) != a:
        _viol("conversion-wrong", op=name, n=n, a=a, got=repr(r)[:80])
      return r
    w.__name__ = name
    setattr(Bits, name, w)
  isint = lambda r: isinstance(r, int)
  wrap_conv("__int__", lambda n, a, r, s: isint(r) and r == a)
  wrap_conv("__index__", lambda n, a, r, s: isint(r) and r == a)
  wrap_conv("uint", lambda n, a, r, s: isint(r) and r == a)
  wrap_conv("int", lambda n, a, r, s: isint(r) and r == R.to_signed(n, a))
  wrap_conv("__bool__", lambda n, a, r, s: r is (a != 0))
  _hashes = {}
  def hash_ok(n, a, r, s):
    if not isint(r): return False
    if (n, a) in _hashes: return _hashes[(n, a)] == r
    if len(_hashes) < 200000: _hashes[(n, a)] = r
    return True
  wrap_conv("__hash__", hash_ok)
  wrap_conv("clone", lambda n, a, r, s: isinstance(r, Bits) and r is not s and r._nbits == n and int(r._uint) == a)
  wrap_conv("__deepcopy__", lambda n, a, r, s: isinstance(r, Bits) and r is not s and r._nbits == n and int(r._uint) == a)
  wrap_conv("to_bits", lambda n, a, r, s: isinstance(r, Bits) and r._nbits == n and int(r._uint) == a)

  # ---- getitem / setitem (C05) ----------------------------------------
  o_get = Bits.__getitem__
  def _bound(x):
    """-> (ok, value) ; None stays None; Bits/int -> int"""
    if x is None:
      return True, None
    if isinstance(x, Bits):
      return True, int(x._uint)
    if isinstance(x, int):
      return True, int(x)
    return False, None
  def getitem(self, idx):
    n, a = self._nbits, int(self._uint)
    if isinstance(idx, slice):
      ok1, lo = _bound(idx.start); ok2, hi = _bound(idx.stop)
      if not (ok1 and ok2):
        STATS["outside:__getitem__"] += 1
        return o_get(self, idx)
      outs = R.spec_getslice(n, a, lo, hi, idx.step)
      desc = ("slice", lo, hi, repr(idx.step))
    else:
      ok, i = _bound(idx)
      if not ok or i is None:
        STATS["outside:__getitem__"] += 1
        return o_get(self, idx)
      outs = R.spec_getbit(n, a, i)
      desc = ("bit", i)
    exc, r, e = _observe(Bits, o_get, (self, idx), {})
    STATS["judged:__getitem__"] += 1
    if exc is not None:
      STATS["cell:__getitem__:%s:%s" % (desc[0], exc[1])] += 1
      if exc not in outs:
        _viol("getitem-unexpected-exception", n=n, a=a, idx=desc, got=exc, expected=outs)
      raise e
    STATS["cell:__getitem__:%s:ok" % desc[0]] += 1
    if not _match_result(Bits, r, outs):
      _viol("getitem-wrong-result", n=n, a=a, idx=desc,
            got=(getattr(r, "_nbits", None), getattr(r, "_uint", None)), expected=outs)
    if int(self._uint) != a:
      _viol("getitem-mutated", n=n, a=a, idx=desc)
    return r
  Bits.__getitem__ = getitem

  o_set = Bits.__setitem__
  def setitem(self, idx, v):
    n, a = self._nbits, int(self._uint)
    k = _classify(Bits, v)
    if k is None:
      STATS["outside:__setitem__"] += 1
      return o_set(self, idx, v)
    if isinstance(idx, slice):
      ok1, lo = _bound(idx.start); ok2, hi = _bound(idx.stop)
      if not (ok1 and ok2):
        STATS["outside:__setitem__"] += 1
        return o_set(self, idx, v)
      outs = R.spec_setslice(n, a, lo, hi, idx.step, k[0], k[1], k[2])
      desc = ("slice", lo, hi, repr(idx.step))
    else:
      ok, i = _bound(idx)
      if not ok or i is None:
        STATS["outside:__setitem__"] += 1
        return o_set(self, idx, v)
      outs = R.spec_setbit(n, a, i, k[0], k[1], k[2])
      desc = ("bit", i)
    exc, r, e = _observe(Bits, o_set, (self, idx, v), {})
    STATS["judged:__setitem__"] += 1
    if exc is not None:
      STATS["cell:__setitem__:%s:%s" % (desc[0], exc[1])] += 1
      if exc not in outs:
        # an invalid index AND an invalid value: either error is fine
        alt = [("raise", "IndexError"), ("raise", "ValueError")]
        if not (outs[0][0] == "raise" and exc in alt):
          _viol("setitem-unexpected-exception", n=n, a=a, idx=desc, v=k, got=exc, expected=outs)
      if int(self._uint) != a:
        _viol("setitem-failed-but-mutated", n=n, a=a, idx=desc, v=k, got=int(self._uint))
      raise e
    STATS["cell:__setitem__:%s:ok" % desc[0]] += 1
    got = int(self._uint)
    if outs[0][0] != "ok":
      _viol("setitem-accepted-illegal", n=n, a=a, idx=desc, v=k, got=got, expected=outs)
    elif not _range_ok(Bits, self) or got != outs[0][2]:
      _viol("setitem-wrong-bits", n=n, a=a, idx=desc, v=k, got=got, expected=outs)
    return r
  Bits.__setitem__ = setitem


def judged_total():
  return sum(v for k, v in STATS.items() if k.startswith("judged:"))


def drain(sh, mech=None):
  """move monitor observations into a Shard; mech(v)->mechanism key"""
  for k, v in STATS.items():
    if k.startswith("judged:"):
      sh.count("contract_evaluations", v)
      sh.count(k, v)
    elif k.startswith("cell:"):
      sh.count(k, v)
      sh.fp(k)
    elif k.startswith("outside:"):
      sh.count("outside_statement", v)
  for v in VIOLATIONS:
    sh.violation(v["kind"], v, mechanism=mech(v) if mech else None)
  STATS.clear()
  del VIOLATIONS[:]
