"""Independent TinyRV0 interpreter / encoder written from examples/ex03_proc/tinyrv0-isa.md.

Does not import tinyrv0_encoding.py or pymtl3.  Instructions are tuples:
  ("add"|"sll"|"srl"|"and", rd, rs1, rs2)   ("addi", rd, rs1, imm)
  ("lw", rd, rs1, imm)  ("sw", rs2, rs1, imm)  ("bne", rs1, rs2, byte_offset)
  ("csrr", rd, csr)  ("csrw", csr, rs1)
"""
M32 = 0xFFFFFFFF
MNGR2PROC, PROC2MNGR = 0xFC0, 0x7C0
RESET_PC = 0x200

R_FUNCT3 = {"add": 0b000, "and": 0b111, "sll": 0b001, "srl": 0b101}


def encode(inst):
  op = inst[0]
  if op in R_FUNCT3:
    _, rd, rs1, rs2 = inst
    return (0 << 25) | (rs2 << 20) | (rs1 << 15) | (R_FUNCT3[op] << 12) | (rd << 7) | 0b0110011
  if op == "addi":
    _, rd, rs1, imm = inst
    return ((imm & 0xFFF) << 20) | (rs1 << 15) | (0b000 << 12) | (rd << 7) | 0b0010011
  if op == "lw":
    _, rd, rs1, imm = inst
    return ((imm & 0xFFF) << 20) | (rs1 << 15) | (0b010 << 12) | (rd << 7) | 0b0000011
  if op == "sw":
    _, rs2, rs1, imm = inst
    imm &= 0xFFF
    return ((imm >> 5) << 25) | (rs2 << 20) | (rs1 << 15) | (0b010 << 12) | ((imm & 0x1F) << 7) | 0b0100011
  if op == "bne":
    _, rs1, rs2, off = inst
    assert off % 2 == 0
    imm = off & 0x1FFF
    b12, b11, b10_5, b4_1 = (imm >> 12) & 1, (imm >> 11) & 1, (imm >> 5) & 0x3F, (imm >> 1) & 0xF
    return (b12 << 31) | (b10_5 << 25) | (rs2 << 20) | (rs1 << 15) | (0b001 << 12) | (b4_1 << 8) | (b11 << 7) | 0b1100011
  if op == "csrr":
    _, rd, csr = inst
    return (csr << 20) | (0 << 15) | (0b010 << 12) | (rd << 7) | 0b1110011
  if op == "csrw":
    _, csr, rs1 = inst
    return (csr << 20) | (rs1 << 15) | (0b001 << 12) | (0 << 7) | 0b1110011
  raise ValueError(op)


def sext(v, bits):
  v &= (1 << bits) - 1
  return v - (1 << bits) if v >> (bits - 1) else v


class Halt(Exception):
  pass


class RV0:
  def __init__(self, words, src, base=RESET_PC):
    self.x = [0] * 32
    self.pc = base
    self.mem = {}
    for i, w in enumerate(words):
      self.mem[base + 4 * i] = w & M32
    self.src = list(src)
    self.src_used = 0
    self.xr0 = 0          # the single register of the null accelerator
    self.out = []
    self.steps = 0
    self.stores = []

  def ldw(self, a):
    return self.mem.get(a & M32, 0)

  def step(self):
    w = self.ldw(self.pc)
    opc = w & 0x7F
    rd, f3, rs1, rs2 = (w >> 7) & 31, (w >> 12) & 7, (w >> 15) & 31, (w >> 20) & 31
    x = self.x
    npc = (self.pc + 4) & M32
    if opc == 0b0110011 and (w >> 25) == 0:
      a, b = x[rs1], x[rs2]
      if f3 == 0b000: r = (a + b) & M32
      elif f3 == 0b111: r = a & b
      elif f3 == 0b001: r = (a << (b & 31)) & M32
      elif f3 == 0b101: r = a >> (b & 31)
      else: raise Halt("illegal R-type")
      if rd: x[rd] = r
    elif opc == 0b0010011 and f3 == 0:
      if rd: x[rd] = (x[rs1] + sext(w >> 20, 12)) & M32
    elif opc == 0b0000011 and f3 == 0b010:
      a = (x[rs1] + sext(w >> 20, 12)) & M32
      assert a % 4 == 0, "unaligned lw"
      if rd: x[rd] = self.ldw(a)
    elif opc == 0b0100011 and f3 == 0b010:
      imm = sext(((w >> 25) << 5) | ((w >> 7) & 31), 12)
      a = (x[rs1] + imm) & M32
      assert a % 4 == 0, "unaligned sw"
      self.mem[a] = x[rs2]
      self.stores.append(a)
    elif opc == 0b1100011 and f3 == 0b001:
      imm = (((w >> 31) & 1) << 12) | (((w >> 7) & 1) << 11) | (((w >> 25) & 0x3F) << 5) | (((w >> 8) & 0xF) << 1)
      if x[rs1] != x[rs2]:
        npc = (self.pc + sext(imm, 13)) & M32
        if npc == self.pc:
          raise Halt("spin")
    elif opc == 0b1110011 and f3 == 0b010:
      csr = w >> 20
      if 0x7E0 <= csr <= 0x7FF:
        # accelerator register read; the test harness attaches the null accelerator: ONE register behind all 32 numbers
        if rd: x[rd] = self.xr0 & M32
      else:
        if csr != MNGR2PROC: raise Halt("csrr of other csr")
        if self.src_used >= len(self.src): raise Halt("src exhausted")
        v = self.src[self.src_used]; self.src_used += 1
        if rd: x[rd] = v & M32
    elif opc == 0b1110011 and f3 == 0b001:
      csr = w >> 20
      if 0x7E0 <= csr <= 0x7FF:
        self.xr0 = x[rs1]
      else:
        if csr != PROC2MNGR: raise Halt("csrw of other csr")
        self.out.append(x[rs1])
    else:
      raise Halt("illegal instruction %08x at %x" % (w, self.pc))
    self.pc = npc
    self.steps += 1

  def run(self, max_steps):
    try:
      while self.steps < max_steps:
        self.step()
    except Halt as h:
      return str(h)
    return "max_steps"


def checksum_spec(words):
  s1 = s2 = 0
  for w in words:
    s1 = (s1 + w) & 0xFFFF
    s2 = (s2 + s1) & 0xFFFF
  return (s2 << 16) | s1
