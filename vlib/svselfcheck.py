"""Validation of the interpreter itself (DESIGN 2.3): (i) LRM-derived sizing examples with hand-computed results,
(ii) the repo's own translation test cases: svsim(translated text) must agree with the PyMTL simulation on the authors'
test vectors, and the PyMTL simulation must satisfy the authors' expected outputs (TV_OUT)."""
import inspect
import traceback

from vlib import svsim, cosim

# (text of a tiny module, inputs, expected outputs) - hand computed from IEEE 1800-2017 11.6 / 6.24.1
LRM_CASES = [
  # `int` is a signed type and an unsized decimal literal is signed: a down-counting loop stops below zero (6.11, 11.8.1) ...
  ("module t(input logic [7:0] a, output logic [7:0] o); always_comb begin o = 0; for (int i = 5; i > 0; i -= 2) o = o + a; end endmodule",
   {"a": 3}, {"o": 9}),
  # ... and counts 4, 2 (not 0) when it lands exactly on the bound
  ("module t(input logic [7:0] a, output logic [7:0] o); always_comb begin o = 0; for (int i = 4; i > 0; i -= 2) o = o + a; end endmodule",
   {"a": 3}, {"o": 6}),
  # context-determined addition keeps the carry when the target is wider (11.6.2 example: sumA = a + b)
  ("module t(input logic [3:0] a, input logic [3:0] b, output logic [4:0] o); assign o = a + b; endmodule",
   {"a": 15, "b": 1}, {"o": 16}),
  # ... but a self-determined operand (concatenation) loses it
  ("module t(input logic [3:0] a, input logic [3:0] b, output logic [4:0] o); assign o = {a + b}; endmodule",
   {"a": 15, "b": 1}, {"o": 0}),
  # (a + b) >> 1 in a 4-bit context loses the carry; with a 5-bit target it is kept (11.6.2 answer example)
  ("module t(input logic [3:0] a, input logic [3:0] b, output logic [3:0] o); assign o = (a + b) >> 1; endmodule",
   {"a": 15, "b": 1}, {"o": 0}),
  ("module t(input logic [3:0] a, input logic [3:0] b, output logic [4:0] o); assign o = (a + b) >> 1; endmodule",
   {"a": 15, "b": 1}, {"o": 8}),
  # comparison operands are sized to the larger operand, not to the context
  ("module t(input logic [3:0] a, input logic [7:0] b, output logic [0:0] o); assign o = a == b; endmodule",
   {"a": 15, "b": 15}, {"o": 1}),
  ("module t(input logic [3:0] a, input logic [3:0] b, output logic [7:0] o); assign o = (a + b) == 5'd16; endmodule",
   {"a": 15, "b": 1}, {"o": 1}),          # 5-bit comparison context keeps the carry
  # shift amount is self-determined; shifted operand is context-determined
  ("module t(input logic [3:0] a, output logic [7:0] o); assign o = a << 2'd3; endmodule", {"a": 15}, {"o": 0x78}),
  # size cast: evaluated as if assigned to an N-bit variable, then N bits
  ("module t(input logic [7:0] a, output logic [7:0] o); assign o = 4'(a) + 8'd1; endmodule", {"a": 0xFF}, {"o": 0x10}),
  ("module t(input logic [3:0] a, input logic [3:0] b, output logic [7:0] o); assign o = 4'(a + b); endmodule", {"a": 15, "b": 1}, {"o": 0}),
  # replication and concatenation
  ("module t(input logic [1:0] a, output logic [7:0] o); assign o = { { 3 { a } }, 2'd1 }; endmodule", {"a": 2}, {"o": 0b10101001}),
  # sign extension the way the backends write it
  ("module t(input logic [3:0] a, output logic [7:0] o); assign o = { { 4 { a[3] } }, a }; endmodule", {"a": 9}, {"o": 0xF9}),
  # ternary: branches context-determined, condition self-determined
  ("module t(input logic [3:0] a, input logic [3:0] b, output logic [4:0] o); assign o = (a > b) ? a + b : a - b; endmodule",
   {"a": 3, "b": 5}, {"o": 0x1E}),
  # sized literal truncation
  ("module t(output logic [7:0] o); assign o = 4'd20 + 8'd0; endmodule", {}, {"o": 4}),
  # reduction operators are 1 bit, self-determined
  ("module t(input logic [3:0] a, output logic [3:0] o); assign o = (&a) + (|a) + (^a); endmodule", {"a": 15}, {"o": 2}),
  # unary minus / negation in a wider context
  ("module t(input logic [3:0] a, output logic [7:0] o); assign o = ~a; endmodule", {"a": 5}, {"o": 0xFA}),
  # indexed part select and packed struct layout (first member most significant)
  ("typedef struct packed { logic [3:0] x; logic [3:0] y; } P; module t(input P a, output logic [7:0] o, output logic [3:0] q); assign o = a; assign q = a.x; endmodule",
   {"a": 0xA5}, {"o": 0xA5, "q": 0xA}),
  ("module t(input logic [15:0] a, output logic [3:0] o); assign o = a[4'd4 +: 4]; endmodule", {"a": 0xABCD}, {"o": 0xC}),
  # nonblocking assignments: swap
  ("module t(input logic [0:0] clk, input logic [3:0] a, output logic [3:0] x, output logic [3:0] y); always_ff @(posedge clk) begin : f x <= a; y <= x; end endmodule",
   {"a": 7}, {"x": 0, "y": 0}),
  # for loop with unpacked array
  ("module t(input logic [7:0] a, output logic [7:0] o); logic [3:0] m [0:1]; always_comb begin : c for ( int unsigned i = 1'd0; i < 2'd2; i += 1'd1 ) m[1'(i)] = a[3'(i) * 3'd4 +: 4]; end assign o = { m[1'd0], m[1'd1] }; endmodule",
   {"a": 0xA5}, {"o": 0x5A}),
  # select on a concatenation (11.4.12): {a + b}[1:0] takes bits of the self-determined sum
  ("module t(input logic [3:0] a, input logic [3:0] b, output logic [1:0] o, output logic [0:0] c); assign o = {a + b}[1:0]; assign c = {a + b}[3]; endmodule",
   {"a": 7, "b": 6}, {"o": 1, "c": 1}),
  # unary reduction binds tighter than binary minus
  ("module t(input logic [3:0] a, input logic [3:0] b, output logic [3:0] o); assign o = ( ^ a - b ); endmodule", {"a": 7, "b": 1}, {"o": 0}),
  # modulo / division / shifts >= width
  ("module t(input logic [7:0] a, output logic [7:0] o, output logic [7:0] p); assign o = a % 8'd7; assign p = a >> 8'd9; endmodule", {"a": 100}, {"o": 2, "p": 0}),
]


def run_lrm():
  bad = []
  for text, ins, outs in LRM_CASES:
    try:
      d = svsim.parse(text)
      s = svsim.Sim(d)
      for k, v in ins.items(): s.set(k, v)
      s.settle()
      for k, v in outs.items():
        if s.get(k) != v:
          bad.append((text[:80], k, s.get(k), v))
    except Exception as e:
      bad.append((text[:80], "EXC", repr(e), None))
  return len(LRM_CASES), bad


def corpus_cases():
  from pymtl3.passes.testcases import test_cases as tc
  return [(n, c) for n, c in sorted(vars(tc).items()) if n.startswith("Case") and inspect.isclass(c) and hasattr(c, "DUT")
          and hasattr(c, "TV") and hasattr(c, "TV_IN")]


def run_corpus(backends=("sv", "ys"), limit=None, names=None):
  """-> stats dict, list of discrepancies"""
  stats = {"cases": 0, "cosim_cycles": 0, "outputs_compared": 0, "rejected_by_translator": 0, "tv_out_failed_in_pymtl": 0}
  disc = []
  forms = {}
  for name, c in corpus_cases()[:limit]:
    if names and name not in names: continue
    for be in backends:
      try:
        m = c.DUT(); m.elaborate()
        try:
          text, fn, topmod = cosim.translate(m, be)
        except Exception as e:
          stats["rejected_by_translator"] += 1; continue
        try:
          cs = cosim.CoSim(m, be, text, topmod)
        except svsim.SVError as e:
          disc.append((name, be, "svsim-rejects-text", str(e)[:300])); continue
        for k, v in cs.design.forms.items(): forms[k] = forms.get(k, 0) + v
        if cs.map_problems:
          disc.append((name, be, "port-map", cs.map_problems[:3]))
        for r in (1, 1, 1):
          def rst(top): top.reset @= 1
          cs.step(rst)
        ok = True
        for tv in c.TV:
          def app(top, tv=tv):
            top.reset @= 0
            c.TV_IN(top, tv)
          try:
            diffs = cs.step(app)
          except svsim.SVError as e:
            disc.append((name, be, "svsim-runtime", str(e)[:300])); ok = False; break
          stats["cosim_cycles"] += 1
          if diffs:
            disc.append((name, be, "output-differs", diffs[:3], "cycle", cs.cycle)); ok = False; break
        stats["outputs_compared"] += cs.compared
        stats["cases"] += 1
      except svsim.SVError as e:
        disc.append((name, be, "svsim-error", str(e)[:300]))
      except Exception as e:
        tb = traceback.format_exc()
        if "/verif/vlib/" in tb.split("\n")[-4] or "svsim.py" in tb[-600:]:
          disc.append((name, be, "harness-exception", tb[-400:]))
        else:
          stats["not_simulatable_in_pymtl"] = stats.get("not_simulatable_in_pymtl", 0) + 1
  # authors' expectations on the PyMTL side
  from pymtl3 import DefaultPassGroup
  for name, c in corpus_cases()[:limit]:
    if names and name not in names: continue
    try:
      m = c.DUT(); m.elaborate(); m.apply(DefaultPassGroup()); m.sim_reset()
      for tv in c.TV:
        c.TV_IN(m, tv); m.sim_eval_combinational(); c.TV_OUT(m, tv); m.sim_tick()
    except AssertionError:
      stats["tv_out_failed_in_pymtl"] += 1
      disc.append((name, "pymtl", "TV_OUT-assertion-fails-in-pure-PyMTL-simulation"))
    except Exception as e:
      pass
  stats["forms"] = forms
  return stats, disc


if __name__ == "__main__":
  import os, sys, tempfile
  os.chdir(tempfile.mkdtemp(prefix="svselfcheck-"))
  n, bad = run_lrm()
  print("LRM examples:", n, "bad:", bad)
  st, disc = run_corpus(names=set(sys.argv[1:]) or None)
  print({k: v for k, v in st.items() if k != "forms"})
  print(sorted(st["forms"].items()))
  for d in disc:
    print("DISC", d)
