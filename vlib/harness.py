"""Recording sources / sinks used by C18 and C20 (they never assert inside the simulation).

Every accept / delivery is appended to a shared event list `ev` in execution
order: ("acc", port, index) and ("rsp", port, msg).
"""
from collections import deque


def mk_cl():
  from pymtl3 import Component, CallerIfcCL, update_once, non_blocking

  class SrcCL(Component):
    def construct(s, port, msgs, gaps, ev):
      s.send = CallerIfcCL()
      s.msgs, s.gaps, s.ev, s.port = msgs, gaps, ev, port
      s.idx = 0
      s.wait = gaps[0] if gaps else 0

      @update_once
      def up_src():
        if s.idx < len(s.msgs) and not s.reset:    # a legal environment is quiet during reset
          if s.wait > 0:
            s.wait -= 1
          elif s.send.rdy():
            s.ev.append(("acc", s.port, s.idx))
            s.send(s.msgs[s.idx])
            s.idx += 1
            s.wait = s.gaps[s.idx] if s.idx < len(s.gaps) else 0

    def done(s):
      return s.idx >= len(s.msgs)

    def line_trace(s):
      return ""

  class SinkCL(Component):
    def construct(s, port, ev):
      s.ev, s.port = ev, port
      s.now_ready = True
      s.got = []; s.kept = []

    @non_blocking(lambda s: s.now_ready)
    def recv(s, msg):
      s.kept.append((msg, msg.clone()))          # the object as handed over, and its value at that moment
      msg = msg.clone()        # adapters hand over the live signal object
      s.got.append(msg)
      s.ev.append(("rsp", s.port, msg))

    def line_trace(s):
      return ""

  return SrcCL, SinkCL


def _clone(x):
  return x.clone()


def mk_rtl():
  from pymtl3 import Component, update_ff
  from pymtl3.stdlib.stream.ifcs import SendIfcRTL, RecvIfcRTL

  class SrcRTL(Component):
    def construct(s, Type, port, msgs, gaps, ev):
      s.send = SendIfcRTL(Type)
      s.msgs, s.gaps, s.ev, s.port = msgs, gaps, ev, port
      s.idx = 0
      s.wait = gaps[0] if gaps else 0

      @update_ff
      def up_src():
        if s.reset:
          s.send.val <<= 0
        else:
          if s.send.val & s.send.rdy:
            s.ev.append(("acc", s.port, s.idx))
            s.idx += 1
            s.wait = s.gaps[s.idx] if s.idx < len(s.gaps) else 0
          if s.wait > 0:
            s.wait -= 1
            s.send.val <<= 0
          elif s.idx < len(s.msgs):
            s.send.val <<= 1
            s.send.msg <<= s.msgs[s.idx]
          else:
            s.send.val <<= 0

    def done(s):
      return s.idx >= len(s.msgs)

    def line_trace(s):
      return ""

  class SinkRTL(Component):
    def construct(s, Type, port, ev, pattern):
      s.recv = RecvIfcRTL(Type)
      s.ev, s.port, s.pattern = ev, port, pattern
      s.cyc = 0
      s.got = []

      @update_ff
      def up_sink():
        if s.reset:
          s.recv.rdy <<= 0
        else:
          if s.recv.val & s.recv.rdy:
            m = _clone(s.recv.msg)
            s.got.append(m)
            s.ev.append(("rsp", s.port, m))
          s.cyc += 1
          s.recv.rdy <<= int(s.pattern[s.cyc % len(s.pattern)])

    def line_trace(s):
      return ""

  return SrcRTL, SinkRTL
