"""C07 - flip-flop updates are atomic at the clock edge."""
from vlib import specgen as G, schedcheck, simmon

PROPERTY = "C07"
LEVEL = "exploration"
RULE = ("case = one generated ff-heavy design (registers reading registers written by other ff blocks, conditional/held/multiple "
        "assignments, struct registers, registers forwarded through nets and hierarchy) ticked for 8-16 cycles under the five pass "
        "groups and under injected permutations of the ff blocks; registers after every tick are compared with the reference "
        "next-state function on pre-edge values, and every ff block's read set sampled at its PY_START must equal the pre-edge "
        "snapshot. distinct_nontrivial = designs with >= 2 ff blocks and >= 2 distinct ff orders observed")
ASSUMPTIONS = [
  "ff permutations are injected at top._sched.schedule_ff (the hand-over point between schedule pass and PrepareSimPass)",
  "reference next-state = last executed assignment in a block wins, unassigned registers hold (vlib/specgen.Ref.tick)",
]


def plan(tier, seed):
  q = tier == "quick"
  return [{"hashseed": (seed * 31 + i) % 1019, "heap_pad": (i * 331) % 3000, "designs": 30 if q else 300} for i in range(16)]


def thresholds(tier):
  t = {"designs": 120, "designs_with_2_ff_orders": 60, "register_comparisons": 20000, "ff_preedge_comparisons": 20000, "mode_runs": 1000}
  if tier == "thorough":
    t = {k: v * 15 for k, v in t.items()}
  return t


def knobs_for(rng):
  return {"depth": rng.choice([0, 1, 1, 2]), "max_children": rng.choice([1, 2]), "p_ff": rng.choice([0.6, 0.8, 0.95]),
          "p_split": 0.2, "p_struct": 0.3, "max_sigs": rng.choice([4, 6, 8]), "expr_depth": 2, "p_if": 0.5, "reset_ff": 0.5, "p_ff_child": rng.choice([0, 0.3]), "p_func": rng.choice([0, 0.3]), "p_shadow": 0.3, "p_subclass": rng.choice([0, 0.5])}


def run_shard(sh):
  q = sh.tier == "quick"
  for case in range(sh.params["designs"]):
    if sh.only is not None and str(case) != str(sh.only).strip('"'):
      continue
    rng = sh.rng("design", case)
    d = G.generate(rng, knobs_for(rng))
    st = schedcheck.run_design(sh, d, rng, case, simmon.MODES, rng.randrange(8, 17), {"ff"}, "c07",
                               reps={"inject": 6 if q else 30})
    if st is None: continue
    sh.count("designs"); sh.count("evaluations")
    for k in ("register_comparisons", "ff_preedge_comparisons", "mode_runs"):
      sh.count(k, st[k])
    sh.count("ff_orders_observed_total", st["distinct_ff_orders"])
    if st["ff_blocks"] >= 2 and st["distinct_ff_orders"] >= 2:
      sh.count("designs_with_2_ff_orders"); sh.fp(G.emit(d))
    if case < 1:
      sh.sample({"design_source_head": G.emit(d)[:1200], "ff_blocks": st["ff_blocks"], "distinct_ff_orders_observed": st["distinct_ff_orders"]})
