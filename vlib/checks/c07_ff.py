"""C07 - flip-flop updates are atomic at the clock edge."""
from vlib import specgen as G, schedcheck, simmon

PROPERTY = "C07"
LEVEL = "exploration"
RULE = ("case = one generated ff-heavy design (registers reading registers written by other ff blocks, conditional/held/multiple "
        "assignments, struct registers, registers forwarded through nets and hierarchy) ticked for 8-16 cycles under the five pass "
        "groups and under injected permutations of the ff blocks; registers after every tick are compared with the reference "
        "next-state function on pre-edge values, and every ff block's read set sampled at its PY_START must equal the pre-edge "
        "snapshot. distinct_nontrivial = designs with >= 2 ff blocks and >= 2 distinct ff orders observed")
ASSUMPTIONS = [
  "ff permutations are injected at top._sched.schedule_ff (the hand-over point between schedule pass and PrepareSimPass)",
  "reference next-state = last executed assignment in a block wins, unassigned registers hold (vlib/specgen.Ref.tick)",
]


def plan(tier, seed):
  q = tier == "quick"
  return [{"hashseed": (seed * 31 + i) % 1019, "heap_pad": (i * 331) % 3000, "designs": 30 if q else 300, "banks": 8 if q else 100} for i in range(16)]


def thresholds(tier):
  t = {"designs": 120, "designs_with_2_ff_orders": 60, "register_comparisons": 20000, "ff_preedge_comparisons": 20000, "mode_runs": 1000, "bank_designs": 6, "bank_register_comparisons": 200, "negidx_designs": 3}
  if tier == "thorough":
    t = {k: v * 15 for k, v in t.items()}
  return t


def knobs_for(rng):
  return {"depth": rng.choice([0, 1, 1, 2]), "max_children": rng.choice([1, 2]), "p_ff": rng.choice([0.6, 0.8, 0.95]),
          "p_split": 0.2, "p_struct": 0.3, "max_sigs": rng.choice([4, 6, 8]), "expr_depth": 2, "p_if": 0.5, "reset_ff": 0.5, "p_vsl": rng.choice([0, 0.2]), "p_vfunc": rng.choice([0, 0.4]), "p_ff_child": rng.choice([0, 0.3]), "p_func": rng.choice([0, 0.3]), "p_shadow": 0.3, "p_digit_names": rng.choice([0, 0.6]), "p_subclass": rng.choice([0, 0.5]), "neg_reset": rng.random() < 0.5}


# ---------------------------------------------------------------------------
# parameterised register banks: registers in 1-D / 2-D lists selected by construct() parameters (closure variables),
# by signals and by loop variables; several instances of ONE class with different parameter values in one design
# ---------------------------------------------------------------------------

def gen_bank_design(rng):
  NR, NC = rng.randrange(1, 4), rng.randrange(2, 5)
  w = rng.choice([4, 8])
  nb = rng.randrange(2, 5)
  cols = [rng.randrange(NC) for _ in range(nb)]
  if len(set(cols)) == 1: cols[-1] = (cols[0] + 1) % NC
  form = rng.randrange(4)
  L = ["from pymtl3 import *", "class Bank(Component):", "  def construct(s, col, NR, NC):",
       f"    s.row = InPort(2); s.din = InPort({w}); s.we = InPort(1)",
       f"    s.mem = [[Wire({w}) for _ in range(NC)] for _ in range(NR)]",
       f"    s.vec = [Wire({w}) for _ in range(NC)]",
       f"    s.out = [OutPort({w}) for _ in range(NR)]", f"    s.vo = OutPort({w})",
       "    @update_ff", "    def wr():"]
  if form == 0:
    L += ["      if s.we:", "        for r in range(NR):", "          if s.row == r:", "            s.mem[r][col] <<= s.din"]
  elif form == 1:
    L += ["      for r in range(NR):", "        s.mem[r][col] <<= s.mem[r][col] + s.din"]
  elif form == 2:
    L += ["      if s.we: s.mem[0][col] <<= s.din", "      for r in range(1, NR):", "        s.mem[r][col] <<= s.mem[r - 1][col]"]
  else:
    L += ["      s.mem[NR - 1][col] <<= s.din ^ s.mem[0][col]"] + (["      for r in range(NR - 1):", "        s.mem[r][col] <<= s.mem[r + 1][col]"] if NR > 1 else [])
  L += ["    @update_ff", "    def wv():", "      if s.we: s.vec[col] <<= s.vec[col] + s.din"]
  L += ["    for r in range(NR):", "      s.out[r] //= s.mem[r][col]", "    s.vo //= s.vec[col]"]
  L += ["class BTop(Component):", "  def construct(s):", f"    s.row = InPort(2); s.din = InPort({w}); s.we = InPort(1)",
        "    s.b = [" + ", ".join(f"Bank({c}, {NR}, {NC})" for c in cols) + "]",
        f"    s.out = [[OutPort({w}) for _ in range({NR})] for _ in range({nb})]", f"    s.vo = [OutPort({w}) for _ in range({nb})]",
        f"    for k in range({nb}):", "      s.b[k].row //= s.row; s.b[k].din //= s.din; s.b[k].we //= s.we", "      s.vo[k] //= s.b[k].vo",
        f"      for r in range({NR}):", "        s.out[k][r] //= s.b[k].out[r]"]
  return "\n".join(L) + "\n", {"NR": NR, "NC": NC, "w": w, "cols": cols, "form": form}


def bank_reference(cfg, seq):
  NR, w, form = cfg["NR"], cfg["w"], cfg["form"]
  m = (1 << w) - 1
  mem = [0] * NR; vec = 0
  out = []
  for (row, din, we) in seq:
    old = list(mem)
    if form == 0:
      if we and row < NR: mem[row] = din
    elif form == 1:
      mem = [(old[r] + din) & m for r in range(NR)]
    elif form == 2:
      mem = [din if we else old[0]] + [old[r - 1] for r in range(1, NR)]
    else:
      mem = [old[r + 1] for r in range(NR - 1)] + [din ^ old[0]]
    if we: vec = (vec + din) & m
    out.append((list(mem), vec))
  return out


def run_bank_case(sh, case):
  from pymtl3 import Bits
  rng = sh.rng("bank", case)
  src, cfg = gen_bank_design(rng)
  mod = G.load_source(src, "c07b")
  try:
    seq = [(rng.randrange(4), rng.getrandbits(cfg["w"]), rng.getrandbits(1)) for _ in range(rng.randrange(6, 14))]
    exp = bank_reference(cfg, seq)
    for mode in ("default", "simple", "mamba", "unroll"):
      top = mod.BTop()
      try:
        simmon.apply_mode(top, mode, rng); top.sim_reset()
      except Exception as e:
        sh.violation("bank-design-not-simulatable", {"mode": mode, "error": repr(e)[:300], "source": src}, case=("bank", case)); continue
      for cyc, (row, din, we) in enumerate(seq):
        top.row @= row; top.din @= din; top.we @= we
        top.sim_tick()
        for k in range(len(cfg["cols"])):
          got = ([int(top.out[k][r]) for r in range(cfg["NR"])], int(top.vo[k]))
          sh.count("bank_register_comparisons", cfg["NR"] + 1)
          if got != exp[cyc]:
            sh.violation("parameterised-register-bank-differs-from-next-state-function", {"mode": mode, "cycle": cyc, "bank": k, "column": cfg["cols"][k],
                         "got": got, "expected": exp[cyc], "config": cfg, "source": src}, case=("bank", case))
            return
      sh.count("bank_mode_runs")
    sh.count("bank_designs"); sh.fp("bank", cfg["form"], cfg["NR"], cfg["NC"], tuple(cfg["cols"]))
  finally:
    G.unload(mod)


def run_negidx_case(sh, case):
  """a shift register whose stages are written one by one through LITERAL indices counted from either end ( s.hist[-1], s.hist[0],
  s.hist[-2] ... ) and only read by update blocks; in struct and Bits flavours"""
  rng = sh.rng("negidx", case)
  H = rng.randrange(3, 7); w = rng.choice([4, 8, 16])
  struct = rng.random() < 0.4
  L = ["from pymtl3 import *"]
  if struct: L += ["@bitstruct", "class HP:", f"  x: mk_bits({w})", "  y: mk_bits(2)"]
  T = "HP" if struct else f"mk_bits({w})"
  L += ["class HTop(Component):", "  def construct(s):", f"    s.din = InPort({w})", f"    s.hist = [Wire({T}) for _ in range({H})]",
        f"    s.ho = [OutPort({w}) for _ in range({H})]", "    @update_ff", "    def sh():"]
  def idx(i): return str(i - H) if rng.random() < 0.6 else str(i)         # the same element from the end or from the start
  rd = lambda i: f"s.hist[{idx(i)}]" + (".x" if struct else "")
  stm = [f"      s.hist[{idx(H - 1)}] <<= " + (f"HP(s.din, 1)" if struct else "s.din")]
  for i in range(H - 1):
    stm.append(f"      s.hist[{idx(i)}] <<= s.hist[{idx(i + 1)}]")
  rng.shuffle(stm)
  L += stm + ["    @update", "    def rdo():"] + [f"      s.ho[{i}] @= {rd(i)}" for i in range(H)]
  src = "\n".join(L) + "\n"
  mod = G.load_source(src, "c07n")
  try:
    seq = [rng.getrandbits(w) for _ in range(rng.randrange(H + 2, H + 8))]
    for mode in ("default", "simple", "mamba", "unroll"):
      top = mod.HTop()
      try:
        simmon.apply_mode(top, mode, rng); top.sim_reset()
      except Exception as e:
        sh.violation("shift-register-design-not-simulatable", {"mode": mode, "error": repr(e)[:300], "source": src}, case=("negidx", case)); continue
      ref = [int(top.ho[i]) for i in range(H)]
      for cyc, din in enumerate(seq):
        top.din @= din
        top.sim_tick()
        ref = ref[1:] + [din]
        got = [int(top.ho[i]) for i in range(H)]
        sh.count("negidx_register_comparisons", H)
        if got != ref:
          sh.violation("registers-written-through-literal-indices-differ-from-next-state-function", {"mode": mode, "cycle": cyc, "got": got, "expected": ref,
                       "source": src}, case=("negidx", case)); return
    sh.count("negidx_designs"); sh.fp("negidx", H, w, struct)
  finally:
    G.unload(mod)


def run_shard(sh):
  q = sh.tier == "quick"
  for case in range(sh.params.get("banks", 8)):
    run_bank_case(sh, case)
  for case in range(4):
    run_negidx_case(sh, case)
  for case in range(sh.params["designs"]):
    if sh.only is not None and str(case) != str(sh.only).strip('"'):
      continue
    rng = sh.rng("design", case)
    d = G.generate(rng, knobs_for(rng))
    for sk, sv in d.get("stats", {}).items(): sh.count(sk, sv)
    st = schedcheck.run_design(sh, d, rng, case, simmon.MODES, rng.randrange(8, 17), {"ff"}, "c07",
                               reps={"inject": 6 if q else 30})
    if st is None: continue
    sh.count("designs"); sh.count("evaluations")
    for k in ("register_comparisons", "ff_preedge_comparisons", "mode_runs", "runs_started_with_sim_reset"):
      sh.count(k, st[k])
    sh.count("ff_orders_observed_total", st["distinct_ff_orders"])
    if st["ff_blocks"] >= 2 and st["distinct_ff_orders"] >= 2:
      sh.count("designs_with_2_ff_orders"); sh.fp(G.emit(d))
    if case < 1:
      sh.sample({"design_source_head": G.emit(d)[:1200], "ff_blocks": st["ff_blocks"], "distinct_ff_orders_observed": st["distinct_ff_orders"]})
