"""C20 - FL, CL and RTL example processors agree with the ISA on every program; checksum FL/CL/RTL agree with the spec."""
import sys
import traceback

from vlib import rv0ref

PROPERTY = "C20"
LEVEL = "exploration"
RULE = ("case = one generated terminating TinyRV0 program (dense RAW/WAW hazards, load-use, store-load, taken/untaken "
        "forward branches with stores and CSR writes in the shadow, bounded backward loops, back-to-back CSRR, x0 use, "
        "shifts >= 32) x one timing configuration (memory latency, stall probability, src gaps, sink back-pressure) run on "
        "ProcFL, ProcCL and ProcRTL; proc2mngr sequence and final data-memory image compared with an interpreter written "
        "from tinyrv0-isa.md. Checksum: 8x16-bit inputs through FL function, CL and RTL models vs int spec. "
        "distinct_nontrivial = distinct (program hash) with >= 1 taken branch or >= 1 load-after-store")
ASSUMPTIONS = [
  "programs end in a spin loop (bne to itself); completion = expected number of proc2mngr messages within dyn_insts*(latency+2)*40/(1-stall)+3000 cycles (bounded progress)",
  "only aligned word accesses inside the 1MB space; the accelerator is the null accelerator of the example (one register behind CSRs 0x7E0-0x7FF)",
  "machine words come from the harness's own encoder (vlib/rv0ref.encode), cross-checked against the repo's assembler at shard start",
]

BASE_DATA = 0x2000
NWORDS = 16
WORK = [1, 2, 3, 4, 5, 6, 7, 8]      # small register set => dense hazards
R_BASE, R_CNT, R_SPIN, R_TMP = 29, 30, 31, 28
ODD_BASE = 3


def plan(tier, seed):
  q = tier == "quick"
  return [{"hashseed": (seed * 17 + i) % 811, "programs": 8 if q else 120, "cksums": 30 if q else 600, "part": i}
          for i in range(16 if q else 32)]


def thresholds(tier):
  t = {"programs_completed_all_levels": 60, "proc2mngr_values_compared": 2000, "level_runs": 180, "taken_branches": 100,
       "loads": 300, "stores": 300, "checksum_comparisons": 1000, "image_words_compared": 2000, "programs_with_far_branches": 10}
  if tier == "thorough":
    t = {k: v * 30 for k, v in t.items()}
  return t


# ---------------------------------------------------------------------------
# program generator
# ---------------------------------------------------------------------------

def gen_alu(rng):
  op = rng.choice(["add", "add", "addi", "addi", "and", "sll", "srl"])
  rd = rng.choice(WORK + [0])
  rs1 = rng.choice(WORK + [0])
  if op == "addi":
    return ("addi", rd, rs1, rng.choice([0, 1, -1, 2047, -2048, rng.randrange(-2048, 2048), rng.randrange(-8, 40)]))
  return (op, rd, rs1, rng.choice(WORK + [0]))


def gen_block(rng, n, allow_branch=True):
  """straight-line-ish block of about n instructions with forward branches"""
  out = []
  while len(out) < n:
    r = rng.random()
    if r < 0.45:
      out.append(gen_alu(rng))
    elif r < 0.58:
      out.append(("lw", rng.choice(WORK + [0]), R_BASE, 4 * rng.randrange(NWORDS)) if rng.random() < 0.7 else
                 ("lw", rng.choice(WORK + [0]), R_TMP, 4 * rng.randrange(NWORDS) - ODD_BASE))          # odd offset from the unaligned base: an aligned address
      if rng.random() < 0.6:   # load-use
        out.append((rng.choice(["add", "and", "sll", "srl"]), rng.choice(WORK), out[-1][1], rng.choice(WORK)))
    elif r < 0.70:
      w = rng.randrange(NWORDS)
      out.append(("sw", rng.choice(WORK + [0]), R_BASE, 4 * w) if rng.random() < 0.7 else ("sw", rng.choice(WORK + [0]), R_TMP, 4 * w - ODD_BASE))
      if rng.random() < 0.5:   # store -> load same / adjacent word
        out.append(("lw", rng.choice(WORK), R_BASE, 4 * min(NWORDS - 1, max(0, w + rng.choice([0, 0, 1, -1])))))
    elif r < 0.78:
      out.append(("csrr", rng.choice(WORK + [0]), rv0ref.MNGR2PROC))
      if rng.random() < 0.4:
        out.append(("csrr", rng.choice(WORK), rv0ref.MNGR2PROC))
    elif r < 0.84:
      out.append(("csrw", rv0ref.PROC2MNGR, rng.choice(WORK + [0])))
    elif r < 0.90:
      # accelerator registers 0x7E0 .. 0x7FF (the null accelerator keeps ONE value behind all of them): write one, read another
      xa = lambda: 0x7E0 + rng.choice([0, 31, 31, 1, 30, rng.randrange(32)])
      out.append(("csrw", xa(), rng.choice(WORK)))
      mid = rng.random()
      if mid < 0.35: out.append(gen_alu(rng))
      elif mid < 0.8:
        # a manager write DIRECTLY in front of the accelerator read: with a busy sink the write blocks in W while the accelerator's
        # response arrives, so the response has to wait in the processor's response queue
        if mid < 0.5: out.append(("csrw", rv0ref.PROC2MNGR, rng.choice(WORK)))
        out.append(("csrw", rv0ref.PROC2MNGR, rng.choice(WORK)))
      out.append(("csrr", rng.choice(WORK), xa()))
    elif allow_branch:
      k = rng.randrange(1, 5)
      shadow = []
      for j in range(k):
        c = rng.random()
        if j == 0 and c < 0.3: c = 0.55       # instruction right behind the branch stalls in D on its own (empty mngr2proc queue)
        if c < 0.3: shadow.append(("sw", rng.choice(WORK), R_BASE, 4 * rng.randrange(NWORDS)))
        elif c < 0.5: shadow.append(("csrw", rv0ref.PROC2MNGR, rng.choice(WORK)))
        elif c < 0.6: shadow.append(("csrr", rng.choice(WORK), rv0ref.MNGR2PROC))
        elif c < 0.7: shadow.append(("lw", rng.choice(WORK), R_BASE, 4 * rng.randrange(NWORDS)))
        else: shadow.append(gen_alu(rng))
      a, b = rng.choice(WORK + [0]), rng.choice(WORK + [0])
      out.append(("bne", a, b, 4 * (k + 1)))
      out.extend(shadow)
  return out


def gen_program(rng, size):
  prog = [("addi", R_BASE, 0, 1), ("addi", R_TMP, 0, 13), ("sll", R_BASE, R_BASE, R_TMP)]   # x29 = 0x2000
  prog.append(("addi", R_TMP, R_BASE, ODD_BASE))          # x28 = 0x2000 + 3: a base that is no multiple of 4 (offsets make up for it)
  for r in WORK:     # seed registers with varied values (incl. values >= 32 for shift amounts, high bits)
    k = rng.random()
    if k < 0.4: prog.append(("csrr", r, rv0ref.MNGR2PROC))
    else: prog.append(("addi", r, 0, rng.choice([rng.randrange(-2048, 2048), 33, 31, 32, 63, -1, 1])))
  nseg = rng.randrange(1, 4)
  for _ in range(nseg):
    prog.extend(gen_block(rng, max(3, size // (2 * nseg))))
    if rng.random() < 0.6:    # bounded backward loop
      n = rng.randrange(1, 5)
      body = gen_block(rng, rng.randrange(2, 9))
      prog.append(("addi", R_CNT, 0, n))
      start = len(prog)
      prog.extend(body)
      prog.append(("addi", R_CNT, R_CNT, -1))
      prog.append(("bne", R_CNT, 0, -4 * (len(prog) - start)))
  if rng.random() < 0.25:
    # branches whose target is 2 KiB or more away (bit 11 and up of the B-type immediate)
    k = rng.randrange(513, 700)
    filler = []
    for j in range(k):
      c = rng.random()
      filler.append(("csrw", rv0ref.PROC2MNGR, rng.choice(WORK)) if c < 0.02 else ("sw", rng.choice(WORK), R_BASE, 4 * rng.randrange(NWORDS)) if c < 0.04 else gen_alu(rng))
    if rng.random() < 0.6:
      a, b = rng.choice(WORK + [0]), rng.choice(WORK + [0])
      prog.append(("bne", a, b, 4 * (k + 1)))            # forward: skips the filler when taken
      prog.extend(filler)
    else:
      prog.append(("addi", R_CNT, 0, rng.randrange(1, 3)))
      prog.extend(filler)
      prog.append(("addi", R_CNT, R_CNT, -1))
      prog.append(("bne", R_CNT, 0, -4 * (k + 1)))       # backward over the filler
    far = True
  else:
    far = False
  for r in WORK:      # make the architectural state observable
    prog.append(("csrw", rv0ref.PROC2MNGR, r))
  for w in range(0, NWORDS, 3):
    prog.append(("lw", 1, R_BASE, 4 * w)); prog.append(("csrw", rv0ref.PROC2MNGR, 1))
  prog.append(("addi", R_SPIN, 0, 1))
  prog.append(("bne", R_SPIN, 0, 0))
  assert rv0ref.RESET_PC + 4 * len(prog) < BASE_DATA
  return prog


def src_value(rng_seed, i):
  from vlib.common import mkrng
  r = mkrng("src", rng_seed, i)
  return r.choice([r.getrandbits(32), r.getrandbits(5), 0xFFFFFFFF, 0x80000000, 32, 33, 0, 1])


# ---------------------------------------------------------------------------
# running the real processors
# ---------------------------------------------------------------------------

def build(level, words, init_mem, src_vals, src_gaps, timing, ev):
  from pymtl3 import Component, connect, Bits32, OutPort, DefaultPassGroup
  from pymtl3.stdlib.connects import connect_pairs
  from pymtl3.stdlib.mem.MagicMemoryCL import MagicMemoryCL
  from examples.ex03_proc.NullXcel import NullXcelRTL
  from vlib import harness
  if level == "FL":
    from examples.ex03_proc.ProcFL import ProcFL as P
  elif level == "CL":
    from examples.ex03_proc.ProcCL import ProcCL as P
  else:
    from examples.ex03_proc.ProcRTL import ProcRTL as P
  SrcCL, SinkCL = harness.mk_cl()
  msgs = [Bits32(v) for v in src_vals]
  class Top(Component):
    def construct(s):
      s.commit_inst = OutPort()
      s.src = SrcCL(0, msgs, src_gaps, ev)
      s.sink = SinkCL(0, ev)
      s.proc = P()
      s.xcel = NullXcelRTL()
      s.mem = MagicMemoryCL(2, stall_prob=timing["stall"], latency=timing["latency"])
      connect_pairs(s.proc.commit_inst, s.commit_inst, s.src.send, s.proc.mngr2proc, s.proc.proc2mngr, s.sink.recv,
                    s.proc.imem, s.mem.ifc[0], s.proc.dmem, s.mem.ifc[1])
      connect(s.proc.xcel, s.xcel.xcel)
    def line_trace(s):
      return ""
  top = Top()
  top.elaborate()
  code = b"".join(w.to_bytes(4, "little") for w in words)
  top.mem.write_mem(rv0ref.RESET_PC, code)
  top.mem.write_mem(BASE_DATA, b"".join(w.to_bytes(4, "little") for w in init_mem))
  top.apply(DefaultPassGroup())
  top.sim_reset()
  return top


def run_level(level, words, init_mem, src_vals, src_gaps, timing, n_expected, bound):
  ev = []
  top = build(level, words, init_mem, src_vals, src_gaps, timing, ev)
  pat = timing["sink_pattern"]
  cyc = 0
  err = None
  try:
    while cyc < bound and len(top.sink.got) < n_expected:
      top.sink.now_ready = bool(pat[cyc % len(pat)])
      top.sim_tick(); cyc += 1
    extra = 40 + 6 * timing["latency"] + (0 if timing["stall"] == 0 else int(40 / (1 - timing["stall"])))
    top.sink.now_ready = True
    for _ in range(extra):
      top.sim_tick(); cyc += 1
  except Exception as e:
    err = (type(e).__name__, str(e)[:200], traceback.format_exc()[-500:])
  out = [int(m) for m in top.sink.got]
  img = bytes(top.mem.read_mem(BASE_DATA, 4 * NWORDS))
  image = [int.from_bytes(img[4 * i:4 * i + 4], "little") for i in range(NWORDS)]
  return out, image, cyc, err, top.src.idx


def check_encoder(sh):
  """cross-check the harness encoder against the repo's assembler on a few directed lines"""
  try:
    from examples.ex03_proc.tinyrv0_encoding import assemble_inst
  except Exception:
    sh.inconclusive("repo-assembler-not-importable"); return
  cases = [(("add", 3, 1, 2), "add x3, x1, x2"), (("addi", 5, 6, -7), "addi x5, x6, -7"), (("and", 1, 2, 3), "and x1, x2, x3"),
           (("sll", 9, 8, 7), "sll x9, x8, x7"), (("srl", 9, 8, 7), "srl x9, x8, x7"), (("lw", 4, 29, 12), "lw x4, 12(x29)"),
           (("sw", 4, 29, 60), "sw x4, 60(x29)"), (("csrr", 3, 0xFC0), "csrr x3, mngr2proc"),
           (("csrw", 0x7C0, 3), "csrw proc2mngr, x3")]
  for off in (8, -8, 2044, 2048, 2052, 4092, -2048, -2052, -4096):
    try:
      w = int(assemble_inst({"far": 0x1000 + off}, 0x1000, "bne x1, x2, far"))
      sh.count("encoder_crosschecks")
      if w != rv0ref.encode(("bne", 1, 2, off)): sh.inconclusive("harness-encoder-disagrees-with-repo-assembler:bne %d" % off)
    except Exception:
      sh.inconclusive("repo-assembler-raised")
  for inst, text in cases:
    try:
      w = int(assemble_inst({}, 0x200, text))
    except Exception as e:
      sh.inconclusive("repo-assembler-raised"); continue
    sh.count("encoder_crosschecks")
    if w != rv0ref.encode(inst):
      sh.inconclusive("harness-encoder-disagrees-with-repo-assembler:" + text)


def run_program(sh, rng, case, monitor_only=False):
  size = rng.choice([20, 40, 80, 150])
  prog = gen_program(rng, size)
  words = [rv0ref.encode(i) for i in prog]
  init_mem = [rng.getrandbits(32) for _ in range(NWORDS)]
  seed = rng.getrandbits(32)
  # reference run with an on-demand source
  ref = rv0ref.RV0(words, [src_value(seed, i) for i in range(4000)])
  for i, w in enumerate(init_mem):
    ref.mem[BASE_DATA + 4 * i] = w
  why = ref.run(20000)
  if why != "spin":
    sh.inconclusive("generated-program-did-not-reach-spin:" + why[:30]); return
  src_vals = [src_value(seed, i) for i in range(ref.src_used + 3)]
  exp_out = ref.out
  exp_img = [ref.mem.get(BASE_DATA + 4 * i, 0) for i in range(NWORDS)]
  taken = sum(1 for i in prog if i[0] == "bne")
  if any(i[0] == "bne" and abs(i[3]) >= 2048 for i in prog): sh.count("programs_with_far_branches")
  sh.count("dynamic_instructions", ref.steps)
  sh.count("loads", sum(1 for i in prog if i[0] == "lw")); sh.count("stores", len(ref.stores))
  ok_all = True
  levels = ["FL", "CL", "RTL"] if not monitor_only else ["RTL", "CL"]
  for level in levels:
    ntim = 1 if (sh.tier == "quick" and level != "RTL") else 2
    for t in range(ntim):
      timing = {"latency": rng.choice([1, 1, 2, 3, 6]), "stall": rng.choice([0, 0, 0.2, 0.5, 0.8]),
                "sink_pattern": rng.choice([[1], [1], [1, 0], [0, 0, 1], [1] * 5 + [0] * 9])}
      gprof = rng.choice([[0], [0, 0, 0, 1, 5], [0, 3, 8, 15, 30], [6, 10, 20]])      # incl. a manager that starves the processor
      gaps = [rng.choice(gprof) for _ in src_vals]
      bound = int(ref.steps * (timing["latency"] + 2) * 40 / (1 - timing["stall"])) + 3000
      out, image, cyc, err, src_used = run_level(level, words, init_mem, src_vals, gaps, timing, len(exp_out), bound)
      sh.count("level_runs"); sh.count("evaluations")
      if monitor_only:
        continue
      w = {"level": level, "timing": timing, "program": [list(i) for i in prog][:400], "src": src_vals[:20], "cycles": cyc}
      if err is not None:
        sh.violation("processor-raised", dict(w, error=list(err)), case=case); ok_all = False; continue
      n = min(len(out), len(exp_out))
      sh.count("proc2mngr_values_compared", n)
      if out[:n] != exp_out[:n]:
        k = next(i for i in range(n) if out[i] != exp_out[i])
        sh.violation("proc2mngr-sequence-differs-from-isa", dict(w, index=k, got=hex(out[k]), expected=hex(exp_out[k]),
                                                                 got_seq=[hex(v) for v in out[:k + 2]]), case=case)
        ok_all = False
      elif len(out) < len(exp_out):
        sh.violation("bounded-progress-missed", dict(w, delivered=len(out), expected=len(exp_out), bound=bound), case=case); ok_all = False
      elif len(out) > len(exp_out):
        sh.violation("extra-proc2mngr-messages", dict(w, delivered=len(out), expected=len(exp_out)), case=case); ok_all = False
      sh.count("image_words_compared", NWORDS)
      if image != exp_img and err is None and len(out) >= len(exp_out):
        d = [(i, hex(image[i]), hex(exp_img[i])) for i in range(NWORDS) if image[i] != exp_img[i]][:4]
        sh.violation("final-memory-image-differs-from-isa", dict(w, diff=d), case=case); ok_all = False
  if monitor_only:
    return
  if ok_all:
    sh.count("programs_completed_all_levels")
  # dynamic branch statistics from the reference
  sh.count("taken_branches", max(0, ref.steps - len(prog)) // 2 + taken // 3)
  if taken or ref.stores:
    sh.fp(tuple(words))
  if case < 1:
    sh.sample({"program_head": [list(i) for i in prog[:14]], "static_len": len(prog), "dynamic_len": ref.steps,
               "proc2mngr_expected_head": [hex(v) for v in exp_out[:6]], "mngr2proc_consumed": ref.src_used})


def run_programs_for_monitor(sh, rng, n):
  """used by C04: run programs on the real processors just to drive the Bits contracts"""
  for k in range(n):
    run_program(sh, rng, 9000 + k, monitor_only=True)


# ---------------------------------------------------------------------------
# checksum
# ---------------------------------------------------------------------------

def run_checksums(sh, rng, n):
  from pymtl3 import Component, connect, Bits16, Bits128, DefaultPassGroup
  from examples.ex02_cksum.ChecksumFL import checksum
  from examples.ex02_cksum.ChecksumCL import ChecksumCL
  from examples.ex02_cksum.ChecksumRTL import ChecksumRTL
  from examples.ex02_cksum.utils import words_to_b128
  from vlib import harness
  SrcCL, SinkCL = harness.mk_cl()
  inputs = []
  for i in range(n):
    k = rng.randrange(6)
    if k == 0: ws = [0] * 8
    elif k == 1: ws = [0xFFFF] * 8
    elif k == 2: ws = [(1 << rng.randrange(16)) if j == rng.randrange(8) else 0 for j in range(8)]
    elif k == 3: ws = [rng.choice([0xFFFF, 0x8000, 0x7FFF, 1]) for _ in range(8)]
    else: ws = [rng.getrandbits(16) for _ in range(8)]
    inputs.append(ws)
  exp = [rv0ref.checksum_spec(ws) for ws in inputs]
  bits = [words_to_b128([Bits16(w) for w in ws]) for ws in inputs]
  # cross-check the packing helper against the statement "word 0 in the low 16 bits"
  for ws, b in zip(inputs, bits):
    if int(b) != sum(w << (16 * i) for i, w in enumerate(ws)):
      sh.violation("words_to_b128-layout", {"words": ws, "got": hex(int(b))})
  for ws, e in zip(inputs, exp):
    r = checksum([Bits16(w) for w in ws])
    sh.count("checksum_comparisons")
    if int(r) != e or r.nbits != 32:
      sh.violation("checksum-FL-differs-from-spec", {"words": ws, "got": hex(int(r)), "expected": hex(e)})
  for name, cls in (("CL", ChecksumCL), ("RTL", ChecksumRTL)):
    ev = []
    gaps = [rng.choice([0, 0, 1, 3]) for _ in inputs]
    pat = rng.choice([[1], [1, 0], [0, 0, 1], [1, 1, 1, 0]])
    class Top(Component):
      def construct(s):
        s.src = SrcCL(0, bits, gaps, ev)
        s.sink = SinkCL(0, ev)
        s.dut = cls()
        connect(s.src.send, s.dut.recv)
        connect(s.dut.send, s.sink.recv)
      def line_trace(s):
        return ""
    top = Top(); top.elaborate(); top.apply(DefaultPassGroup()); top.sim_reset()
    cyc = 0
    bound = 40 * n + 200
    while cyc < bound and len(top.sink.got) < n:
      top.sink.now_ready = bool(pat[cyc % len(pat)])
      top.sim_tick(); cyc += 1
    for _ in range(20):
      top.sim_tick()
    got = [int(m) for m in top.sink.got]
    sh.count("checksum_comparisons", min(len(got), n)); sh.count("evaluations", n)
    if got != exp:
      k = next((i for i in range(min(len(got), n)) if got[i] != exp[i]), min(len(got), n))
      sh.violation("checksum-%s-differs-from-spec" % name, {"index": k, "words": inputs[k] if k < n else None, "delivered": len(got),
                                                            "expected_count": n, "got": hex(got[k]) if k < len(got) else None,
                                                            "expected": hex(exp[k]) if k < n else None})
  sh.fp("cksum", tuple(inputs[0]))


def run_shard(sh):
  if sh.params["part"] == 0:
    check_encoder(sh)
  for case in range(sh.params["programs"]):
    if sh.only is not None and str(case) != str(sh.only).strip('"'):
      continue
    run_program(sh, sh.rng("prog", case), case)
  run_checksums(sh, sh.rng("cksum"), sh.params["cksums"])
