"""Shared engine of C03 (SystemVerilog backend) and C12 (Yosys backend): translate with the real pass, execute the
emitted text with vlib/svsim, co-simulate against the PyMTL simulation cycle by cycle, analyse drivers."""
import inspect
import os
import random
import traceback

from vlib import specgen as G, cosim, svsim, svselfcheck

TR_KNOBS = {"widths": [1, 2, 3, 4, 5, 7, 8, 9, 16, 31, 32, 33, 63, 64], "avoid_const_ops": True, "p_freevar": 0.25, "p_tmp": 0.25, "p_const_struct": 0.35, "p_nested_slice": 0.3, "p_tmp_chain": 0.4, "p_vsl": 0.2, "p_lambda": 0.25, "p_for": 0.6, "p_ite_const": 0.4, "p_list2d": 0.4, "p_list_struct": 0.5, "p_cast": 0.25,
            "p_for_mixed": 0.7, "p_tmp_loopname": 0.8, "p_lambda_part": 0.5, "p_shadow": 0.3, "p_expr_bounds_blk": 0.3}


def random_inputs(rng, cs, reset):
  def app(top):
    from pymtl3 import Bits
    top.reset @= reset
    for p in cs.pm.ports:
      if p["dir"] == "in" and p["name"] not in ("s.clk", "s.reset"):
        w = p["width"]
        k = rng.random()
        v = 0 if k < 0.1 else (1 << w) - 1 if k < 0.2 else rng.getrandbits(w)
        o = eval(p["name"], {"s": top})
        o @= Bits(w, v)
  return app


def eval_const_concat(txt):
  """value and width of a (nested) concatenation of sized decimal literals  { 3'd5, { 4'd3, 4'd2 } }  (None if anything else)"""
  import re as _re
  toks = _re.findall(r"\d+'d\d+|[{},]|\S", txt)
  pos = [0]
  def item():
    t = toks[pos[0]]
    if t == "{":
      pos[0] += 1
      v, w = 0, 0
      while True:
        r = item()
        if r is None: return None
        v = (v << r[1]) | r[0]; w += r[1]
        t2 = toks[pos[0]]; pos[0] += 1
        if t2 == "}": return v, w
        if t2 != ",": return None
    m = _re.fullmatch(r"(\d+)'d(\d+)", t)
    if not m: return None
    pos[0] += 1
    return int(m.group(2)) & ((1 << int(m.group(1))) - 1), int(m.group(1))
  try:
    r = item()
    return r if r is not None and pos[0] == len(toks) else None
  except IndexError:
    return None


def const_struct_hook(sh, design, src, case, mech_fn=None):
  """-> text hook: every struct constant the design ties to a signal is emitted as a constant concatenation with exactly the
  constant's packed value (checked on the text itself: independent of the driver analysis of the surrounding declarations)"""
  import re as _re
  expect = {}
  for cls in design["classes"].values():
    for dst, sv in cls["connects"]:
      if "name" in sv and not dst["steps"] and "[" not in dst["path"]:
        expect.setdefault(dst["path"].replace(".", "__"), set()).add((sv["const"], dst["w"]))
  def hook(text):
    if not expect: return True
    for m in _re.finditer(r"assign\s+(\w+)\s*=\s*(\{.*\})\s*;", text):
      nm = m.group(1)
      if nm not in expect: continue
      r = eval_const_concat(m.group(2))
      if r is None: continue
      sh.count("struct_constants_evaluated_in_text")
      if r not in expect[nm]:
        sh.violation("struct-constant-emitted-with-another-value", {"signal": nm, "emitted": m.group(0)[:300], "emitted_value": hex(r[0]), "emitted_width": r[1],
                     "expected_one_of": sorted((hex(v), w) for v, w in expect[nm]), "source": src}, case=case)
        return False
    return True
  return hook


def judge_text(sh, backend, top, what, src, case, mech_fn, extra_steps=None, ncyc=20, rng=None, count_key="programs", text_hook=None):
  """top: elaborated PyMTL component.  returns True if co-simulated to the last cycle without violation"""
  rng = rng or random.Random(0)
  hetero = False
  try:
    from pymtl3.dsl.Component import Component as _C
    def _lists(c):
      for k, v in c.__dict__.items():
        if k[0] != "_" and isinstance(v, list) and v and all(isinstance(x, _C) for x in v):
          yield v
    stack = [top]
    while stack:
      c = stack.pop()
      for lst in _lists(c):
        if len({type(x) for x in lst}) > 1: hetero = True
      stack.extend(c.get_child_components())
  except Exception:
    pass
  def W(kind, **kw):
    w = dict(kw, what=what, backend=backend, source=src, component_list_with_different_classes=hetero)
    sh.violation(kind, w, mechanism=mech_fn(kind, w) if mech_fn else None, case=case)
  try:
    text, fn, topmod = cosim.translate(top, backend)
  except Exception as e:
    sh.count("rejected_by_translator")        # outside the premise: counted, not judged
    sh.count("reject:" + type(e).__name__)
    return None
  try:
    os.remove(fn)
  except OSError:
    pass
  sh.count("texts_translated")
  ys_table = None
  if backend == "ys":
    # ( taken before the design is locked into a simulator, which replaces the port objects by their values )
    try:
      from pymtl3.passes.backends.yosys.util.utility import gen_mapped_ports
      ys_table = {(e[1], int(e[2].get_dtype().get_length()), e[2].get_direction()) for e in gen_mapped_ports(top, {})}
    except Exception as e_:
      sh.count("yosys_port_table_raised:" + type(e_).__name__)
  if sh.counters["texts_translated"] % 2 == 0:
    # every text the pass emits for the design has to be right, also the one of a SECOND translation of the same elaborated object
    # (a translator that changes the design's own data - constants, parameter lists - while it works shows there): judge that one
    try:
      text2, fn2, topmod2 = cosim.translate(top, backend)
      try: os.remove(fn2)
      except OSError: pass
      sh.count("second_translations_judged")
      if text2 != text: sh.count("second_translation_text_differs_from_first")
      text, topmod = text2, topmod2
    except Exception as e:
      sh.count("second_translation_raised:" + type(e).__name__)
  if text_hook is not None and not text_hook(text):
    return False
  try:
    cs = cosim.CoSim(top, backend, text, topmod)
  except svsim.SVError as e:
    m_ = __import__("re").search(r"identifier (\w+)|near: (.*)", str(e))
    key = (m_.group(1) or "") if m_ else ""
    lines = [l.strip()[:300] for l in text.splitlines() if key and __import__("re").search(r"\b%s\b" % key, l) and not l.strip().startswith("//")][:3]
    W("emitted-text-does-not-parse-or-elaborate", error=str(e)[:400], offending_lines=lines, text=text[-2500:]); return False
  except Exception as e:
    sh.inconclusive("pymtl-side-not-simulatable:" + type(e).__name__); return None
  for k, v in cs.design.forms.items():
    sh.count("form:" + k, v)
  if backend == "ys" and ("typedef" in cs.design.forms or cs.design.forms.get("typedef struct packed") or cs.design.forms.get("member access")):
    W("yosys-text-is-not-plain-verilog(typedef/member access)", text=text[-1500:])
  if cs.map_problems:
    W("flat-port-map-mismatch" if backend == "ys" else "port-map-mismatch", problems=cs.map_problems[:5], text=text[:1500]); return False
  if backend == "ys":
    # the back end's OWN flat port map (the table its import pass pairs python leaves and flattened ports with) names exactly the
    # ports of the emitted module, with their widths and directions
    import re as _re
    want = ys_table
    m_ = _re.search(r"module\s+%s\s*\((.*?)\);" % _re.escape(topmod), text, _re.S)
    if want is not None and m_:
      got = {(nm_, int(msb or 0) + 1, d_) for d_, msb, nm_ in _re.findall(r"(input|output)\s+(?:logic|wire|reg)?\s*(?:\[(\d+):0\])?\s*(\w+)", m_.group(1))}
      sh.count("yosys_port_tables_compared"); sh.count("yosys_port_table_entries", len(want))
      if got != want:
        W("yosys-port-table-differs-from-the-emitted-module", only_in_table=sorted(want - got)[:6], only_in_module=sorted(got - want)[:6]); return False
  for pp in cs.pm.ports:
    if not isinstance(pp["shape"], int): sh.count("struct_leaf_ports_mapped", len(pp["sv"]))
    if "[" in pp["name"]: sh.count("array_element_ports_mapped")
  dr = svsim.drivers(cs.sim)
  sh.count("driver_sets_analysed", dr["analysed"]); sh.count("driver_unresolved_dynamic", dr["unresolved"])
  ok = True
  byp = {i.path: i for i in cs.sim.insts}
  import re as _re
  de = lambda n: _re.sub(r"__\d+(?=__|$)", "", n)
  def is_leaf_form(path, name):
    """the variable is a flattened leaf X__i__f of a signal whose packed / array form X also exists in the module"""
    dn = de(name)
    return any(v != name and dn.startswith(de(v) + "__") for v in byp[path].vars)
  def dual(path, name):
    """leaf form, or packed / array form that has leaf forms"""
    dn = de(name)
    return is_leaf_form(path, name) or any(v != name and de(v).startswith(dn + "__") for v in byp[path].vars)
  if dr["multi"]:
    W("variable-with-more-than-one-driver", drivers=[(m[0], m[1], m[4]) for m in dr["multi"]][:4],
      all_dual_form=all(is_leaf_form(m[0], m[1]) for m in dr["multi"]), text=text[-3000:]); ok = False
  if dr["undriven"]:
    W("read-or-output-variable-without-driver", variables=dr["undriven"][:6],
      all_dual_form=all(dual(p_, n_) for p_, n_ in dr["undriven"]), text=text[-3000:]); ok = False
  # an ELEMENT of an array of packed structs that is read although no driver covers it, while the leaf forms X__f of the same
  # array are driven on their own (by something that does not read X): the whole / field forms of a struct wire are not linked
  # (an element the design itself leaves undriven - its leaf form is fed from the packed form - is not judged)
  for (p_, n_, el_) in dr.get("elem_undriven", []):
    leafs = [v for v in byp[p_].vars if v != n_ and de(v).startswith(de(n_) + "__")]
    if leafs and any(n_ not in rs for v in leafs for rs in dr["driver_reads"].get((p_, v), [])):
      W("read-or-output-variable-without-driver", variables=[(p_, n_, list(el_))], all_dual_form=True, element_level=True, text=text[-3000:]); ok = False; break
    # ... and the mirror image: an element of a LEAF array X__f is read although no driver covers it, while the packed form X is
    # driven on its own (a constant struct / a whole-struct copy tied to X[i][j])
    packed = [v for v in byp[p_].vars if v != n_ and de(n_).startswith(de(v) + "__")]
    if packed and any(n_ not in rs for v in packed for rs in dr["driver_reads"].get((p_, v), [])):
      W("read-or-output-variable-without-driver", variables=[(p_, n_, list(el_))], all_dual_form=True, element_level=True, leaf_side=True, text=text[-3000:]); ok = False; break
  if not ok:
    return False
  try:
    steps = [random_inputs(rng, cs, 1)] * 2 + (extra_steps or []) + [random_inputs(rng, cs, int(rng.random() < 0.05)) for _ in range(ncyc)]
    for app in steps:
      try:
        diffs = cs.step(app)
      except svsim.SVError as e:
        m_ = __import__("re").search(r"identifier (\w+)", str(e))
        key = m_.group(1) if m_ else ""
        lines = [l.strip()[:300] for l in text.splitlines() if key and __import__("re").search(r"\b%s\b[.\[]" % key, l) and not l.strip().startswith("//")][:3]
        W("emitted-text-fails-at-run-time", error=str(e)[:300], cycle=cs.cycle, offending_lines=lines, text=text[-2500:]); return False
      sh.count("cycles_cosimulated")
      if diffs:
        W("output-differs-from-pymtl-simulation", cycle=cs.cycle, diffs=diffs[:4], text=text[-3500:]); return False
  except Exception as e:
    tb = traceback.format_exc()
    if "svsim.py" in tb or "cosim.py" in tb.split("\n")[-3]:
      sh.inconclusive("harness-exception:" + type(e).__name__); sh.sample({"harness_exception": tb[-600:]})
    else:
      sh.count("pymtl_simulation_raised(outside premise)")
    return None
  for k, v in cs.sim.events.items():
    sh.count("svsim-event:" + k, v)
  sh.count("output_comparisons", cs.compared)
  sh.count("disagreements_checked", cs.compared)
  sh.count(count_key); sh.count("evaluations")
  return True


# ---------------------------------------------------------------------------
# streams
# ---------------------------------------------------------------------------

def corpus_stream(sh, backend, part, nparts, mech_fn):
  cases = svselfcheck.corpus_cases()
  rng = sh.rng("corpus")
  for i, (name, c) in enumerate(cases):
    if i % nparts != part: continue
    try:
      m = c.DUT(); m.elaborate()
    except Exception:
      continue
    tvs = []
    for tv in c.TV:
      def app(top, tv=tv, c=c):
        top.reset @= 0
        c.TV_IN(top, tv)
      tvs.append(app)
    r = judge_text(sh, backend, m, "corpus:" + name, inspect.getsource(c.DUT)[:1500], ("corpus", name), mech_fn, extra_steps=tvs, ncyc=15, rng=rng)
    if r: sh.count("corpus_cases_cosimulated"); sh.fp("corpus", name)


def stdlib_stream(sh, backend, part, nparts, mech_fn):
  from pymtl3 import Bits8, Bits16, Bits32, mk_bits, mk_bitstruct
  from pymtl3.stdlib import queues as Q
  from pymtl3.stdlib.stream import queues as SQ
  from pymtl3.stdlib.basic_rtl import arbiters, registers, arithmetics, register_files, crossbars, encoders
  St = mk_bitstruct("TrMsg", {"a": mk_bits(3), "b": mk_bits(13)})
  items = []
  for T in (Bits8, mk_bits(33), St):
    for n in (1, 2, 3, 5):
      for cls in (Q.NormalQueueRTL, Q.PipeQueueRTL, Q.BypassQueueRTL, SQ.NormalQueueRTL, SQ.PipeQueueRTL, SQ.BypassQueueRTL):
        items.append((f"{cls.__module__.split('.')[-2]}.{cls.__name__}({T.__name__},{n})", lambda cls=cls, T=T, n=n: cls(T, n)))
  for n in (2, 3, 4, 7):
    items.append((f"RoundRobinArbiter({n})", lambda n=n: arbiters.RoundRobinArbiter(n)))
    items.append((f"RoundRobinArbiterEn({n})", lambda n=n: arbiters.RoundRobinArbiterEn(n)))
  for T in (Bits8, mk_bits(17)):
    items.append((f"RegEnRst({T.__name__})", lambda T=T: registers.RegEnRst(T, reset_value=3)))
    items.append((f"Mux({T.__name__},3)", lambda T=T: arithmetics.Mux(T, 3)))
    items.append((f"RegisterFile({T.__name__},4,2,2)", lambda T=T: register_files.RegisterFile(T, 4, 2, 2)))
    items.append((f"Adder({T.__name__})", lambda T=T: arithmetics.Adder(T)))
    items.append((f"LShifter({T.__name__})", lambda T=T: arithmetics.LShifter(T, 3)))
    items.append((f"ZeroComp({T.__name__})", lambda T=T: arithmetics.ZeroComparator(T)))
  items.append(("Crossbar(3,Bits16)", lambda: crossbars.Crossbar(3, Bits16)))
  items.append(("Encoder(5,3)", lambda: encoders.Encoder(5, 3)))
  try:
    import sys
    from examples.ex02_cksum.ChecksumRTL import ChecksumRTL
    items.append(("ChecksumRTL", lambda: ChecksumRTL()))
  except Exception:
    pass
  rng = sh.rng("stdlib")
  for i, (name, mk) in enumerate(items):
    if i % nparts != part: continue
    try:
      m = mk(); m.elaborate()
    except Exception as e:
      sh.count("stdlib_not_constructible"); continue
    r = judge_text(sh, backend, m, "stdlib:" + name, name, ("stdlib", name), mech_fn, ncyc=40, rng=rng)
    if r: sh.count("stdlib_components_cosimulated"); sh.fp("stdlib", name)


def specgen_stream(sh, backend, n, knobs_fn, mech_fn, tag, count="generated_designs_cosimulated"):
  for case in range(n):
    if sh.only is not None and str(case) != str(sh.only).strip('"'):
      continue
    rng = sh.rng(tag, case)
    kn = dict(TR_KNOBS); kn.update(knobs_fn(rng))
    d = G.generate(rng, kn)
    src = G.emit(d)
    for sk, sv in d.get("stats", {}).items(): sh.count(sk, sv)
    mod = G.load_source(src, "tr")
    try:
      top = getattr(mod, d["top"])(); top.elaborate()
      def mech(kind, w, d=d):
        return mech_fn(kind, w, design=d) if mech_fn else None
      r = judge_text(sh, backend, top, tag, src, (tag, case), mech, ncyc=rng.randrange(12, 30), rng=rng,
                     text_hook=const_struct_hook(sh, d, src, (tag, case)))
      if r:
        sh.count(count); sh.fp(src)
        if case < 1 and tag == "gen":
          sh.sample({"design_source_head": src[:900], "backend": backend})
    except Exception as e:
      sh.inconclusive("harness-exception:" + type(e).__name__); sh.sample({"exc": traceback.format_exc()[-500:]})
    finally:
      G.unload(mod)


HETERO_SRC = """from pymtl3 import *
class HIfc(Interface):
  def construct(s, n):
    s.msg = InPort(n); s.rsp = OutPort(n)
class HPass(Component):
  def construct(s, n, k):
    s.ifc = HIfc(n)
    @update
    def up(): s.ifc.rsp @= s.ifc.msg + k
class HTop(Component):
  def construct(s):
    s.i0 = InPort({w0}); s.i1 = InPort({w1}); s.o0 = OutPort({w0}); s.o1 = OutPort({w1})
    {decl}
    {c0}.msg //= s.i0; {c1}.msg //= s.i1
    s.o0 //= {c0}.rsp; s.o1 //= {c1}.rsp
"""


def hetero_stream(sh, backend, n, mech_fn):
  """a LIST whose elements differ only in the widths of the ports INSIDE their interfaces (sub-components / interfaces of one
  class, other parameter): either the translator refuses the list as an array, or every element keeps its own widths"""
  for case in range(n):
    rng = sh.rng("hetero", case)
    w0, w1 = rng.sample([4, 8, 12, 16, 32], 2)
    decl = f"s.subs = [HPass({w0}, 1), HPass({w1}, 2)]"; c0, c1 = "s.subs[0].ifc", "s.subs[1].ifc"
    src = HETERO_SRC.format(w0=w0, w1=w1, decl=decl, c0=c0, c1=c1)
    before = sh.counters.get("rejected_by_translator", 0)
    r = directed(sh, backend, f"hetero-{case}", src, "HTop", mech_fn)
    sh.count("hetero_list_designs")
    if sh.counters.get("rejected_by_translator", 0) > before: sh.count("hetero_list_designs_refused")


def gen_localname_design(rng):
  """python scoping of local names inside ONE update block: a name is a temporary and (before or after that) the index of a for
  loop, two loops reuse one index name, a temporary is re-assigned between its uses.  All of it is plain python, so the pymtl3
  simulation simply runs it; the emitted text has to compute the same."""
  n = rng.randrange(2, 7); w = rng.choice([4, 8, 16]); iw = max(1, (n - 1).bit_length()) + rng.choice([0, 0, 1])
  nm = rng.choice(["i", "j", "k", "idx", "n"]); op = rng.choice(["+", "^", "-"]); c = rng.randrange(1, 1 << min(w, 6))
  sel = f"s.sel" if iw == max(1, (n - 1).bit_length()) else f"s.sel"
  tmp = [f"{nm} = s.sel", f"s.pick @= s.in_[{nm}]"] if (1 << iw) <= n or iw == (n - 1).bit_length() and (1 << iw) == n else \
        [f"{nm} = s.sel", f"s.pick @= s.in_[0] {op} zext({nm}, {w})" if iw < w else f"s.pick @= s.in_[0] {op} trunc({nm}, {w})" if iw > w else f"s.pick @= s.in_[0] {op} {nm}"]
  loop = [f"for {nm} in range({n}):", f"  s.out[{nm}] @= s.in_[{nm}] {op} {c}"]
  loop2 = [f"for {nm} in range({n - 1}):", f"  s.out2[{nm}] @= s.in_[{nm} + 1] {op} s.in_[{nm}]", f"s.out2[{n - 1}] @= s.in_[0]"]
  retmp = [f"{nm} = s.sel {op} {min(c, (1 << iw) - 1)}", f"s.pick2 @= zext({nm}, {max(w, iw)})" if iw < max(w, iw) else f"s.pick2 @= {nm}"]
  shape = rng.choice(["tmp-then-loop", "loop-then-tmp", "loop-loop", "tmp-loop-tmp", "loop-tmp-loop"])
  body = {"tmp-then-loop": tmp + loop + loop2[-1:] + ["s.pick2 @= 0"] + [f"for q in range({n - 1}): s.out2[q] @= s.in_[q]"],
          "loop-then-tmp": loop + tmp + loop2[-1:] + ["s.pick2 @= 0"] + [f"for q in range({n - 1}): s.out2[q] @= s.in_[q]"],
          "loop-loop": loop + loop2 + ["s.pick @= s.in_[0]", "s.pick2 @= 1"],
          "tmp-loop-tmp": tmp + loop + retmp + loop2[-1:] + [f"for q in range({n - 1}): s.out2[q] @= s.in_[q]"],
          "loop-tmp-loop": loop + tmp + loop2 + ["s.pick2 @= 2"]}[shape]
  L = ["from pymtl3 import *", "class LNTop(Component):", "  def construct(s):",
       f"    s.sel = InPort({iw}); s.in_ = [InPort({w}) for _ in range({n})]",
       f"    s.out = [OutPort({w}) for _ in range({n})]; s.out2 = [OutPort({w}) for _ in range({n})]",
       f"    s.pick = OutPort({w}); s.pick2 = OutPort({max(w, iw)})", "    @update", "    def up():"] + ["      " + x for x in body]
  if rng.random() < 0.4:
    # ... and a module-level global of the very same name exists (left over from a module-level loop): the local name hides it
    L.insert(1, f"{nm} = {rng.choice([0, 1, 2])}"); shape += "+global"
  return "\n".join(L) + "\n", shape


def gen_constuse_design(rng):
  """a Bits constant (module global / closure variable of construct / attribute of the component) read bit-wise with a SIGNAL
  index and sign-extended, and a bitstruct constant of a type that no port or wire has, assigned to a Bits wire"""
  W = rng.choice([2, 4, 8, 16]); W2 = W + rng.choice([1, 4, 8]); iw = (W - 1).bit_length()
  v = rng.choice([rng.getrandbits(W), (1 << W) - 1, 1 << (W - 1), 1]) & ((1 << W) - 1)
  how = rng.choice(["global", "closure", "attr"])
  K = "s.K" if how == "attr" else "K"
  A, B = rng.choice([(4, 4), (8, 8), (3, 5), (1, 7)]); va, vb = rng.getrandbits(A), rng.getrandbits(B)
  # ( CUP is the type of the constant only - no port or wire has it; the struct-typed port is a CUQ )
  L = ["from pymtl3 import *", "@bitstruct", "class CUP:", f"  x: mk_bits({A})", f"  y: mk_bits({B})", "@bitstruct", "class CUQ:", f"  x: mk_bits({A})", f"  y: mk_bits({B})"]
  if how == "global": L.append(f"K = mk_bits({W})({v})")
  L += ["class CUTop(Component):", "  def construct(s):",
        f"    s.i = InPort({iw}); s.a = InPort({W2}); s.o1 = OutPort(1); s.o2 = OutPort({W2}); s.o3 = OutPort({W2}); s.o4 = OutPort({A + B}); s.w = Wire({A + B})"]
  if how == "closure": L.append(f"    K = mk_bits({W})({v})")
  if how == "attr": L.append(f"    s.K = mk_bits({W})({v})")
  L += [f"    d = CUP({va}, {vb})", f"    s.q = InPort(CUQ); s.o5 = OutPort({B})", "    @update", "    def up():"]
  # a struct-typed temporary whose field is read ( t = s.q; .. t.y .. )
  stt = rng.choice([["s.o5 @= s.q.y"], ["t = s.q", "s.o5 @= t.y"], ["t = s.q", f"s.o5 @= t.y + {rng.randrange(1, 1 << B)}"]])
  # ( the extended constant may itself be an operand of a CONSTANT sub-expression, which the translator may fold )
  cx = rng.choice([f"sext({K}, {W2})", f"(sext({K}, {W2}) << 1)", f"(sext({K}, {W2}) | 1)", f"(zext({K}, {W2}) + 1)", f"(sext({K}, {W2}) >> 1)", f"(sext({K}, {W2}) + sext({K}, {W2}))"])
  body = [f"s.o1 @= {K}[s.i]", f"s.o2 @= {cx} + s.a", f"s.o3 @= sext({K}[s.i], {W2}) ^ s.a", "s.w @= d", "s.o4 @= s.w"]
  keep = [b for b in body[:3] if rng.random() < 0.7] or body[:1]
  keep += body[3:] if rng.random() < 0.6 else ["s.w @= 0", "s.o4 @= s.w"]
  for nm_, dflt in (("o1", "0"), ("o2", "s.a"), ("o3", "s.a")):
    if not any(b.startswith(f"s.{nm_} ") for b in keep): keep.append(f"s.{nm_} @= {dflt}")
  L += ["      " + b for b in keep + stt]
  if rng.random() < 0.4:
    # a constant bitstruct with a LIST field, kept like K (global / closure / attribute), one element read with a signal index
    n = 1 << iw
    ev = [rng.getrandbits(4) for _ in range(n)]
    decl = f"KL = CUL([{', '.join(f'Bits4({v_})' for v_ in ev)}], 3)"
    at = L.index("class CUTop(Component):")
    L[at:at] = ["@bitstruct", "class CUL:", f"  arr: [Bits4] * {n}", "  k: Bits4"] + ([decl] if how == "global" else [])
    cons = L.index("  def construct(s):")
    L[cons + 1:cons + 1] = ["    s.o7 = OutPort(4)"] + ([("    " + decl) if how == "closure" else ("    s." + decl)] if how != "global" else [])
    L.append(f"      s.o7 @= {'s.KL' if how == 'attr' else 'KL'}.arr[s.i]")
    how += "+listfield"
  return "\n".join(L) + "\n", how


def constuse_stream(sh, backend, n, mech_fn):
  for case in range(n):
    rng = sh.rng("constuse", case)
    src, how = gen_constuse_design(rng)
    before = sh.counters.get("rejected_by_translator", 0)
    directed(sh, backend, f"constuse-{case}", src, "CUTop", mech_fn)
    if sh.counters.get("rejected_by_translator", 0) > before: sh.count("constant_use_designs_refused")
    else: sh.count("constant_use_designs_cosimulated"); sh.count("constuse:" + how)


def gen_descloop_design(rng):
  """for i in range(hi, lo, -step) with lo in 0..3 and steps up to 5 (the last index visited may be smaller than the step: a loop
  counter that is decremented below zero has to end the loop, not wrap); the elements the loop skips are assigned one by one"""
  n = rng.randrange(3, 10); w = rng.choice([1, 4, 8])
  hi = n - 1; lo = rng.choice([0, 0, 1, 1, 2, 3]); lo = min(lo, hi - 1); st = rng.randrange(1, 6)
  visited = list(range(hi, lo, -st))
  L = ["from pymtl3 import *", "class DLTop(Component):", "  def construct(s):",
       f"    s.in_ = [InPort({w}) for _ in range({n})]; s.out = [OutPort({w}) for _ in range({n})]", "    @update", "    def up():"]
  for j in range(n):
    if j not in visited: L.append(f"      s.out[{j}] @= ~s.in_[{j}]")
  L += [f"      for i in range({hi}, {lo}, -{st}):", "        s.out[i] @= s.in_[i]"]
  return "\n".join(L) + "\n", (hi, lo, st)


def descloop_stream(sh, backend, n, mech_fn):
  for case in range(n):
    rng = sh.rng("descloop", case)
    src, shape = gen_descloop_design(rng)
    before = sh.counters.get("rejected_by_translator", 0)
    directed(sh, backend, f"descloop-{case}", src, "DLTop", mech_fn)
    if sh.counters.get("rejected_by_translator", 0) > before: sh.count("descending_loop_designs_refused")
    else:
      sh.count("descending_loop_designs_cosimulated")
      if shape[1] >= 1 and shape[2] >= 2: sh.count("descending_loops_with_positive_end_and_step_2plus")


def gen_castuse_design(rng):
  """width helpers and casts as OPERANDS: zext / sext / trunc / BitsN( ) to the width the (compound) operand already has, next to an
  operator that binds tighter than the one inside; slices and bit indices applied to the result of a cast or helper; python bools
  kept as component attributes (alone and inside lists) used as conditions and operands"""
  W = rng.choice([4, 8, 8, 13])
  L = ["from pymtl3 import *", "class CUTop(Component):", "  def construct(s):",
       f"    s.a = InPort({W}); s.b = InPort({W}); s.c = InPort({W}); s.sel = InPort(1); s.wide = InPort({W + 5})",
       f"    s.EN = {rng.choice([True, False])}; s.FLAGS = [{rng.choice([True, False])}, {rng.choice([True, False])}, True]"]
  n = rng.randrange(2, 6)
  L.append(f"    s.o = [OutPort({W}) for _ in range({n})]")
  L += ["    @update", "    def up():"]
  shapes = []
  cast = f"Bits{W}" 
  for j in range(n):
    k = rng.choice(["noop-helper", "noop-helper", "noop-cast", "slice-of-cast", "bool-attr"])
    inner = rng.choice(["s.a + s.b", "s.a | s.b", "s.a - s.b", "s.a ^ s.b", "(s.a if s.sel else s.b)", "~s.a", "s.a & s.b"])
    if k in ("noop-helper", "noop-cast"):
      f = rng.choice(["zext", "sext", "trunc"])
      x = f"{f}({inner}, {W})" if k == "noop-helper" else f"{cast}({inner})"
      e = rng.choice([f"{x} * s.c", f"s.c - {x}", f"{x} & s.c", f"s.c * {x}", f"~{x}", f"{x} << 1", f"s.c + {x}", f"{x} - s.c",
                      f"zext(reduce_xor({x}), {W})" if W > 1 else x, f"{x} if s.sel else s.c"])
    elif k == "slice-of-cast":
      lo = rng.randrange(0, 3); hi = min(W, lo + rng.randrange(1, 4))
      src = rng.choice([f"trunc(s.wide, {W})", f"zext(s.a, {W + 4})", f"sext(s.a, {W + 4})", f"{cast}(s.a)", f"trunc({inner}, {W})", f"zext({inner}, {W})"])
      sel = f"[{lo}:{hi}]" if rng.random() < 0.7 else f"[{lo}]"
      e = f"zext({src}{sel}, {W})" if rng.random() < 0.7 or sel.count(":") == 0 else f"sext({src}{sel}, {W})"
    else:
      flag = rng.choice(["s.EN", "s.FLAGS[0]", "s.FLAGS[1]"])
      e = rng.choice([f"s.a if {flag} else s.b", f"(s.a if {flag} else s.b) + s.c", f"s.a & sext(Bits1({flag}), {W})" ])
    L.append(f"      s.o[{j}] @= {e}")
    shapes.append(k)
  return "\n".join(L) + "\n", "+".join(sorted(set(shapes)))


def castuse_stream(sh, backend, n, mech_fn):
  for case in range(n):
    rng = sh.rng("castuse", case)
    src, shape = gen_castuse_design(rng)
    before = sh.counters.get("rejected_by_translator", 0)
    directed(sh, backend, f"castuse-{case}", src, "CUTop", mech_fn)
    if sh.counters.get("rejected_by_translator", 0) > before: sh.count("castuse_designs_refused")
    else: sh.count("castuse_designs_cosimulated")
    for k in shape.split("+"): sh.count("castuse:" + k)


def gen_feedback_design(rng):
  """a parent that wires an output of a child back to an input of the SAME child (an accumulator closed outside the component), in
  either spelling of the connect statement, whole or by halves, for a single child or the elements of a list; beside it the same
  ring closed between two DIFFERENT children.  Either the translator refuses the design, or the text is right"""
  W = rng.choice([4, 8])
  n = rng.randrange(1, 4)
  lst = rng.random() < 0.5
  how = rng.choice(["writer-first", "reader-first", "connect-writer-first", "connect-reader-first"])
  halves = rng.random() < 0.3
  same = rng.random() < 0.75
  L = ["from pymtl3 import *", "class FAcc(Component):", "  def construct(s):",
       f"    s.in_ = InPort({W}); s.fb = InPort({W}); s.out = OutPort({W}); s.r = Wire({W})",
       "    @update_ff", "    def ff():", "      if s.reset: s.r <<= 0", "      else: s.r <<= s.in_ + s.fb", "    s.out //= s.r",
       "class FBTop(Component):", "  def construct(s):", f"    s.in_ = InPort({W}); s.out = [OutPort({W}) for _ in range({n})]"]
  L.append(f"    s.acc = [FAcc() for _ in range({n})]" if lst else "\n".join(f"    s.acc{i} = FAcc()" for i in range(n)))
  for i in range(n):
    c = f"s.acc[{i}]" if lst else f"s.acc{i}"
    d = c if same else (f"s.acc[{(i + 1) % n}]" if lst else f"s.acc{(i + 1) % n}")          # the child whose output feeds c.fb
    L.append(f"    {c}.in_ //= s.in_")
    parts = [("", "")] if not halves else [(f"[0:{W // 2}]", f"[0:{W // 2}]"), (f"[{W // 2}:{W}]", f"[{W // 2}:{W}]")]
    for (a, b) in parts:
      wr, rd = f"{d}.out{a}", f"{c}.fb{b}"
      L.append({"writer-first": f"    {wr} //= {rd}", "reader-first": f"    {rd} //= {wr}", "connect-writer-first": f"    connect({wr}, {rd})",
                "connect-reader-first": f"    connect({rd}, {wr})"}[how])
    L.append(f"    s.out[{i}] //= {c}.out")
  return "\n".join(L) + "\n", ("same-child" if same or n == 1 else "ring-of-siblings") + ":" + how


def feedback_stream(sh, backend, n, mech_fn):
  for case in range(n):
    rng = sh.rng("feedback", case)
    src, shape = gen_feedback_design(rng)
    before = sh.counters.get("rejected_by_translator", 0)
    directed(sh, backend, f"feedback-{case}", src, "FBTop", mech_fn)
    if sh.counters.get("rejected_by_translator", 0) > before: sh.count("feedback_designs_refused"); sh.count("feedback_refused:" + shape.split(":")[0])
    else: sh.count("feedback_designs_cosimulated"); sh.count("feedback:" + shape.split(":")[0])


def gen_consttbl_design(rng, backend="ys"):
  """a LIST of constant bitstructs (and a constant bitstruct with a list-of-struct field) kept as a component attribute, one field
  of one entry read with a constant index, a loop variable or a SIGNAL index.  The translator may refuse the non-constant forms;
  what it accepts has to select the entry the simulation selects"""
  A, B = rng.choice([(4, 8), (2, 6), (8, 8)])
  n = rng.choice([2, 2, 4])
  vals = [(rng.getrandbits(A), rng.getrandbits(B)) for _ in range(n)]
  if len({v[1] for v in vals}) == 1: vals[-1] = (vals[-1][0], vals[-1][1] ^ 1)          # entries differ in the field that is read
  iw = (n - 1).bit_length()
  how = rng.choice(["signal", "signal", "loopvar", "constant", "nested-signal"])
  # ( my SV reader has no packed arrays of struct type as struct members: the nested form is exercised through the Yosys back end only )
  if backend == "sv" and how == "nested-signal": how = "signal"
  L = ["from pymtl3 import *", "@bitstruct", "class CTE:", f"  a: mk_bits({A})", f"  b: mk_bits({B})",
       "@bitstruct", "class CTW:", "  k: mk_bits(4)", f"  y: [CTE] * {n}",
       "class CTTop(Component):", "  def construct(s):", f"    s.sel = InPort({iw}); s.out = OutPort({B}); s.acc = OutPort({B})",
       "    s.TBL = [" + ", ".join(f"CTE({a}, {b})" for a, b in vals) + "]",
       "    s.CW = CTW(3, [" + ", ".join(f"CTE({a}, {b})" for a, b in vals) + "])",
       "    @update", "    def up():"]
  if how == "signal": L += ["      s.out @= s.TBL[s.sel].b", "      s.acc @= 0"]
  elif how == "nested-signal": L += ["      s.out @= s.CW.y[s.sel].b", "      s.acc @= 0"]
  elif how == "constant": L += [f"      s.out @= s.TBL[{rng.randrange(n)}].b", f"      s.acc @= s.CW.y[{rng.randrange(n)}].b"]
  else: L += ["      s.out @= 0", "      s.acc @= 0", f"      for i in range({n}):", "        s.acc @= s.acc + s.TBL[i].b"]
  return "\n".join(L) + "\n", how


def consttbl_stream(sh, backend, n, mech_fn):
  for case in range(n):
    rng = sh.rng("consttbl", case)
    src, how = gen_consttbl_design(rng, backend)
    before = sh.counters.get("rejected_by_translator", 0)
    directed(sh, backend, f"consttbl-{case}", src, "CTTop", mech_fn)
    if sh.counters.get("rejected_by_translator", 0) > before: sh.count("constant_table_designs_refused"); sh.count("consttbl_refused:" + how)
    else: sh.count("constant_table_designs_cosimulated"); sh.count("consttbl:" + how)


def gen_liststruct_design(rng):
  """struct ports three levels deep: a struct with a LIST field whose elements are structs (and a 2-D list of Bits beside it), as
  input and output port, single and in a port array, the leaves connected / computed one by one"""
  n = rng.randrange(2, 4); wr, wg = rng.choice([(5, 5), (3, 8), (1, 4)])
  arr = rng.random() < 0.4
  L = ["from pymtl3 import *", "@bitstruct", "class LSPix:", f"  r: mk_bits({wr})", f"  g: mk_bits({wg})",
       "@bitstruct", "class LSLine:", f"  px: [LSPix] * {n}", "  k: Bits4", f"  m: [[Bits2] * 2] * 2",
       "class LSTop(Component):", "  def construct(s):"]
  if arr: L.append("    s.in_ = [InPort(LSLine) for _ in range(2)]; s.out = [OutPort(LSLine) for _ in range(2)]")
  else: L.append("    s.in_ = InPort(LSLine); s.out = OutPort(LSLine)")
  L.append(f"    s.sum = OutPort({max(wr, wg) + 2})")
  i_ = "s.in_[1]" if arr else "s.in_"; o_ = "s.out[1]" if arr else "s.out"
  if arr: L.append("    s.out[0] //= s.in_[0]")
  how = rng.choice(["connect-whole", "block-whole", "block-leaves"])
  if how == "connect-whole": L.append(f"    {o_} //= {i_}")
  elif how == "block-whole": L += ["    @update", "    def up_copy():", f"      {o_} @= {i_}"]
  else:
    L += ["    @update", "    def up_copy():"] + [f"      {o_}.px[{j}].r @= {i_}.px[{n - 1 - j}].r" for j in range(n)] + [f"      {o_}.px[{j}].g @= {i_}.px[{j}].g" for j in range(n)] + \
         [f"      {o_}.k @= {i_}.k + 1"] + [f"      {o_}.m[{a}][{b}] @= {i_}.m[{b}][{a}]" for a in range(2) for b in range(2)]
  L += ["    @update", "    def up_sum():", f"      s.sum @= zext({i_}.px[0].r, {max(wr, wg) + 2}) + zext({i_}.px[{n - 1}].g, {max(wr, wg) + 2})"]
  return "\n".join(L) + "\n", how + (":array" if arr else "")


def liststruct_stream(sh, backend, n, mech_fn):
  for case in range(n):
    rng = sh.rng("liststruct", case)
    src, how = gen_liststruct_design(rng)
    before = sh.counters.get("rejected_by_translator", 0)
    directed(sh, backend, f"liststruct-{case}", src, "LSTop", mech_fn)
    if sh.counters.get("rejected_by_translator", 0) > before: sh.count("list_of_struct_port_designs_refused")
    else: sh.count("list_of_struct_port_designs_cosimulated"); sh.count("liststruct:" + how)


def gen_wrapstruct_design(rng):
  """a struct that WRAPS another one and is exactly as wide (its only field is the inner struct), class names in either
  alphabetical order, as port type; beside it a wrapper with a second field.  The text has to define every type before it uses it"""
  wn, inn = rng.choice([("AEnv", "ZPay"), ("ZEnv", "APay"), ("Env", "Env_body"), ("M", "N")])
  two = rng.random() < 0.3
  L = ["from pymtl3 import *", "@bitstruct", f"class {inn}:", "  hi: Bits4", "  lo: Bits4",
       "@bitstruct", f"class {wn}:", f"  body: {inn}"] + (["  tag: Bits2"] if two else []) + \
      ["class WSTop(Component):", "  def construct(s):", f"    s.in_ = InPort({wn}); s.out = OutPort({wn}); s.lo = OutPort(4)"]
  how = rng.choice(["connect", "block"])
  if how == "connect": L += ["    s.out //= s.in_", "    s.lo //= s.in_.body.lo"]
  else: L += ["    @update", "    def up():", "      s.out @= s.in_", "      s.lo @= s.in_.body.lo"]
  return "\n".join(L) + "\n", ("two-fields" if two else "one-field") + ":" + ("wrapper-sorts-first" if wn < inn else "inner-sorts-first")


def wrapstruct_stream(sh, backend, n, mech_fn):
  for case in range(n):
    rng = sh.rng("wrapstruct", case)
    src, how = gen_wrapstruct_design(rng)
    before = sh.counters.get("rejected_by_translator", 0)
    directed(sh, backend, f"wrapstruct-{case}", src, "WSTop", mech_fn)
    if sh.counters.get("rejected_by_translator", 0) > before: sh.count("wrapper_struct_designs_refused")
    else: sh.count("wrapper_struct_designs_cosimulated"); sh.count("wrapstruct:" + how)


def gen_ifcportlist_design(rng):
  """an interface that is NOT in a list and holds LISTS of plain vector ports (and a scalar member beside them), alone or next to a
  list of such interfaces; the blocks read and write the port lists element by element and in a loop"""
  n = rng.randrange(2, 4); w = rng.choice([1, 4, 8])
  also_list = rng.random() < 0.4
  L = ["from pymtl3 import *", "class PLIfc(Interface):", "  def construct(s):",
       f"    s.data = [InPort({w}) for _ in range({n})]; s.res = [OutPort({w}) for _ in range({n})]; s.en = InPort(1)",
       "class PLTop(Component):", "  def construct(s):", "    s.bus = PLIfc()"]
  if also_list: L.append("    s.more = [PLIfc() for _ in range(2)]")
  how = rng.choice(["loop", "each", "connect"])
  if how == "connect":
    L += [f"    s.bus.res[{i}] //= s.bus.data[{(i + 1) % n}]" for i in range(n)]
  else:
    L += ["    @update", "    def up_bus():"]
    if how == "loop": L += [f"      for i in range({n}):", "        s.bus.res[i] @= s.bus.data[i] + 1 if s.bus.en else s.bus.data[i]"]
    else: L += [f"      s.bus.res[{i}] @= s.bus.data[{n - 1 - i}] ^ {i + 1 & ((1 << w) - 1)}" for i in range(n)]
  if also_list:
    L += ["    @update", "    def up_more():", "      for k in range(2):", f"        for i in range({n}):", "          s.more[k].res[i] @= s.more[k].data[i] & s.bus.data[0]"]
  return "\n".join(L) + "\n", how + (":with-ifc-list" if also_list else "")


def ifcportlist_stream(sh, backend, n, mech_fn):
  for case in range(n):
    rng = sh.rng("ifcportlist", case)
    src, how = gen_ifcportlist_design(rng)
    before = sh.counters.get("rejected_by_translator", 0)
    directed(sh, backend, f"ifcportlist-{case}", src, "PLTop", mech_fn)
    if sh.counters.get("rejected_by_translator", 0) > before: sh.count("ifc_port_list_designs_refused")
    else: sh.count("ifc_port_list_designs_cosimulated"); sh.count("ifcportlist:" + how)


def gen_childportlist_design(rng):
  """a LIST of children whose ports are lists (1-D or 2-D); the parent's connections address child-list element, port-list element
  and then a part select / bit select on top: every child and every port computes something else, so that an index that lands in
  the wrong bracket shows"""
  nc = rng.randrange(2, 4); np_ = rng.randrange(2, 4); two_d = rng.random() < 0.35
  L = ["from pymtl3 import *", "class CPLeaf(Component):", "  def construct(s):"]
  if two_d:
    L.append(f"    s.in_ = [[InPort(8) for _ in range(2)] for _ in range({np_})]; s.out = [[OutPort(8) for _ in range(2)] for _ in range({np_})]")
    L += ["    @update", "    def up():"] + [f"      s.out[{j}][{k}] @= s.in_[{j}][{k}] ^ {(17 * j + 5 * k + 3) & 255}" for j in range(np_) for k in range(2)]
  else:
    L.append(f"    s.in_ = [InPort(8) for _ in range({np_})]; s.out = [OutPort(8) for _ in range({np_})]")
    L += ["    @update", "    def up():"] + [f"      s.out[{j}] @= s.in_[{j}] ^ {(17 * j + 3) & 255}" for j in range(np_)]
  L += ["class CPTop(Component):", "  def construct(s):", f"    s.a = InPort(8); s.b = InPort(8); s.sub = [CPLeaf() for _ in range({nc})]"]
  conns = []; outs = []
  ports = [(c, j, k) for c in range(nc) for j in range(np_) for k in (range(2) if two_d else [None])]
  for c, j, k in ports:
    ref = f"s.sub[{c}].in_[{j}]" + (f"[{k}]" if k is not None else "")
    src_ = rng.choice(["s.a", "s.b"])
    h = rng.choice(["whole", "halves", "halves", "bits"])
    if h == "whole": conns.append(f"    {ref} //= {src_}")
    elif h == "halves":
      cut = rng.randrange(1, 8)
      conns += [f"    {ref}[0:{cut}] //= {src_}[0:{cut}]", f"    {ref}[{cut}:8] //= s.a[{cut}:8]"]
    else:
      conns += [f"    {ref}[0:7] //= {src_}[1:8]", f"    {ref}[7] //= s.b[{(c + j) % 8}]"]
  for n_, (c, j, k) in enumerate(rng.sample(ports, min(len(ports), rng.randrange(2, 6)))):
    ref = f"s.sub[{c}].out[{j}]" + (f"[{k}]" if k is not None else "")
    h = rng.choice(["whole", "slice", "slice", "bit"])
    if h == "whole": outs.append((n_, 8, ref))
    elif h == "slice":
      lo = rng.randrange(0, 7); hi = rng.randrange(lo + 1, 9); outs.append((n_, hi - lo, f"{ref}[{lo}:{hi}]"))
    else: outs.append((n_, 1, f"{ref}[{rng.randrange(8)}]"))
  for n_, w, ref in outs: L.append(f"    s.o{n_} = OutPort({w})")
  body = conns + [f"    s.o{n_} //= {ref}" for n_, w, ref in outs]
  rng.shuffle(body)
  return "\n".join(L + body) + "\n", ("2d" if two_d else "1d")


def childportlist_stream(sh, backend, n, mech_fn):
  for case in range(n):
    rng = sh.rng("childportlist", case)
    src, how = gen_childportlist_design(rng)
    before = sh.counters.get("rejected_by_translator", 0)
    directed(sh, backend, f"childportlist-{case}", src, "CPTop", mech_fn)
    if sh.counters.get("rejected_by_translator", 0) > before: sh.count("child_port_list_designs_refused")
    else: sh.count("child_port_list_designs_cosimulated"); sh.count("childportlist:" + how)


def gen_conststructconn_design(rng):
  """an output port of struct type tied to a CONSTANT struct value by a connection - the struct has a list field whose elements
  are structs, a list of vectors, a nested struct - among other plain connections before and after it"""
  n = rng.randrange(2, 4)
  shape = rng.choice(["list-of-struct", "list-of-struct", "list-of-bits", "nested"])
  L = ["from pymtl3 import *", "@bitstruct", "class CCPt:", "  x: Bits4", "  y: Bits4", "@bitstruct", "class CCMsg:", "  tag: Bits8"]
  if shape == "list-of-struct": L.append(f"  pts: [CCPt] * {n}"); val = "CCMsg({t}, [" + ", ".join("CCPt({}, {})".format(rng.getrandbits(4), rng.getrandbits(4)) for _ in range(n)) + "])"
  elif shape == "list-of-bits": L.append(f"  pts: [Bits4] * {n}"); val = "CCMsg({t}, [" + ", ".join(f"Bits4({rng.getrandbits(4)})" for _ in range(n)) + "])"
  else: L.append("  pts: CCPt"); val = "CCMsg({t}, CCPt(" + f"{rng.getrandbits(4)}, {rng.getrandbits(4)}" + "))"
  val = val.format(t=rng.getrandbits(8))
  L += ["class CCTop(Component):", "  def construct(s):", "    s.in1 = InPort(8); s.in2 = InPort(8); s.in3 = InPort(4)",
        "    s.out = OutPort(CCMsg); s.out1 = OutPort(8); s.out2 = OutPort(8); s.out3 = OutPort(4)"]
  body = [f"    s.out //= {val}", "    s.out1 //= s.in1", "    s.out2 //= s.in2", "    s.out3 //= s.in3"]
  if rng.random() < 0.5: body = body[1:2] + body[0:1] + body[2:]
  if rng.random() < 0.3: rng.shuffle(body)
  return "\n".join(L + body) + "\n", shape


def conststructconn_stream(sh, backend, n, mech_fn):
  for case in range(n):
    rng = sh.rng("conststructconn", case)
    src, how = gen_conststructconn_design(rng)
    before = sh.counters.get("rejected_by_translator", 0)
    directed(sh, backend, f"conststructconn-{case}", src, "CCTop", mech_fn)
    if sh.counters.get("rejected_by_translator", 0) > before: sh.count("const_struct_connection_designs_refused")
    else: sh.count("const_struct_connection_designs_cosimulated"); sh.count("conststructconn:" + how)


def structtmp_stream(sh, backend, n, mech_fn):
  """a struct-typed TEMPORARY whose field is read ( t = s.q; .. t.y .. ), alone in a small design (in the constuse designs the
  statement shares its block with constant selects that one back end refuses, which hid a re-introduced F-Y9)"""
  for case in range(n):
    rng = sh.rng("structtmp", case)
    A, B = rng.choice([(4, 4), (8, 8), (3, 5), (1, 7)])
    stt = rng.choice([["t = s.q", "s.o5 @= t.y"], ["t = s.q", f"s.o5 @= t.y + {rng.randrange(1, 1 << B)}"], ["t = s.q", "u = t", "s.o5 @= u.y ^ s.q.y"], ["s.o5 @= s.q.y"]])
    src = "\n".join(["from pymtl3 import *", "@bitstruct", "class STQ:", f"  x: mk_bits({A})", f"  y: mk_bits({B})", "class STTop(Component):", "  def construct(s):",
                     f"    s.q = InPort(STQ); s.o5 = OutPort({B}); s.o6 = OutPort({A})", "    @update", "    def up():"] + ["      " + b for b in stt] + ["      s.o6 @= s.q.x"]) + "\n"
    before = sh.counters.get("rejected_by_translator", 0)
    directed(sh, backend, f"structtmp-{case}", src, "STTop", mech_fn)
    if sh.counters.get("rejected_by_translator", 0) > before: sh.count("struct_temporary_designs_refused")
    else: sh.count("struct_temporary_designs_cosimulated")
    sh.count("struct_temporary_designs")


def localname_stream(sh, backend, n, mech_fn):
  for case in range(n):
    rng = sh.rng("localname", case)
    src, shape = gen_localname_design(rng)
    before = sh.counters.get("rejected_by_translator", 0)
    directed(sh, backend, f"localname-{case}", src, "LNTop", mech_fn)
    if sh.counters.get("rejected_by_translator", 0) > before: sh.count("localname_designs_refused"); sh.count("localname_refused:" + shape)
    else: sh.count("localname_designs_cosimulated"); sh.count("localname:" + shape)


def directed(sh, backend, name, src, topname, mech_fn, ncyc=12):
  mod = G.load_source(src, "dir")
  try:
    top = getattr(mod, topname)(); top.elaborate()
    return judge_text(sh, backend, top, "probe:" + name, src, ("probe", name), mech_fn, ncyc=ncyc, rng=sh.rng("probe", name), count_key="probe_designs")
  finally:
    G.unload(mod)


def gen_param_hierarchy(rng):
  """source of a two-level hierarchy of ONE parameterised leaf class whose every construct parameter changes its behaviour;
  the instances use varied call shapes (defaults left out, positional / keyword overrides) and values taken from the pool of
  default values, so that a module name / module cache that mis-reports a parameter makes two different instances share one module"""
  nd = rng.randrange(2, 5)
  defaults = rng.sample(range(0, 8), nd)
  pnames = ["pa", "pb", "pc", "pd"][:nd]
  w = rng.choice([4, 8, 16])
  L = ["from pymtl3 import *", "class PLeaf(Component):",
       "  def construct(s, T, " + ", ".join(f"{n}={d}" for n, d in zip(pnames, defaults)) + "):",
       "    s.i = InPort(T); s.o = OutPort(T)"]
  terms = []
  # every parameter reaches the update block as a constant, in one of four ways: a closure variable, an int attribute of
  # the component, a Bits attribute, or an element of a list attribute (constants read through `s.` are extracted per instance)
  how = [rng.choice(["closure", "attr", "bitsattr", "listattr"]) for _ in pnames]
  L.append("    s.kl = [" + ", ".join(f"T(int({n}) & 7)" for n in pnames) + "]")
  kx = []
  for k, n in enumerate(pnames):
    if how[k] == "closure": L.append(f"    K{k} = int({n}) & 7"); kx.append(f"K{k}")
    elif how[k] == "attr": L.append(f"    s.k{k} = int({n}) & 7"); kx.append(f"s.k{k}")
    elif how[k] == "bitsattr": L.append(f"    s.k{k} = T(int({n}) & 7)"); kx.append(f"s.k{k}")
    else: kx.append(f"s.kl[{k}]")
  L += ["    @update", "    def up():"]
  expr = "s.i"
  for k in range(nd):
    expr = f"(({expr} + {kx[k]}) ^ {k + 1})" if k % 2 == 0 else f"(({expr} ^ {kx[k]}) + {k + 1})"
  L.append(f"      s.o @= {expr}")
  pool = sorted(set(defaults) | {0, 1, rng.randrange(8)} | ({-1, -2} if rng.random() < 0.4 else set()))      # hash(-1) == hash(-2)
  ninst = rng.randrange(2, 7)
  calls = []; npos_of = []
  for _ in range(ninst):
    npos = rng.randrange(0, nd + 1)
    args = [str(rng.choice(pool)) for _ in range(npos)]
    for n in pnames[npos:]:
      if rng.random() < 0.4:
        args.append(f"{n}={rng.choice(pool)}")
    if rng.random() < 0.3: rng.shuffle(args[npos:]) if False else None
    calls.append("PLeaf(T" + "".join(", " + a for a in args) + ")")
    npos_of.append(npos)
  half = max(1, ninst // 2)
  if ninst >= 2 and rng.random() < 0.3:
    # two elements of ONE list whose parameter tuples differ and have the same python hash ( hash(-1) == hash(-2),
    # hash(0) == hash(2**61 - 1) ): a name / module cache keyed by a hash-and-interface comparison merges them
    lo, hi = (0, half) if half >= 2 else (half, ninst)
    if hi - lo >= 2:
      a, b = rng.sample(range(lo, hi), 2)
      j = rng.randrange(nd)
      base = [rng.choice(pool) for _ in range(nd)]
      x, y = rng.choice([(-1, -2), (-2, -1), (0, 2305843009213693951), (2305843009213693951, 0)])
      for inst, v in ((a, x), (b, y)):
        args = list(base); args[j] = v
        calls[inst] = "PLeaf(T" + "".join(f", {q}" for q in args) + ")"; npos_of[inst] = nd
      L.insert(1, 'HASHTWIN = True')
  L += ["class PMid(Component):", "  def construct(s, T, sel):", "    s.i = InPort(T)"]
  L += [f"    s.o = [OutPort(T) for _ in range({ninst})]", "    if sel == 0:"]
  L.append("      s.l = [" + ", ".join(calls[:half]) + "]")
  L.append("    else:")
  L.append("      s.l = [" + ", ".join(calls[half:] or calls[:1]) + "]")
  L += ["    for k in range(len(s.l)):", "      s.l[k].i //= s.i", "      s.o[k] //= s.l[k].o",
        "    for k in range(len(s.l), len(s.o)):", "      s.o[k] //= 0"]
  L += ["class PTop(Component):", "  def construct(s):", f"    T = mk_bits({w})", "    s.i = InPort(T)",
        f"    s.o = [OutPort(T) for _ in range({2 * ninst})]", "    s.m0 = PMid(T, 0); s.m1 = PMid(T, 1)",
        "    s.m0.i //= s.i; s.m1.i //= s.i",
        f"    for k in range({ninst}):", "      s.o[k] //= s.m0.o[k]", f"      s.o[{ninst} + k] //= s.m1.o[k]"]
  # set_param overrides (applied by the harness before elaboration) of parameters the call does not pass positionally
  groups = [list(range(0, half)), list(range(half, ninst)) or [0]]
  setp = []
  for mi, g in enumerate(groups):
    for k, inst in enumerate(g):
      free = pnames[npos_of[inst]:]
      if free and rng.random() < 0.35:
        chosen = rng.sample(free, rng.randrange(1, len(free) + 1))
        setp.append((f"top.m{mi}.l[{k}].construct", {n: rng.choice(pool) for n in chosen}))
  L.append("SETP = " + repr(setp))
  return "\n".join(L) + "\n"


def param_stream(sh, backend, n, mech_fn, tag="param"):
  for case in range(n):
    rng = sh.rng(tag, case)
    src = gen_param_hierarchy(rng)
    mod = G.load_source(src, "par")
    try:
      top = mod.PTop()
      for path, kw in mod.SETP:
        top.set_param(path, **kw); sh.count("set_param_overrides")
      if getattr(mod, "HASHTWIN", False): sh.count("param_designs_with_hash_colliding_siblings")
      top.elaborate()
      r = judge_text(sh, backend, top, tag, src, (tag, case), mech_fn, ncyc=8, rng=rng, count_key="param_designs_cosimulated")
      if case < 1 and sh.idx == 0:
        sh.sample({"param_hierarchy_source": src[:1200]})
    except Exception as e:
      sh.inconclusive("param-stream-harness:" + type(e).__name__)
    finally:
      G.unload(mod)


def gen_ifc_design(rng):
  """source of a hierarchy with multi-dimensional arrays of interfaces (whose ports may be arrays themselves) and of
  sub-components; every element is used with its own constant so that any index permutation changes an output"""
  import itertools
  w = rng.choice([4, 8, 16])
  idims = rng.choice([[2], [3], [2, 3], [3, 2], [2, 2], [1, 3]])
  pdim = rng.choice([0, 0, 2, 3])                    # the interface's msg port is itself an array of pdim elements
  cdims = rng.choice([[], [], [2], [2, 2], [1, 3], [3, 1]])
  def nest(txt, dims):
    for n in reversed(dims): txt = f"[{txt} for _ in range({n})]"
    return txt
  def idxs(dims): return list(itertools.product(*[range(n) for n in dims]))
  def sub(ix): return "".join(f"[{i}]" for i in ix)
  L = ["from pymtl3 import *", "class XIfc(Interface):", "  def construct(s, T):",
       f"    s.msg = {nest('InPort(T)', [pdim] if pdim else [])}", "    s.val = OutPort(T)"]
  L += ["class XLeaf(Component):", "  def construct(s, T, K):", f"    s.ifc = {nest('XIfc(T)', idims)}", "    @update", "    def up():"]
  n = 0
  for ix in idxs(idims):
    n += 1
    if pdim:
      terms = " + ".join(f"(s.ifc{sub(ix)}.msg[{k}] ^ {(n * 7 + k * 3) % (1 << w)})" for k in range(pdim))
    else:
      terms = f"(s.ifc{sub(ix)}.msg ^ {(n * 7) % (1 << w)})"
    L.append(f"      s.ifc{sub(ix)}.val @= {terms} + K")
  # the leaf also has plain multi-dimensional port lists that the parent reads and writes inside an update block
  ppd = rng.choice([[2], [2, 3], [3, 2], [2, 2]])
  L.insert(L.index("    @update"), f"    s.pin = {nest('InPort(T)', ppd)}; s.pout = {nest('OutPort(T)', ppd)}")
  for q, px in enumerate(idxs(ppd)):
    L.append(f"      s.pout{sub(px)} @= s.pin{sub(px)} ^ {(q * 5 + 3) % (1 << w)}")
  L += ["class XTop(Component):", "  def construct(s):", f"    T = mk_bits({w})", f"    s.ifc = {nest('XIfc(T)', idims)}", "    s.px = InPort(T)",
        f"    s.paux = {nest('OutPort(T)', (cdims or []) + ppd)}"]
  pblk = []
  for cx in (idxs(cdims) if cdims else [()]):
    for q, px in enumerate(idxs(ppd)):
      pblk.append(f"      s.leaf{sub(cx)}.pin{sub(px)} @= s.px + {(len(pblk) * 3 + 1) % (1 << w)}")
      pblk.append(f"      s.paux{sub(cx)}{sub(px)} @= s.leaf{sub(cx)}.pout{sub(px)}")
  if cdims:
    L.append("    s.leaf = " + nest("XLeaf(T, 1)", cdims).replace("XLeaf(T, 1)", "XLeaf(T, 1)"))
    L.append(f"    s.aux = {nest('OutPort(T)', cdims + idims)}")
  else:
    L.append("    s.leaf = XLeaf(T, 2)")
  first = True
  behavioural = rng.random() < 0.5
  blk = []
  for cx in (idxs(cdims) if cdims else [()]):
    for ix in idxs(idims):
      leaf = f"s.leaf{sub(cx)}.ifc{sub(ix)}"
      for k in (range(pdim) if pdim else [None]):
        ps = "" if k is None else f"[{k}]"
        L.append(f"    {leaf}.msg{ps} //= s.ifc{sub(ix)}.msg{ps}")
      if first:
        L.append(f"    s.ifc{sub(ix)}.val //= {leaf}.val")
      if cdims:
        if behavioural:
          blk.append(f"      s.aux{sub(cx)}{sub(ix)} @= {leaf}.val + {len(blk) % 5}")      # the same element read inside an update block
        else:
          L.append(f"    s.aux{sub(cx)}{sub(ix)} //= {leaf}.val")
    first = False
  if blk:
    L += ["    @update", "    def up_aux():"] + blk
  L += ["    @update", "    def up_pin():"] + [x for x in pblk if ".pin" in x.split("@=")[0]]
  L += ["    @update", "    def up_paux():"] + [x for x in pblk if ".paux" in x.split("@=")[0] or "s.paux" in x.split("@=")[0]]
  return "\n".join(L) + "\n"


def gen_nested_ifc_design(rng):
  """a sub-component whose ports are a LIST of interfaces each holding a LIST of nested interfaces (A outer x B inner, A != B most
  of the time); every (a, b) element carries its own constant, the parent wires each element to its own top-level ports"""
  w = rng.choice([4, 8, 16])
  A, B = rng.choice([(2, 3), (3, 2), (1, 3), (3, 1), (2, 2), (1, 2), (2, 1)])
  L = ["from pymtl3 import *", "class NInner(Interface):", "  def construct(s, T):", "    s.msg = InPort(T); s.rsp = OutPort(T)",
       "class NOuter(Interface):", "  def construct(s, T, B):", "    s.sub = [NInner(T) for _ in range(B)]; s.tag = InPort(T)",
       "class NLeaf(Component):", "  def construct(s, T, A, B, K):", "    s.ifc = [NOuter(T, B) for _ in range(A)]", "    @update", "    def up():"]
  for a in range(A):
    for b in range(B):
      L.append(f"      s.ifc[{a}].sub[{b}].rsp @= (s.ifc[{a}].sub[{b}].msg ^ {(a * 5 + b * 3 + 1) % (1 << w)}) + s.ifc[{a}].tag + K")
  pick = A == 2 and rng.random() < 0.7
  if pick:
    # the OUTER list is indexed by an element of a PORT ARRAY while the inner list has an index of its own
    i0 = L.index("    @update")
    L.insert(i0, "    s.sel = [InPort(1) for _ in range(2)]; s.pick = OutPort(T)")
    L.append(f"      s.pick @= s.ifc[ s.sel[1] ].sub[{rng.randrange(B)}].msg")
  L += ["class NTop(Component):", "  def construct(s):", f"    T = mk_bits({w})", f"    s.leaf = NLeaf(T, {A}, {B}, {rng.randrange(1, 4)})",
        f"    s.msg = [[InPort(T) for _ in range({B})] for _ in range({A})]; s.rsp = [[OutPort(T) for _ in range({B})] for _ in range({A})]",
        f"    s.tag = [InPort(T) for _ in range({A})]"]
  for a in range(A):
    L.append(f"    s.leaf.ifc[{a}].tag //= s.tag[{a}]")
    for b in range(B):
      L.append(f"    s.leaf.ifc[{a}].sub[{b}].msg //= s.msg[{a}][{b}]")
      L.append(f"    s.rsp[{a}][{b}] //= s.leaf.ifc[{a}].sub[{b}].rsp")
  if pick:
    L += ["    s.sel = [InPort(1) for _ in range(2)]; s.pick = OutPort(T)", "    s.leaf.sel[0] //= s.sel[0]; s.leaf.sel[1] //= s.sel[1]; s.pick //= s.leaf.pick"]
  return "\n".join(L) + "\n"


def nested_ifc_stream(sh, backend, n, mech_fn, tag="nested-ifc"):
  for case in range(n):
    rng = sh.rng(tag, case)
    src = gen_nested_ifc_design(rng)
    mod = G.load_source(src, "nifc")
    try:
      top = mod.NTop(); top.elaborate()
      judge_text(sh, backend, top, tag, src, (tag, case), mech_fn, ncyc=6, rng=rng, count_key="nested_ifc_array_designs_cosimulated")
    except Exception as e:
      sh.inconclusive("nested-ifc-stream-harness:" + type(e).__name__)
    finally:
      G.unload(mod)


def ifc_stream(sh, backend, n, mech_fn, tag="ifc"):
  for case in range(n):
    rng = sh.rng(tag, case)
    src = gen_ifc_design(rng)
    mod = G.load_source(src, "ifc")
    try:
      top = mod.XTop(); top.elaborate()
      judge_text(sh, backend, top, tag, src, (tag, case), mech_fn, ncyc=6, rng=rng, count_key="ifc_array_designs_cosimulated")
      if case < 1 and sh.idx == 0:
        sh.sample({"interface_array_source": src[:1500]})
    except Exception as e:
      sh.inconclusive("ifc-stream-harness:" + type(e).__name__); sh.sample({"exc": traceback.format_exc()[-600:]})
    finally:
      G.unload(mod)


def selfcheck(sh):
  n, bad = svselfcheck.run_lrm()
  sh.count("svsim_lrm_examples_ok", n - len(bad))
  if bad:
    sh.inconclusive("svsim-selfcheck-failed(interpreter not trusted)")
    sh.sample({"svsim_selfcheck_failures": bad[:3]})
    return False
  return True
