"""C13 - translation is deterministic and module names never alias different hardware."""
import json
import os
import re
import subprocess
import sys
import tempfile

from vlib import specgen as G, svsim
from vlib.common import ROOT, REPO
from vlib.checks import trcommon

PROPERTY = "C13"
LEVEL = "exploration"
RULE = ("case = one design translated by both backends in N fresh processes with different PYTHONHASHSEED values, address-space "
        "layouts (ASLR on) and heap paddings; all texts must be byte-identical. Every text is parsed: each module defined once, "
        "every instantiated module defined, identifiers legal and unique per scope; every instance's module body must equal the "
        "body obtained by translating that instance's class / parameterisation stand-alone. Designs: generated hierarchies with "
        "repeated sub-trees + parameterised hierarchies (ints incl. negative / huge, strings with special characters, tuples, lists, "
        "floats, Bits types / values, struct types, long parameter lists -> hashed names). distinct_nontrivial = distinct designs "
        "with >= 2 instances sharing a module or >= 3 parameterisations")
ASSUMPTIONS = [
  "finite set of hash seeds / processes (4 quick, 12 thorough) - not all seeds or platforms",
  "module bodies are compared without comments and block labels (the label of a lambda connection is derived from the instance path and is not hardware)",
  "parameter values whose str() embeds an object address (functions, plain objects) are exercised in a separate probe stream",
]


def plan(tier, seed):
  q = tier == "quick"
  return [{"hashseed": (seed * 67 + i) % 1063, "designs": 5 if q else 40, "pdesigns": 5 if q else 40, "procs": 4 if q else 12,
           "part": i} for i in range(16)]


def thresholds(tier):
  t = {"design_backend_pairs": 100, "texts_compared": 300, "module_tables_checked": 100, "standalone_bodies_compared": 200,
       "parameterisations": 300, "hashed_module_names": 20, "full_names_checked": 150, "instance_statements_checked": 120, "multi_unit_texts_compared": 100, "duplicate_module_probes": 8, "retranslations_compared": 8, "struct_name_probes": 20, "struct_name_probe_controls_translated": 2, "explicit_file_name_probes": 12, "explicit_file_name_probe_controls_clean": 2, "duplicate_module_probe_controls_clean": 4, "reserved_word_probes": 1500, "reserved_word_probe_controls_translated": 100}
  if tier == "thorough":
    t = {k: v * 8 for k, v in t.items()}
    t["multi_unit_texts_compared"] = 100; t["explicit_file_name_probes"] = 12; t["explicit_file_name_probe_controls_clean"] = 2; t["duplicate_module_probes"] = 8; t["retranslations_compared"] = 8; t["struct_name_probes"] = 20; t["struct_name_probe_controls_translated"] = 2; t["duplicate_module_probe_controls_clean"] = 4; t["reserved_word_probes"] = 1500; t["reserved_word_probe_controls_translated"] = 100       # same size in both tiers
  return t


# ---- parameter descriptors -------------------------------------------------------------------------------------------

def gen_param(rng, safe):
  k = rng.random()
  if k < 0.3: return {"kind": "int", "v": rng.choice([0, 1, 2, 3, 7, 100, 65535, 2 ** 40 + 1])}
  if k < 0.4: return {"kind": "none"}
  if k < 0.5: return {"kind": "bool", "v": rng.random() < 0.5}
  if k < 0.6: return {"kind": "str", "v": rng.choice(["abc", "x1", "mode_fast", "A", "long_" * 9])}
  if k < 0.7: return {"kind": "bits_type", "n": rng.choice([1, 8, 32, 100])}
  if k < 0.8: return {"kind": "tuple", "v": [gen_param(rng, safe) for _ in range(rng.randrange(1, 4))]}
  if k < 0.83: return {"kind": "list", "v": [{"kind": "int", "v": rng.randrange(100)} for _ in range(rng.randrange(1, 12))]}
  if k < 0.85:
    # message types handed over in a container ( Router([ReqType, RespType]) )
    st = lambda: {"kind": "struct_type", "name": "PT%d" % rng.randrange(3), "fields": [["a", rng.choice([3, 4])], ["b", 8]]}
    return {"kind": rng.choice(["list", "tuple"]), "v": [st()] + [st() if rng.random() < 0.5 else {"kind": "int", "v": rng.randrange(4)} for _ in range(rng.randrange(0, 3))]}
  if k < 0.9: return {"kind": "struct_type", "name": rng.choice(["PT0", "PT1", "PT2", "PT<3>", "pt.4"]), "fields": [["a", rng.choice([3, 4])], ["b", 8]]}          # ( two of the class names are no identifiers )
  if k < 0.93: return {"kind": "bits_value", "n": rng.choice([5, 8, 8]), "v": rng.choice([0, 1, 3, 3, rng.randrange(32)])}
  if k < 0.97: return {"kind": "struct_value", "name": "SVal", "fields": [["a", 4], ["b", 8]], "v": [rng.choice([0, 1, 2, 3]), rng.choice([0, 1, 2, 255])]}   # a bitstruct INSTANCE (e.g. a reset value)
  if safe: return {"kind": "float", "v": rng.choice([0.5, 1.0, 2.25])}
  return {"kind": "int", "v": -rng.randrange(1, 9)}


ODD = [{"kind": "int", "v": -1}, {"kind": "int", "v": -3}, {"kind": "str", "v": "a-b"}, {"kind": "str", "v": "x y"}, {"kind": "str", "v": "q'r"},
       {"kind": "tuple", "v": [{"kind": "int", "v": 1}]}, {"kind": "str", "v": "a,b"}, {"kind": "str", "v": "p(q)"}, {"kind": "float", "v": -0.5},
       {"kind": "str", "v": "a+b"}, {"kind": "str", "v": "m:n"}, {"kind": "str", "v": "{z}"}]


def gen_param_design(rng, odd=False, force_int_str=False):
  T = {"kind": "bits_type", "n": rng.choice([4, 8, 16, 33])}
  groups = []
  for _ in range(rng.randrange(1, 4)):
    g = []
    for _ in range(rng.randrange(1, 5)):
      kval = rng.choice(ODD[:2]) if odd and rng.random() < 0.5 else {"kind": "int", "v": rng.randrange(0, 8)}
      tag = rng.choice(ODD) if odd and rng.random() < 0.7 else gen_param(rng, True)
      shape = rng.randrange(16)
      ov = {}
      if rng.random() < 0.3:
        # overrides applied with set_param before elaboration (only parameters the call does not pass positionally)
        if not shape & 8 and rng.random() < 0.7: ov["inc"] = rng.randrange(0, 4)
        if rng.random() < 0.5: ov["opt"] = rng.randrange(0, 8)
      g.append([rng.randrange(2), kval, tag, gen_param(rng, True), shape, rng.randrange(0, 4), ov])
    if rng.random() < 0.6 and g:
      # instances that differ from g[0] in exactly ONE parameter (a name that ignores a parameter would alias them)
      base = g[0]
      for pos in rng.sample([0, 1, 2, 3, 4, 5, 5], rng.randrange(1, 5)):
        v = list(base)
        if pos == 0: v[0] = 1 - base[0]
        elif pos == 1: v[1] = {"kind": "int", "v": (base[1]["v"] + rng.randrange(1, 4)) % 8 if base[1]["v"] >= 0 else 1}
        elif pos == 4:
          v[4] = rng.randrange(16)                    # same values, other call shape (defaults vs keywords)
          if v[4] & 8 and "inc" in v[6]: v[6] = {k_: x for k_, x in v[6].items() if k_ != "inc"}
        elif pos == 5: v[5] = (base[5] + rng.randrange(1, 4)) % 4; v[4] = base[4] | 1     # other `inc`, passed explicitly
        else:
          nv = gen_param(rng, True)
          b_ = base[pos]
          # values whose str() coincides although they differ: same digits at another width, Bits value vs int
          if b_.get("kind") == "bits_value" and rng.random() < 0.7: nv = dict(b_, n=5 if b_["n"] == 8 else 8)
          elif "struct_type" in json.dumps(b_) and rng.random() < 0.8:
            # the same (container of) bitstruct class(es) by name, ONE field of one class a bit wider / narrower
            nv = json.loads(json.dumps(b_))
            def flip(d, done=[False]):
              if d.get("kind") == "struct_type" and not done[0]: d["fields"][0][1] = 7 - d["fields"][0][1]; done[0] = True
              for x in d.get("v", []) if isinstance(d.get("v"), list) else []:
                if isinstance(x, dict): flip(x, done)
            flip(nv)
          elif b_.get("kind") == "int" and 10 <= b_["v"] < 100 and rng.random() < 0.5: nv = {"kind": "bits_value", "n": 8, "v": int(str(b_["v"]), 16)}
          if nv == base[pos]: continue
          v[pos] = nv
          if pos == 2: v[4] = v[4] | 2
          if pos == 3: v[4] = v[4] | 4
        g.append(v)
    if groups and rng.random() < 0.4:
      g = list(groups[-1])          # repeated sub-tree
    groups.append(g)
  if not odd and groups and (rng.random() < 0.6 or force_int_str):
    # a pair of instances whose differing parameter values print alike: Bits values of two widths / a Bits value and an int
    v = rng.choice([0, 1, 3, 7])
    a, b = ({"kind": "bits_value", "n": 8, "v": v}, {"kind": "bits_value", "n": 5, "v": v}) if rng.random() < 0.6 else \
           ({"kind": "int", "v": 13}, {"kind": "bits_value", "n": 8, "v": 0x13})
    kv = {"kind": "int", "v": rng.randrange(0, 8)}
    pos = rng.choice([2, 3])
    if rng.random() < 0.3:
      # two bitstruct INSTANCES of one type that differ in one field value
      a = {"kind": "struct_value", "name": "SVal", "fields": [["a", 4], ["b", 8]], "v": [1, 2]}
      b = {"kind": "struct_value", "name": "SVal", "fields": [["a", 4], ["b", 8]], "v": [rng.choice([1, 3]), rng.choice([4, 2])]}
      if b["v"] == a["v"]: b["v"] = [3, 4]
      if rng.random() < 0.5:
        # ... or instances of two struct TYPES whose values print alike (field widths 8 / 5: two hex digits each)
        b = {"kind": "struct_value", "name": "SVal", "fields": [["a", 4], ["b", 5]], "v": list(a["v"])}
    if rng.random() < 0.3:
      # two bitstruct TYPES of one name that differ in one field width, handed over inside a container
      kd = rng.choice(["list", "tuple"])
      mk = lambda wa: {"kind": kd, "v": [{"kind": "struct_type", "name": "PT0", "fields": [["a", wa], ["b", 8]]}, {"kind": "int", "v": 1}]}
      a, b = mk(3), mk(4)
    if rng.random() < 0.2 or force_int_str:
      # an int and the string of its digits (probe shape of the listed finding F-N13): str() of the two is the same text
      v_ = rng.choice([0, 1, 7, 42])
      a, b = {"kind": "int", "v": v_}, {"kind": "str", "v": str(v_)}
    if rng.random() < 0.35 and not force_int_str:
      # parameter values that differ but HASH alike in CPython: hash(-1) == hash(-2)
      a, b = {"kind": "int", "v": -1}, {"kind": "int", "v": -2}
      pos = rng.choice([1, 1, 3])
    base = [rng.randrange(2), kv, {"kind": "none"}, {"kind": "int", "v": 0}, {2: 2, 3: 4, 1: 0}[pos], 1, {}]
    for val in (a, b):
      c = list(base); c[pos] = val
      groups[rng.randrange(len(groups))].append(c)
  return {"type": "param", "T": T, "groups": groups, "backends": ["sv", "ys"]}


def knobs(rng):
  return {"depth": rng.choice([1, 2, 2]), "max_children": rng.choice([2, 3]), "p_struct": 0.3, "p_list": 0.2, "p_ff": 0.25,
          "max_sigs": rng.choice([3, 5]), "expr_depth": 2, "p_connect": 0.45, "struct_split": False, "struct_wires": False}


# ---- running workers --------------------------------------------------------------------------------------------------

def run_workers(sh, batch, nprocs, tag):
  scratch = os.environ.get("VERIF_SCRATCH") or tempfile.mkdtemp(prefix="c13-")
  bf = os.path.join(scratch, f"batch_{tag}.json")
  with open(bf, "w") as f:
    json.dump(batch, f)
  outs = []
  procs = []
  for p in range(nprocs):
    of = os.path.join(scratch, f"out_{tag}_{p}.json")
    env = dict(os.environ)
    env["PYTHONHASHSEED"] = str((sh.seed * 131 + sh.idx * 17 + p * 7919 + 1) % 4294967295)
    env["PYTHONPATH"] = REPO + os.pathsep + ROOT
    env["PYTHONDONTWRITEBYTECODE"] = "1"
    procs.append((of, subprocess.Popen([sys.executable, "-m", "vlib.trworker", bf, of, str((p * 3571) % 9000)], env=env,
                                       stdout=subprocess.DEVNULL, stderr=subprocess.PIPE, text=True)))
  for of, pr in procs:
    try:
      _, err = pr.communicate(timeout=900)
    except subprocess.TimeoutExpired:
      pr.kill(); sh.inconclusive("worker-timeout(wall-clock watchdog)"); continue
    if not os.path.exists(of):
      sh.inconclusive("worker-produced-no-output"); sh.sample({"worker_stderr": err[-600:]}); continue
    with open(of) as f:
      outs.append(json.load(f))
    os.remove(of)
  return outs


def module_bodies(text):
  """module name -> body text (without the header comment lines, the module name line kept out)"""
  out = {}
  for m in re.finditer(r"^module\s+(\S+)(.*?)^endmodule", text, re.M | re.S):
    # comments and block labels (a lambda connection's label carries the instance path) are not hardware
    body = "\n".join(re.sub(r"begin\s*:\s*\w+", "begin", l) for l in m.group(2).splitlines() if not l.strip().startswith("//") and l.strip())
    body = re.sub(r"(__const__\w+?_at)__lambda__\w+", r"\1__lambda", body)
    out.setdefault(m.group(1), []).append(body)
  return out


def check_text_table(sh, text, what, item, case):
  """module/instance/identifier tables through the svsim parser + elaboration"""
  sh.count("module_tables_checked")
  def W(kind, **kw):
    mech = None
    if kind == "illegal-or-clashing-identifier-or-module-table-error":
      names = re.findall(r"^module\s+(\S+)", text, re.M)
      bad = [n for n in names if not re.fullmatch(r"[A-Za-z_][A-Za-z0-9_$]*", n)]
      if bad and all(re.fullmatch(r"[A-Za-z_][A-Za-z0-9_$]*", re.sub(r"[-(),'+:{}=*/!@#%^&|~`\"; ]", "", n)) for n in bad):
        mech = "module-name-contains-illegal-characters-from-parameter-value"
      kw["bad_module_names"] = bad[:4]
    sh.violation(kind, dict(kw, what=what, item=item if item.get("type") != "specgen" else {"type": "specgen"}), mechanism=mech, case=case)
  bodies = module_bodies(text)
  for n, bs in bodies.items():
    if len(bs) > 1:
      W("module-defined-more-than-once", module=n); return None
  try:
    d = svsim.parse(text)
    s = svsim.Sim(d)
  except svsim.SVError as e:
    W("illegal-or-clashing-identifier-or-module-table-error", error=str(e)[:300]); return None
  return bodies, d


def pstr(d):
  """str() of the python value a descriptor denotes, as the naming scheme prints it; None if not predictable here"""
  k = d["kind"]
  if k in ("int", "str", "bool", "float"): return str(d["v"])
  if k == "none": return "None"
  if k == "bits_type": return f"Bits{d['n']}"
  if k in ("tuple", "list"):
    vals = [pyval(x) for x in d["v"]]
    if any(v is NotImplemented for v in vals): return None
    return str(tuple(vals)) if k == "tuple" else str(vals)
  return None


def pyval(d):
  k = d["kind"]
  if k in ("int", "str", "bool", "float"): return d["v"]
  if k == "none": return None
  if k in ("tuple", "list"):
    vals = [pyval(x) for x in d["v"]]
    if any(v is NotImplemented for v in vals): return NotImplemented
    return tuple(vals) if k == "tuple" else vals
  return NotImplemented


def expected_full_name(item):
  """documented naming scheme: <class>__<param>_<str(value)>... with the values the instance REALLY has (defaults filled in)"""
  c = item["cfg"]
  shape = c[4]
  ov = c[6] if len(c) > 6 else {}
  inc = str(ov["inc"]) if "inc" in ov else str(c[5]) if shape & 1 else "1"
  tag = pstr(c[2]) if shape & 2 else "None"
  opt = str(ov["opt"]) if "opt" in ov else pstr(c[3]) if shape & 4 else "0"
  k = pstr(c[1]); T = pstr(item["T"])
  if None in (tag, opt, k, T): return None
  return f"{'Leaf' if c[0] == 0 else 'Leaf2'}__T_{T}__k_{k}__inc_{inc}__tag_{tag}__opt_{opt}"


SUBTREE_SRC = """
from pymtl3 import *
class Inner(Component):
  def construct(s, k=1):
    s.i = InPort(8); s.o = OutPort(8)
    K = int(k) & 7
    @update
    def up(): s.o @= s.i + K
class InnerB(Component):
  def construct(s, k=1):
    s.i = InPort(8); s.o = OutPort(8)
    @update
    def up(): s.o @= s.i ^ 0x55
class Mid(Component):
  def construct(s):
    s.i = InPort(8); s.o = OutPort(8)
    s.inner = Inner()
    s.inner.i //= s.i; s.o //= s.inner.o
class Cat(Component):
  def construct(s, ws):
    s.i = InPort(8); s.o = OutPort(8)
    K = sum(ws) & 7
    @update
    def up(): s.o @= s.i + K
class STop(Component):
  def construct(s, variant):
    s.i = InPort(8); s.oa = OutPort(8); s.ob = OutPort(8)
    if variant == "mutated-list":
      ws = [1]
      s.a = Cat(ws)
      ws.append(2)               # the configuration list goes on growing between the two instantiations
      s.b = Cat(ws)
    else:
      s.a = Mid(); s.b = Mid()
    s.a.i //= s.i; s.b.i //= s.i; s.oa //= s.a.o; s.ob //= s.b.o
"""


def run_subtree_probe(sh):
  """probe stream for the listed findings F-N5 / F-N6: two instances of one class with the same construct parameters whose
  hardware differs all the same - a sub-component BELOW one of them got another parameter (set_param on the grandchild) or was
  replaced (replace_component), or the parameter object (a list) was mutated between the two instantiations.  The translated
  text is co-simulated against the PyMTL simulation; a module shared by the two instances shows as a wrong output."""
  for variant in ("set_param-below", "replace-below", "mutated-list", "control"):
    mod = G.load_source(SUBTREE_SRC, "c13sub")
    try:
      top = mod.STop(variant)
      if variant == "set_param-below": top.set_param("top.b.inner.construct", k=4)
      top.elaborate()
      if variant == "replace-below": top.replace_component(top.b.inner, mod.InnerB)
      mech = {"set_param-below": "subtree-differs-below-instances-of-one-module-name", "replace-below": "subtree-differs-below-instances-of-one-module-name",
              "mutated-list": "parameter-object-mutated-after-construction"}.get(variant)
      def mech_fn(kind, w, mech=mech):
        return mech if kind in ("output-differs-from-pymtl-simulation", "emitted-text-does-not-parse-or-elaborate") else None
      r = trcommon.judge_text(sh, "sv", top, "subtree-probe:" + variant, SUBTREE_SRC, ("subtree", variant), mech_fn, ncyc=6, rng=sh.rng("subtree", variant),
                              count_key="subtree_probe_designs")
      sh.count("subtree_probes")
      if variant == "control" and r: sh.count("subtree_probe_control_ok")
    except Exception as e:
      sh.inconclusive("subtree-probe-harness:" + type(e).__name__)
    finally:
      G.unload(mod)


MULTI_SRC = """
from pymtl3 import *
from pymtl3.passes.backends.verilog import VerilogPlaceholder, VerilogPlaceholderPass
class VDecr(VerilogPlaceholder, Component):
  def construct(s, nbits=8):
    s.in_ = InPort(nbits); s.out = OutPort(nbits)
    s.set_metadata(VerilogPlaceholderPass.src_file, VFILE)
    s.set_metadata(VerilogPlaceholderPass.top_module, 'VDecr')
    s.set_metadata(VerilogPlaceholderPass.params, {'nbits': nbits})
class Incr(Component):
  def construct(s, k=1):
    s.in_ = InPort(8); s.out = OutPort(8)
    @update
    def up_incr():
      s.out @= s.in_ + k
class Wrap(Component):
  def construct(s):
    s.in_ = InPort(8); s.out = OutPort(8)
    s.inner = VDecr()
    s.inner.in_ //= s.in_
    @update
    def up_wrap():
      s.out @= s.inner.out ^ 1
class MTop(Component):
  def construct(s, names, kinds):
    s.in_ = InPort(8); s.outs = [OutPort(8) for _ in names]
    for i, (n, k) in enumerate(zip(names, kinds)):
      m = VDecr() if k == 'ph' else Incr(i + 1) if k == 'incr' else Wrap()
      setattr(s, n, m)
      m.in_ //= s.in_
      s.outs[i] //= m.out
"""

VDECR_V = """module VDecr #( parameter nbits = 8 )
(
  input  logic             clk,
  input  logic             reset,
  input  logic [nbits-1:0] in_,
  output logic [nbits-1:0] out
);
  assign out = in_ - 1;
endmodule
"""


def run_multiunit_probe(sh):
  """SEVERAL sibling sub-trees are translated by ONE application of the translation pass (what the translate-import flow does): a
  Verilog placeholder, plain components and a component that wraps a placeholder, in every order the sibling names can sort.
  Each unit's file must be byte-identical to the file the same unit gives when it is the only one enabled (fresh design, fresh
  pass), its top module name must be its own, and no two units may write the same file"""
  import itertools
  from vlib import cosim
  vfile = os.path.join(os.getcwd(), "VDecr.v")
  with open(vfile, "w") as f: f.write(VDECR_V)
  rng = sh.rng("multiunit")
  # a real file: the placeholder pass walks up from the directory of the class's source file looking for a pymtl.ini
  import importlib.util
  pyfile = os.path.join(os.getcwd(), "c13multi_mod.py")
  with open(pyfile, "w") as f: f.write(MULTI_SRC.replace("VFILE", repr(vfile)))
  spec = importlib.util.spec_from_file_location("c13multi_mod", pyfile)
  mod = importlib.util.module_from_spec(spec); sys.modules["c13multi_mod"] = mod; spec.loader.exec_module(mod)
  try:
    from pymtl3.passes.backends.verilog import VerilogPlaceholderPass
    for be in ("sv", "ys"):
      if be == "sv": from pymtl3.passes.backends.verilog import VerilogTranslationPass as P
      else: from pymtl3.passes.backends.yosys import YosysTranslationPass as P
      for kinds in itertools.permutations(("ph", "incr", "wrap")):
        for extra in ((), ("incr",), ("ph",)):
          ks = list(kinds) + list(extra)
          names = [f"u{chr(ord('a') + i)}" for i in range(len(ks))]          # sorted sibling order = position in the list
          def build(enabled):
            top = mod.MTop(names, ks); top.elaborate(); top.apply(VerilogPlaceholderPass())
            units = [getattr(top, n) for n in names]
            for i in enabled: units[i].set_metadata(P.enable, True)
            top.apply(P())
            out = {}
            for i in enabled:
              fn = units[i].get_metadata(P.translated_filename)
              with open(fn) as f: out[i] = (fn, units[i].get_metadata(P.translated_top_module), f.read())
            return out
          try:
            alone = {}
            for i in range(len(ks)): alone.update(build([i]))
            together = build(list(range(len(ks))))
          except Exception as e:
            sh.inconclusive("multiunit-probe-harness:" + type(e).__name__); continue
          sh.count("multi_unit_designs"); sh.fp("multiunit", be, tuple(ks))
          w = {"backend": be, "units_in_sorted_order": ks}
          for i in range(len(ks)):
            sh.count("multi_unit_texts_compared")
            if together[i][1] != alone[i][1]:
              sh.violation("top-module-name-of-a-unit-depends-on-the-units-translated-before-it", dict(w, unit=i, kind=ks[i], alone=alone[i][1], together=together[i][1]),
                           case=("multiunit", be, tuple(ks))); break
            if together[i][2] != alone[i][2]:
              sh.violation("text-of-a-unit-depends-on-the-units-translated-before-it", dict(w, unit=i, kind=ks[i], file=together[i][0],
                           alone_modules=re.findall(r"^module (\w+)", alone[i][2], re.M), together_modules=re.findall(r"^module (\w+)", together[i][2], re.M)),
                           case=("multiunit", be, tuple(ks))); break
          files = {}
          for i in range(len(ks)):
            # two units of different hardware must not share a file (the later would overwrite the earlier)
            if together[i][0] in files and alone[files[together[i][0]]][2] != alone[i][2]:
              sh.violation("two-units-of-different-hardware-write-the-same-file", dict(w, units=[files[together[i][0]], i], file=together[i][0]), case=("multiunit-file", be, tuple(ks))); break
            files.setdefault(together[i][0], i)
  finally:
    sys.modules.pop("c13multi_mod", None)


DUP_SRC = """
from pymtl3 import *
from pymtl3.passes.backends.verilog import VerilogPlaceholder, VerilogPlaceholderPass
class VDecr(VerilogPlaceholder, Component):
  def construct(s, nbits=8):
    s.in_ = InPort(nbits); s.out = OutPort(nbits)
    s.set_metadata(VerilogPlaceholderPass.src_file, VFILE)
    s.set_metadata(VerilogPlaceholderPass.top_module, 'VDecr')
    s.set_metadata(VerilogPlaceholderPass.params, {'nbits': nbits})
class VDecrWide(VDecr):               # the same Verilog module behind a second placeholder class (another default)
  def construct(s, nbits=16):
    super().construct(nbits)
class VPassN(VerilogPlaceholder, Component):      # the construct argument selects the Verilog module; no Verilog parameters
  def construct(s, nbits):
    s.in_ = InPort(nbits); s.out = OutPort(nbits)
    s.set_metadata(VerilogPlaceholderPass.src_file, VFILE2)
    s.set_metadata(VerilogPlaceholderPass.top_module, 'VPass%d' % nbits)
class TwoArgs(Component):
  def construct(s, second):
    s.i8 = InPort(8); s.o8 = OutPort(8); s.i16 = InPort(second); s.o16 = OutPort(second)
    s.p8 = VPassN(8); s.p16 = VPassN(second)
    s.p8.in_ //= s.i8; s.o8 //= s.p8.out; s.p16.in_ //= s.i16; s.o16 //= s.p16.out
class TwoWrappers(Component):
  def construct(s, second):
    s.i8 = InPort(8); s.o8 = OutPort(8); s.i16 = InPort(16); s.o16 = OutPort(16)
    s.a = VDecr(); s.b = VDecrWide() if second == 'subclass' else VDecr(16)
    s.a.in_ //= s.i8; s.o8 //= s.a.out; s.b.in_ //= s.i16; s.o16 //= s.b.out
class Incr(Component):
  def construct(s, k=1):
    s.in_ = InPort(8); s.out = OutPort(8)
    @update
    def up_incr():
      s.out @= s.in_ + k
class Stage(Component):
  def construct(s):
    s.in_ = InPort(8); s.out = OutPort(8)
    s.r = Incr(1)
    s.r.in_ //= s.in_; s.out //= s.r.out
def mk_stagev(src, topmod):
  class StageV(VerilogPlaceholder, Component):
    def construct(s):
      s.in_ = InPort(8); s.out = OutPort(8)
      s.set_metadata(VerilogPlaceholderPass.src_file, src)
      s.set_metadata(VerilogPlaceholderPass.top_module, topmod)
  return StageV
class Reuse(Component):
  def construct(s, StageV, k):
    s.in_ = InPort(8); s.out = OutPort(8)
    s.st = StageV(); s.r = Incr(k)
    s.st.in_ //= s.in_; s.r.in_ //= s.st.out; s.out //= s.r.out
InnerA = mk_bitstruct('Inner', {'x': Bits8})
InnerB = mk_bitstruct('Inner', {'x': Bits8, 'y': Bits4})
PktA = mk_bitstruct('Pkt', {'hdr': InnerA, 'y': Bits4})          # y next to the header
PktB = mk_bitstruct('Pkt', {'hdr': InnerB})                      # y inside the header
PktC = mk_bitstruct('Pkt', {'hdr': InnerA, 'z': Bits4})          # control: another field name
class GetY(Component):
  def construct(s, T):
    s.in_ = InPort(T); s.out = OutPort(4)
    if T is PktA: s.out //= s.in_.y
    elif T is PktB: s.out //= s.in_.hdr.y
    else: s.out //= s.in_.z
class Nest(Component):
  def construct(s, TB):
    s.ia = InPort(PktA); s.ib = InPort(TB); s.oa = OutPort(4); s.ob = OutPort(4)
    s.a = GetY(PktA); s.b = GetY(TB)
    s.a.in_ //= s.ia; s.b.in_ //= s.ib; s.oa //= s.a.out; s.ob //= s.b.out
"""


def _preprocess(text):
  defined, stack, out = set(), [], []
  for line in text.splitlines():
    w = line.split()
    if w[:1] == ["`ifndef"]: stack.append(w[1] not in defined)
    elif w[:1] == ["`ifdef"]: stack.append(w[1] in defined)
    elif w[:1] == ["`else"]: stack[-1] = not stack[-1]
    elif w[:1] == ["`endif"]: stack.pop()
    elif w[:1] == ["`define"] and all(stack): defined.add(w[1])
    elif all(stack): out.append(line)
  return "\n".join(out)


def run_dupmodule_probes(sh):
  """probe streams for the listed findings F-N9, F-N10, F-N11: every module / typedef is defined exactly once in the text a tool
  sees after preprocessing, and two instances share a module only if their bodies agree - in designs with (a) two placeholder
  classes behind one Verilog module, (b) an earlier translation result used as a placeholder next to a component it already
  contains, (c) two struct types of one name whose flattened field lists coincide.  Each has a control design that is clean"""
  import importlib.util
  from pymtl3.passes.backends.verilog import VerilogPlaceholderPass, VerilogTranslationPass as P
  vfile = os.path.join(os.getcwd(), "VDecr.v")
  with open(vfile, "w") as f: f.write(VDECR_V)
  vfile2 = os.path.join(os.getcwd(), "VPassN.v")
  with open(vfile2, "w") as f:
    f.write("".join(f"module VPass{n}\n(\n  input  logic clk,\n  input  logic reset,\n  input  logic [{n - 1}:0] in_,\n  output logic [{n - 1}:0] out\n);\n  assign out = in_ + {n}'d{n};\nendmodule\n" for n in (8, 16)))
  pyfile = os.path.join(os.getcwd(), "c13dup_mod.py")
  with open(pyfile, "w") as f: f.write(DUP_SRC.replace("VFILE2", repr(vfile2)).replace("VFILE", repr(vfile)))
  spec = importlib.util.spec_from_file_location("c13dup_mod", pyfile)
  mod = importlib.util.module_from_spec(spec); sys.modules["c13dup_mod"] = mod; spec.loader.exec_module(mod)
  def tr(top, placeholder=True):
    top.elaborate()
    if placeholder: top.apply(VerilogPlaceholderPass())
    top.set_metadata(P.enable, True); top.apply(P())
    with open(top.get_metadata(P.translated_filename)) as f: return f.read(), top.get_metadata(P.translated_filename), top.get_metadata(P.translated_top_module)
  def dups(text):
    mods = re.findall(r"^\s*module\s+(\w+)", _preprocess(text), re.M)
    return sorted(m for m in set(mods) if mods.count(m) > 1)
  try:
    # (a) two placeholder classes, one Verilog module
    for second in ("subclass", "same-class"):
      text, _, _ = tr(mod.TwoWrappers(second)); sh.count("duplicate_module_probes")
      d = dups(text)
      if d:
        sh.violation("module-defined-more-than-once-after-preprocessing", {"design": "two placeholders for the Verilog module VDecr, the second through " + second, "modules": d,
                     "guards": re.findall(r"^`ifndef (\w+)", text, re.M)}, mechanism="placeholder-source-guard-keyed-by-python-class-name" if second == "subclass" else None, case=("dup", "wrappers", second))
      elif second == "same-class": sh.count("duplicate_module_probe_controls_clean")
    # (d) one placeholder class whose construct argument selects the wrapped Verilog module (no Verilog parameters)
    for second in (16, 8):
      text, _, _ = tr(mod.TwoArgs(second)); sh.count("duplicate_module_probes")
      d = dups(text)
      inst = dict((i, m) for m, i in re.findall(r"^\s*(\w+)\s+(p8|p16)\s*$", text, re.M))
      wraps = {}
      for m_ in set(inst.values()):
        b_ = re.search(r"^\s*module\s+" + re.escape(m_) + r"\b(.*?)^\s*endmodule", _preprocess(text), re.M | re.S)
        wraps[m_] = sorted(set(re.findall(r"\b(VPass\d+)\b", b_.group(1)))) if b_ else None
      if d or len(inst) != 2 or (second == 16 and (inst["p8"] == inst["p16"] or wraps.get(inst["p8"]) != ["VPass8"] or wraps.get(inst["p16"]) != ["VPass16"])):
        sh.violation("module-defined-more-than-once-after-preprocessing" if d else "instances-with-different-bodies-share-one-module-name",
                     {"design": f"placeholder class VPassN(nbits) without Verilog parameters, instantiated as VPassN(8) and VPassN({second})", "modules_defined_twice": d,
                      "instances": inst, "wrapped_modules": wraps}, case=("dup", "ctor-args", second))
      elif second == 8: sh.count("duplicate_module_probe_controls_clean")
    # (b) an earlier translation result as a placeholder next to a component it contains
    t0, f0, m0 = tr(mod.Stage(), placeholder=False)
    SV = mod.mk_stagev(os.path.join(os.getcwd(), f0), m0)
    for k in (1, 2):
      text, _, _ = tr(mod.Reuse(SV, k)); sh.count("duplicate_module_probes")
      d = dups(text)
      if d:
        sh.violation("module-defined-more-than-once-after-preprocessing", {"design": f"Stage translated earlier and used as a placeholder next to Incr({k})", "modules": d},
                     mechanism="earlier-translation-result-as-placeholder-repeats-shared-modules" if k == 1 else None, case=("dup", "reuse", k))
      elif k == 2: sh.count("duplicate_module_probe_controls_clean")
    # (c) two struct types of one name whose flattened field lists coincide
    for nm, TB in (("same-flat-fields", mod.PktB), ("control", mod.PktC)):
      text, _, _ = tr(mod.Nest(TB), placeholder=False); sh.count("duplicate_module_probes")
      inst = dict((i, m) for m, i in re.findall(r"^\s*(\w+) (a|b)\s*\n\s*\(", text, re.M))
      ports = dict((p_, t) for t, p_ in re.findall(r"input\s+(?:logic\s+)?(\w+) (ia|ib)\b", text))
      if inst.get("a") == inst.get("b") or (ports.get("ia") and ports.get("ia") == ports.get("ib")):
        sh.violation("instances-with-different-bodies-share-one-module-name", {"design": "GetY(PktA) reads in_.y, GetY(PktB) reads in_.hdr.y; Pkt{hdr:Inner{x},y} / Pkt{hdr:Inner{x,y}}",
                     "instances": inst, "port_types": ports}, mechanism="struct-type-name-loses-nesting-level" if nm != "control" else None, case=("dup", "nest", nm))
      elif nm == "control": sh.count("duplicate_module_probe_controls_clean")
  except Exception as e:
    import traceback
    sh.inconclusive("dupmodule-probe-harness:" + type(e).__name__); sh.sample({"dupmodule_probe_error": traceback.format_exc()[-800:]})
  finally:
    sys.modules.pop("c13dup_mod", None)


RETR_SRC = """
from pymtl3 import *
class RLeaf(Component):
  def construct(s, k=1):
    s.in_ = InPort(8); s.out = OutPort(8)
    @update
    def up():
      s.out @= s.in_ + k
class RMid(Component):
  def construct(s):
    s.in_ = InPort(8); s.out = OutPort(8)
    s.leaf = RLeaf(); s.leaf2 = RLeaf(2)
    s.leaf.in_ //= s.in_; s.leaf2.in_ //= s.leaf.out; s.out //= s.leaf2.out
class RTop(Component):
  def construct(s):
    s.in_ = InPort(8); s.out = OutPort(8)
    s.mid = RMid()
    s.mid.in_ //= s.in_; s.out //= s.mid.out
"""


def run_retranslate_probe(sh):
  """the pass applied AGAIN to one elaborated design after a translation option was changed in between (a sub-component is given
  an explicit module name; the name is changed; it is taken away again): each text is byte-identical to what a fresh design with
  the same options gives in one go, defines every module it instantiates and defines no module twice"""
  rng = sh.rng("retranslate")
  mod = G.load_source(RETR_SRC, "c13retr")
  try:
    for be in ("sv", "ys"):
      if be == "sv": from pymtl3.passes.backends.verilog import VerilogTranslationPass as P
      else: from pymtl3.passes.backends.yosys import YosysTranslationPass as P
      def text_of(top):
        top.apply(P())
        with open(top.get_metadata(P.translated_filename)) as f: return f.read()
      def setopts(top, opts):
        for path, name in opts.items():
          o = top
          for a in path.split("."): o = getattr(o, a)
          o.set_metadata(P.explicit_module_name, name)
      top = mod.RTop(); top.elaborate(); top.set_metadata(P.enable, True)
      steps = [{}, {"mid.leaf": "IncrLeaf"}, {"mid.leaf": "IncrLeaf", "mid": "TheMid"}, {"mid.leaf": "OtherLeaf", "mid": "TheMid"}]
      cur = {}
      for opts in steps:
        try:
          setopts(top, {k: v for k, v in opts.items() if cur.get(k) != v}); cur = dict(opts)
          again = text_of(top)
          ref = mod.RTop(); ref.elaborate(); ref.set_metadata(P.enable, True); setopts(ref, opts)
          fresh = text_of(ref)
        except Exception as e:
          sh.inconclusive("retranslate-probe-harness:" + type(e).__name__); break
        sh.count("retranslations_compared")
        defined = re.findall(r"^\s*module\s+(\w+)", again, re.M)
        insts = [(m_, i_) for m_, i_ in re.findall(r"^\s*([A-Za-z_]\w*)\s+([A-Za-z_]\w*)\s*\n\s*\(", again, re.M) if m_ not in ("module", "begin", "end", "assign", "logic", "input", "output")]
        undefined = [(m_, i_) for m_, i_ in insts if m_ not in defined]
        if undefined or len(defined) != len(set(defined)):
          sh.violation("instantiated-module-not-defined-or-module-defined-twice", {"backend": be, "options_now": opts, "history": "pass applied again after the options changed",
                       "undefined_instances": undefined[:4], "defined": defined}, case=("retranslate", be, len(opts))); break
        if again != fresh:
          import difflib
          sh.violation("text-after-re-applying-the-pass-differs-from-a-fresh-translation-with-the-same-options", {"backend": be, "options_now": opts,
                       "diff": [l for l in difflib.unified_diff(fresh.splitlines(), again.splitlines(), lineterm="", n=0)][:10]}, case=("retranslate-text", be, len(opts))); break
  finally:
    G.unload(mod)


def run_structname_probe(sh):
  """bitstruct classes whose NAME is no identifier of the target language ( mk_bitstruct("Msg<8>", ...), "mem.Req", "Req-8", "8bit" ),
  as the type of a port, nested inside another struct, and two names that look alike once the odd characters are gone: the text
  has legal identifiers only, and two different struct types never share a typedef name"""
  from pymtl3 import Component, InPort, OutPort, mk_bits, mk_bitstruct, update
  from vlib import cosim
  names = ["Msg<8>", "Msg(8)", "mem.Req", "Req-8", "8bit", "a b", "Plain"]
  for be in ("sv", "ys"):
    seen = {}
    for i, nm in enumerate(names):
      for nested in (False, True):
        Inner = mk_bitstruct(nm, {"data": mk_bits(8), "tag": mk_bits(3 + i % 2)})
        T = mk_bitstruct("Outer", {"h": Inner, "k": mk_bits(2)}) if nested else Inner
        class SNTop(Component):
          def construct(s):
            s.i = InPort(T); s.o = OutPort(8)
            if nested: s.o //= s.i.h.data
            else: s.o //= s.i.data
        top = SNTop(); top.elaborate()
        sh.count("struct_name_probes")
        try:
          text, fn, topmod = cosim.translate(top, be)
        except Exception as e:
          sh.count("struct_name_probes_refused")
          if nm == "Plain": sh.inconclusive("struct-name-probe-control-refused:" + type(e).__name__)
          continue
        try: os.remove(fn)
        except OSError: pass
        body = "\n".join(l.split("//")[0] for l in text.splitlines())
        idents = set(re.findall(r"(?<![\w$'])([A-Za-z_\\][^\s;,\[\]\(\)\{\}:=+\-*/&|^~!<>?.#@'\"]*)", body))
        tds = re.findall(r"\}\s*([^\s;]+)\s*;", body)
        bad = [t for t in tds if not re.fullmatch(r"[A-Za-z_][A-Za-z0-9_$]*", t)]
        # whatever stands where a type name stands has to be a legal identifier
        decl = re.findall(r"^\s*(?:input|output)\s+(?!logic|wire|reg)(\S+)\s+\w+", body, re.M)
        bad += [t for t in decl if not re.fullmatch(r"[A-Za-z_][A-Za-z0-9_$]*", t)]
        if bad:
          sh.violation("illegal-or-clashing-identifier-or-module-table-error", {"backend": be, "struct_class_name": nm, "nested": nested, "illegal_type_names": sorted(set(bad))[:4]},
                       case=("structname", be, nm, nested)); continue
        if not nested and be == "sv" and tds:
          other = seen.get(tds[-1])
          if other is not None and other != nm:
            sh.violation("two-struct-types-share-one-typedef-name", {"backend": be, "names": [other, nm], "typedef": tds[-1]}, case=("structname-clash", be, nm))
          seen[tds[-1]] = nm
        if nm == "Plain": sh.count("struct_name_probe_controls_translated")


def run_filename_probe(sh):
  """two translation units given explicit file names that differ only behind a '.v' inside the name ( 'U.v1.v' / 'U.v2.v',
  'my.vec.v' / 'my.vat.v', a directory 'out.v2/' ): after both translations the file each unit REPORTS defines that unit's top
  module ( F-N14: everything behind the first '.v' was cut off, the second text overwrote the first )"""
  from pymtl3 import Component, InPort, OutPort, update
  from pymtl3.passes.backends.verilog import VerilogTranslationPass as PV
  from pymtl3.passes.backends.yosys import YosysTranslationPass as PY
  import tempfile
  d = tempfile.mkdtemp(prefix="fname_", dir=os.environ.get("VERIF_SCRATCH") or None)
  os.makedirs(os.path.join(d, "out.v2"), exist_ok=True)
  class FNStage(Component):
    def construct(s, inc):
      s.i = InPort(8); s.o = OutPort(8)
      @update
      def up(): s.o @= s.i + inc
  pairs = [("U.v1.v", "U.v2.v"), ("my.vec.v", "my.vat.v"), ("out.v2/A.v", "out.v2/B.v"), ("plain_a.v", "plain_b.v"), ("noext_a", "noext_b"),
           ("S.sv1.sv", "S.sv2.sv")]
  for P in (PV, PY):
    for a, b in pairs:
      res = []
      for inc, fn in ((1, a), (2, b)):
        m = FNStage(inc); m.elaborate()
        m.set_metadata(P.enable, True); m.set_metadata(P.explicit_file_name, os.path.join(d, fn))
        m.apply(P())
        res.append((m.get_metadata(P.translated_filename), m.get_metadata(P.translated_top_module)))
      sh.count("explicit_file_name_probes")
      for fn, mod in res:
        try: text = open(fn).read()
        except OSError: text = ""
        if not re.search(r"^\s*module\s+" + re.escape(mod) + r"\b", text, re.M):
          sh.violation("illegal-or-clashing-identifier-or-module-table-error", {"what": "the file a translation unit reports does not define its top module",
                       "explicit_file_names": [a, b], "reported": [os.path.basename(r[0]) for r in res], "missing_module": mod, "pass": P.__name__},
                       case=("filename", P.__name__, a)); break
      else:
        if a.startswith("plain"): sh.count("explicit_file_name_probe_controls_clean")
  import shutil; shutil.rmtree(d, ignore_errors=True)


def run_keyword_probe(sh):
  """identifiers are legal: a signal / block / loop variable named like a reserved word of IEEE 1800-2017 (list written down from
  Annex B in vlib/svkeywords.py, not taken from pymtl3's table) is either refused by the translator or renamed - it never reaches
  the emitted text as an identifier"""
  import keyword
  from pymtl3 import Component, InPort, OutPort, Wire, update
  from vlib import cosim
  from vlib.svkeywords import SV_KEYWORDS, EMITTED_SYNTAX
  usable = sorted(k for k in SV_KEYWORDS - EMITTED_SYNTAX if not keyword.iskeyword(k))
  rng = sh.rng("keywords", sh.idx)
  mine = usable[sh.idx::16]          # every usable keyword in every run (16 shards)
  for kw in mine + ["plain_name"]:
    for where in ("port", "wire", "block", "loopvar", "wirelist", "portlist"):
      decl = {"port": f"    s.{kw} = InPort(8)", "wire": f"    s.{kw} = Wire(8)\n    s.{kw} //= s.i", "block": "", "loopvar": "",
              # lists, touched by connections only (no block mentions them)
              "wirelist": f"    s.{kw} = [Wire(8) for _ in range(2)]\n    s.{kw}[0] //= s.i\n    s.{kw}[1] //= s.{kw}[0]\n    s.o2 = OutPort(8)\n    s.o2 //= s.{kw}[1]",
              "portlist": f"    s.{kw} = [InPort(8) for _ in range(2)]\n    s.o2 = OutPort(8)\n    s.o2 //= s.{kw}[1]"}[where]
      blk = kw if where == "block" else "up"
      body = f"      for {kw} in range(8):\n        s.o[{kw}] @= s.i[{kw}]" if where == "loopvar" else \
             f"      s.o @= s.{kw if where in ('port', 'wire') else 'i'} + 1"
      src = f"from pymtl3 import *\nclass KTop(Component):\n  def construct(s):\n    s.i = InPort(8); s.o = OutPort(8)\n{decl}\n    @update\n    def {blk}():\n{body}\n"
      for be in ("sv", "ys"):
        sh.count("reserved_word_probes")
        mod = G.load_source(src, "c13kw")
        try:
          top = mod.KTop(); top.elaborate()
          text, fn, topmod = cosim.translate(top, be)
        except Exception as e:
          if kw == "plain_name": sh.inconclusive("keyword-probe-control-design-refused:" + type(e).__name__)
          sh.count("reserved_word_probes_refused"); continue
        finally:
          G.unload(mod)
        try: os.remove(fn)
        except OSError: pass
        if kw == "plain_name": sh.count("reserved_word_probe_controls_translated"); continue
        body_ = "\n".join(l.split("//")[0] for l in text.splitlines())
        if re.search(r"(?<![\w$])%s(?![\w$])" % re.escape(kw), body_):
          lines = [l.strip() for l in body_.splitlines() if re.search(r"(?<![\w$])%s(?![\w$])" % re.escape(kw), l)][:3]
          sh.violation("reserved-word-emitted-as-identifier", {"keyword": kw, "used_as": where, "backend": be, "lines": lines,
                       "since": "IEEE 1800-2009/2012" if kw in NEWER_KEYWORDS else "IEEE 1364 / 1800-2005"},
                       mechanism="keywords-added-by-1800-2009-and-2012-not-reserved" if kw in NEWER_KEYWORDS else None, case=("keyword", kw, where, be))
        else: sh.count("reserved_word_probes_renamed")


NEWER_KEYWORDS = set("accept_on checker endchecker eventually global implements implies interconnect let nettype nexttime reject_on restrict s_always "
                     "s_eventually s_nexttime s_until s_until_with soft strong sync_accept_on sync_reject_on unique0 until until_with untyped weak".split())


def run_shard(sh):
  if sh.params["part"] == 0: run_subtree_probe(sh)
  if sh.params["part"] == 1: run_multiunit_probe(sh)
  if sh.params["part"] == 2: run_dupmodule_probes(sh)
  if sh.params["part"] == 3: run_retranslate_probe(sh)
  if sh.params["part"] == 4: run_structname_probe(sh)
  if sh.params["part"] == 6: run_filename_probe(sh)
  run_keyword_probe(sh)
  rng = sh.rng("c13")
  items = []
  for c in range(sh.params["designs"]):
    r = sh.rng("sg", c)
    kn = dict(trcommon.TR_KNOBS); kn.update(knobs(r))
    # lambda connections on whole signals and on fields / bits / slices: the labels (and the names of their closure constants)
    # carry the instance path - module_bodies() takes that path out before bodies are compared, the identifier check sees it
    kn["p_lambda"] = 0.25; kn["p_lambda_part"] = 0.5
    d = G.generate(r, kn)
    items.append({"type": "specgen", "design": d, "backends": ["sv", "ys"]})
    # stand-alone translation of every class of the hierarchy
    for cn in d["order"]:
      if cn != d["top"]:
        items.append({"type": "specgen", "design": d, "top": cn, "backends": ["sv"], "standalone_of": len(items) - 1 - d["order"].index(cn) if False else None, "parent": c})
  nspec = len(items)
  for c in range(sh.params["pdesigns"]):
    r = sh.rng("pd", c)
    it = gen_param_design(r, odd=False, force_int_str=(sh.params["part"] == 5 and c == 0))          # the F-N13 probe pair in every run
    items.append(it)
    for a_, g in enumerate(it["groups"]):
      for j_, cfg in enumerate(g):
        items.append({"type": "leaf", "T": it["T"], "cfg": cfg, "backends": ["sv"], "pos": [a_, j_]})
  outs = run_workers(sh, items, sh.params["procs"], "clean")
  if len(outs) < 2:
    sh.inconclusive("fewer-than-2-worker-results"); return
  name_params = {}
  # 1. byte equality across processes
  for i, item in enumerate(items):
    for be in item["backends"]:
      vals = [o[i][be] for o in outs]
      sh.count("texts_compared", len(vals))
      for v in vals:
        if v.get("again_same"): sh.count("second_translations_in_one_process_compared")
        elif "again_differs" in v:
          sh.violation("translating-the-same-design-again-in-the-same-process-gives-different-text", {"backend": be, "item": item.get("type"), "diff": v["again_differs"]}, case=("again", i, be)); break
        elif "again_raised" in v:
          sh.count("second_translation_raised"); sh.sample({"second_translation_raised": v["again_raised"]})
      if "text" not in vals[0]:
        sh.count("rejected_by_translator")
        if item["type"] in ("specgen", "param") and not item.get("top") and be == "sv": pass
        continue
      if item["type"] in ("specgen", "param") and not item.get("top"):
        sh.count("design_backend_pairs")
      texts = [v.get("text") for v in vals]
      if any(t != texts[0] for t in texts):
        k = next(j for j, t in enumerate(texts) if t != texts[0])
        a, b = (texts[0] or "").splitlines(), (texts[k] or "").splitlines()
        dl = [(x, y) for x, y in zip(a, b) if x != y][:4]
        sh.violation("translation-text-differs-between-processes/hash-seeds", {"backend": be, "first_differing_lines": dl,
                     "len_a": len(a), "len_b": len(b), "item_type": item["type"]}, case=("item", i))
  # 2. tables + 3. aliasing
  cur_design = None
  for i, item in enumerate(items):
    if item["type"] in ("specgen", "param") and not item.get("top"):
      cur_design = None
    for be in item["backends"]:
      v = outs[0][i][be]
      if "text" not in v: continue
      r = check_text_table(sh, v["text"], f"{item['type']}/{be}", item, ("item", i))
      if r is None:
        if item["type"] in ("specgen", "param") and not item.get("top") and be == "sv": cur_design = None
        continue
      bodies, d = r
      if item["type"] in ("specgen", "param") and not item.get("top"):
        cur = {"bodies": bodies, "item": item, "be": be, "i": i, "text": v["text"]}
        if be == "sv": cur_design = cur
        shared = sum(1 for m in d.modules.values() for it in m["items"] if it[0] == "inst")
        if shared >= 2 or item["type"] == "param":
          sh.fp(item["type"], i, sh.idx)
        for n in bodies:
          if re.search(r"__[0-9a-f]{16}$", n): sh.count("hashed_module_names")
        if item["type"] == "param":
          sh.count("parameterisations", sum(len(g) for g in item["groups"]))
        sh.count("evaluations")
      if item["type"] == "leaf" and be == "sv":
        # injectivity: one module name, one set of (effective) parameter values
        c_ = item["cfg"]; ov_ = c_[6] if len(c_) > 6 else {}
        eff = json.dumps([c_[0], item["T"], c_[1], ov_.get("inc", c_[5] if c_[4] & 1 else 1), c_[2] if c_[4] & 2 else {"kind": "none"},
                          {"kind": "int", "v": ov_["opt"]} if "opt" in ov_ else (c_[3] if c_[4] & 4 else {"kind": "int", "v": 0})], sort_keys=True)
        if not any(x.get("kind") in ("func", "object") for x in (c_[2], c_[3]) if isinstance(x, dict)):
          prev = name_params.setdefault(v["top_module"], eff)
          sh.count("module_name_injectivity_checks")
          if prev != eff:
            pa, pb = json.loads(prev), json.loads(eff)
            dif = [(x, y) for x, y in zip(pa, pb) if x != y]
            alike = all(isinstance(x, dict) and isinstance(y, dict) and {x.get("kind"), y.get("kind")} == {"int", "str"} and str(x.get("v")) == str(y.get("v")) for x, y in dif)
            sh.violation("instances-with-different-parameter-values-share-one-module-name", {"module": v["top_module"], "parameters_a": pa,
                         "parameters_b": pb}, mechanism="int-and-string-parameter-values-print-alike" if dif and alike else None, case=("item", i))
        exp = expected_full_name(item)
        if exp is not None:
          sh.count("full_names_checked")
          got = v["top_module"]
          m = re.search(r"// Full name: (.*)", v["text"])
          full = m.group(1).strip() if (m and re.search(r"__[0-9a-f]{16}$", got)) else got
          if full != exp:
            sh.violation("module-name-does-not-encode-the-parameter-values-of-the-instance", {"expected_full_name": exp, "got_full_name": full,
                         "module": got, "item": item}, case=("item", i))
      if item["type"] in ("specgen", "param") and not item.get("top"):
        pass
      elif be == "sv" and cur_design is not None:
        # stand-alone translation of one class / parameterisation: its top module body must equal the body under that
        # name in the hierarchy's text
        top_mod = v["top_module"]
        if item["type"] == "leaf" and "pos" in item and cur_design["item"]["type"] == "param":
          # the INSTANCE statement of this leaf inside the hierarchy names the module of this very parameterisation
          a_, j_ = item["pos"]
          mtop = [b_ for n_, b_ in cur_design["bodies"].items() if n_.startswith("ParamTop")]
          m1 = re.search(r"(\S+)\s+mids__%d\s*\(" % a_, mtop[0][0]) if mtop else None
          mid_body = cur_design["bodies"].get(m1.group(1)) if m1 else None
          m2 = re.search(r"(\S+)\s+leafs__%d\s*\(" % j_, mid_body[0]) if mid_body else None
          if m2 is None:
            sh.count("instance_statements_not_found")
          else:
            sh.count("instance_statements_checked")
            if m2.group(1) != top_mod:
              sh.violation("instance-statement-names-the-module-of-another-parameterisation", {"instance": f"mids[{a_}].leafs[{j_}]", "instantiated_module": m2.group(1),
                           "module_of_this_parameterisation": top_mod, "item": item}, case=("item", i))
        sh.count("standalone_bodies_compared")
        hb = cur_design["bodies"].get(top_mod)
        if hb is None:
          sh.violation("stand-alone-module-name-not-present-in-hierarchy-text", {"module": top_mod, "item": item if item["type"] != "specgen" else item.get("top"),
                       "hierarchy_modules": sorted(cur_design["bodies"])[:8]}, case=("item", i))
        elif hb[0] != bodies[top_mod][0]:
          a, b = hb[0].splitlines(), bodies[top_mod][0].splitlines()
          dl = [(x, y) for x, y in zip(a, b) if x != y][:4]
          sh.violation("instances-share-a-module-name-but-their-stand-alone-body-differs", {"module": top_mod, "differing_lines": dl,
                       "item": item if item["type"] != "specgen" else item.get("top")},
                       mechanism="same-class-name-and-params-share-one-module" if False else None, case=("item", i))
  names = []
  if len(items) > nspec and "text" in outs[0][nspec]["sv"]:
    names = re.findall(r"^module\s+(\S+)", outs[0][nspec]["sv"]["text"], re.M)[:6]
  sh.sample({"items_in_batch": len(items), "worker_processes": len(outs), "example_module_names": names})
  # 4. probe stream: odd parameter values (illegal identifier characters) and address-bearing parameters
  if sh.params["part"] == 0:
    pit = []
    for c in range(3):
      pit.append(gen_param_design(sh.rng("odd", c), odd=True))
    pit.append({"type": "leaf", "T": {"kind": "bits_type", "n": 8}, "cfg": [0, {"kind": "int", "v": 1}, {"kind": "func"}, {"kind": "int", "v": 0}, 6, 1], "backends": ["sv"]})
    po = run_workers(sh, pit, 2, "probe")
    for i, item in enumerate(pit):
      for be in item["backends"]:
        if len(po) < 2 or "text" not in po[0][i][be]: continue
        if po[0][i][be].get("text") != po[1][i][be].get("text"):
          a, b = po[0][i][be]["text"].splitlines(), po[1][i][be]["text"].splitlines()
          dl = [(x, y) for x, y in zip(a, b) if x != y][:3]
          norm = lambda t: re.sub(r"0x[0-9a-f]+|[0-9a-f]{16}", "H", t)
          addr = all(norm(x) == norm(y) for x, y in dl)
          sh.violation("translation-text-differs-between-processes/hash-seeds", {"backend": be, "first_differing_lines": dl, "probe": True,
                       "item": item}, mechanism="parameter-str-embeds-object-address" if addr and any(c[2].get("kind") in ("func", "object") for c in [item.get("cfg", [0, 0, {}])]) else None,
                       case=("probe", i))
        check_text_table(sh, po[0][i][be]["text"], f"probe/{be}", item, ("probe", i))
