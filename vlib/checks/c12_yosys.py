"""C12 - Yosys-compatible translation is equivalent, with a faithful flat port map."""
import re

from vlib import specgen as G
from vlib.checks import trcommon as T
from vlib.checks import c03_sv

PROPERTY = "C12"
LEVEL = "translation_validation"
RULE = ("program = one component hierarchy accepted by YosysTranslationPass (repo test-case corpus with the authors' vectors, stdlib "
        "components, generated designs with struct / list / nested ports and sub-component struct ports); the emitted text is "
        "parsed, elaborated, driver-analysed and executed by vlib/svsim; every flattened port (struct leaf, array element, "
        "interface member) is driven from / compared with exactly the bits of the packed PyMTL port value that an independent "
        "layout (vlib/bitsref.leaves) assigns to it, every cycle. distinct_nontrivial = distinct design sources co-simulated to "
        "the last cycle")
ASSUMPTIONS = c03_sv.ASSUMPTIONS + [
  "flat port naming rule: <port>[__<index>]*[__<field>|__<index>]* ; a port missing under that rule is reported as a port-map violation",
  "clean stream = struct-typed outputs / child inputs driven as a whole and no struct-typed wires (the shapes of the listed findings F-Y1/F-Y3 are produced by the probe stream only)",
]


def plan(tier, seed):
  q = tier == "quick"
  return [{"hashseed": (seed * 61 + i) % 1061, "part": i, "nparts": 16, "designs": 26 if q else 400, "probes": 3 if q else 20, "params": 6 if q else 60, "ifcs": 4 if q else 40} for i in range(16)]


def thresholds(tier):
  t = {"programs": 220, "cycles_cosimulated": 5000, "driver_sets_analysed": 3000, "corpus_cases_cosimulated": 50,
       "stdlib_components_cosimulated": 60, "generated_designs_cosimulated": 150, "param_designs_cosimulated": 60, "svsim_lrm_examples_ok": 24, "struct_constants_evaluated_in_text": 40, "hetero_list_designs": 16, "localname_designs_cosimulated": 30,
       "struct_leaf_ports_mapped": 300, "array_element_ports_mapped": 300, "child_port_list_designs_cosimulated": 20, "const_struct_connection_designs_cosimulated": 20}
  if tier == "thorough":
    t.update({"programs": 2400, "generated_designs_cosimulated": 2200, "cycles_cosimulated": 50000})
  return t


def knobs_clean(rng):
  return {"depth": rng.choice([0, 1, 1, 2]), "max_children": rng.choice([1, 2]), "p_struct": rng.choice([0.3, 0.6]), "p_list": 0.3,
          "p_ff": 0.25, "max_sigs": rng.choice([3, 4]), "expr_depth": rng.choice([2, 3]), "struct_split": False, "struct_wires": False, "for_desc": rng.random() < 0.3,      # descending loops: refused by this back end today
          "p_nested_field": rng.choice([0, 0, 0, 0.3]), "p_list_field": rng.choice([0, 0.4, 0.4]), "p_const_struct": rng.choice([0.2, 0.7]), "avoid_const_ops": rng.random() < 0.5, "p_const_expr": 0.15}


def knobs_probe(rng):
  return {"depth": rng.choice([0, 1]), "max_children": 1, "p_struct": 0.8, "p_list": 0.1, "p_ff": 0.3, "max_sigs": 3, "expr_depth": 1,
          "struct_split": True, "struct_wires": True, "p_split": 0.8, "for_desc": False}


# ---- known-finding predicates ---------------------------------------------------------------------------------------

def design_struct_field_driven(d):
  """a struct-typed OutPort or child InPort is driven field by field (block target or connect destination)"""
  for cls in d["classes"].values():
    refs = [c[0] for c in cls["connects"]]
    for b in cls["blocks"]:
      refs += G.stmt_reads_writes(b["stmts"], [], [])[1]
    for r in refs:
      if not r["steps"] or r["steps"][0][0] != "f": continue
      path = r["path"]
      if "." in path:
        iname, rest = path.split(".", 1)
        sgs = d["classes"][dict(cls["children"])[iname]]["signals"]
        sg = next((x for x in sgs if x["name"] == rest.split("[")[0]), None)
        if sg and sg["kind"] == "InPort": return True
      else:
        sg = next((x for x in cls["signals"] if x["name"] == path.split("[")[0]), None)
        if sg and sg["kind"] == "OutPort": return True
  return False


def design_struct_wire(d):
  return any(sg["kind"] == "Wire" and not isinstance(sg["type"], int) for cls in d["classes"].values() for sg in cls["signals"])


def src_struct_names(src):
  return set(re.findall(r"@bitstruct\s*\nclass (\w+)", src))


def src_struct_field_driven(src):
  st = src_struct_names(src)
  ports = set(re.findall(r"s\.(\w+)\s*=\s*(?:OutPort|InPort)\(\s*(\w+)\s*\)", src))
  names = {n for n, t in ports if t in st}
  return any(re.search(r"s\.(?:\w+\.)?%s\.\w+(?:\[[^\]]*\])?\s*(?:@=|//=)" % n, src) for n in names)


def src_struct_wire(src):
  st = src_struct_names(src)
  return any(t in st for _, t in re.findall(r"s\.(\w+)\s*=\s*Wire\(\s*(\w+)\s*\)", src))


def src_hetero_component_list(src):
  return bool(re.search(r"s\.\w+\s*=\s*\[[^\]]*\(\)\s*for", src)) and "comp_types" in src or bool(re.search(r"\[\s*\w+\(\)\s*,\s*\w+\(\)", src))


def mech(kind, w, design=None):
  """known-finding predicates over the witness (emitted text facts first, design shape second)"""
  src = w.get("source", "")
  if kind == "emitted-text-does-not-parse-or-elaborate" and re.search(r"\d+ ' d - \d+", w.get("error", "")):
    return "negative-free-variable-emitted-as-unsigned-literal"
  if kind == "emitted-text-does-not-parse-or-elaborate" and re.search(r"instantiated module \w+ is not defined", w.get("error", "")) \
     and "explicit_module_name" in src:
    return "explicit-module-name-on-one-of-two-identical-instances-leaves-a-module-undefined"
  if kind == "variable-with-more-than-one-driver" and w.get("all_dual_form"):
    return "yosys-struct-port-driven-by-field-gets-several-drivers"
  if kind == "read-or-output-variable-without-driver" and w.get("all_dual_form"):
    return "yosys-struct-wire-whole-and-field-forms-not-linked"
  if kind == "output-differs-from-pymtl-simulation":
    if w.get("component_list_with_different_classes"): return "yosys-component-list-elements-instantiated-with-class-of-element-0"
    if two_loopvars_compared(src): return "yosys-loop-variables-are-signed-integers"
    if c03_sv.literal_branch_ifexp_meets_int_semantics(src): return "ifexp-with-literal-branch-evaluates-to-python-int-in-simulation"
    if c03_sv.loopvar_modulo_index(src): return "loop-variable-arithmetic-in-index-evaluated-at-index-width"
    if c03_sv.const_only_nonring_subexpr(src): return "const-subexpression-narrowed-before-nonring-operator"
    if c03_sv.duplicate_class_names(src): return "same-class-name-and-params-share-one-module"
  return None


def two_loopvars_compared(src):
  """the design compares two loop variables with each other ( if j < i ) - the shape of F-Y8"""
  lv = set(re.findall(r"for (\w+) in range\(", src))
  return any(re.search(r"\b%s\s*(<=|>=|<|>)\s*%s\b" % (re.escape(a), re.escape(b)), src) for a in lv for b in lv if a != b)


PROBES = dict(c03_sv.PROBES)
PROBES["F-Y8"] = ("""from pymtl3 import *
class Top(Component):
  def construct(s):
    s.in_ = InPort(4); s.out = OutPort(4)
    @update
    def up():
      s.out @= 0
      for i in range(4):
        for j in range(4):
          if j < i:
            s.out[i] @= s.out[i] | s.in_[j]
""", "Top")
PROBES["F-Y1"] = ("""from pymtl3 import *
@bitstruct
class P:
  a: mk_bits(4)
  b: mk_bits(8)
class Top(Component):
  def construct(s):
    s.x = InPort(12); s.o = OutPort(P)
    @update
    def up():
      s.o.a @= s.x[0:4]
      s.o.b @= s.x[4:12]
""", "Top")
PROBES["F-Y3"] = ("""from pymtl3 import *
@bitstruct
class P:
  a: mk_bits(4)
  b: mk_bits(8)
class Top(Component):
  def construct(s):
    s.x = InPort(12); s.w = Wire(P); s.o = OutPort(4)
    @update
    def up(): s.w @= s.x
    @update
    def up2(): s.o @= s.w.a
""", "Top")
PROBES["F-Y4"] = ("""from pymtl3 import *
class A(Component):
  def construct(s):
    s.i = InPort(8); s.o = OutPort(8)
    s.o //= s.i
class B(Component):
  def construct(s):
    s.i = InPort(8); s.o = OutPort(8)
    @update
    def up(): s.o @= s.i + 42
class Top(Component):
  def construct(s):
    s.x = InPort(8); s.y = OutPort(8); s.z = OutPort(8)
    s.c = [ A(), B() ]
    s.c[0].i //= s.x; s.c[1].i //= s.x
    s.y //= s.c[0].o; s.z //= s.c[1].o
""", "Top")


def count_ports(sh, backend="ys"):
  pass


def run_shard(sh):
  part, nparts = sh.params["part"], sh.params["nparts"]
  if not T.selfcheck(sh):
    return
  T.corpus_stream(sh, "ys", part, nparts, mech)
  T.stdlib_stream(sh, "ys", part, nparts, mech)
  T.param_stream(sh, "ys", sh.params.get("params", 6), mech)
  T.ifc_stream(sh, "ys", sh.params.get("ifcs", 4), mech)
  T.hetero_stream(sh, "ys", 2, mech)
  T.descloop_stream(sh, "ys", 4 if sh.tier == "quick" else 40, mech)
  T.castuse_stream(sh, "ys", 6 if sh.tier == "quick" else 50, mech)
  T.feedback_stream(sh, "ys", 4 if sh.tier == "quick" else 40, mech)
  T.consttbl_stream(sh, "ys", 4 if sh.tier == "quick" else 40, mech)
  T.ifcportlist_stream(sh, "ys", 3 if sh.tier == "quick" else 30, mech)
  T.childportlist_stream(sh, "ys", 3 if sh.tier == "quick" else 30, mech)
  T.structtmp_stream(sh, "ys", 2 if sh.tier == "quick" else 20, mech)
  T.conststructconn_stream(sh, "ys", 3 if sh.tier == "quick" else 30, mech)
  T.liststruct_stream(sh, "ys", 3 if sh.tier == "quick" else 30, mech)
  T.constuse_stream(sh, "ys", 4 if sh.tier == "quick" else 40, mech)
  T.localname_stream(sh, "ys", 4 if sh.tier == "quick" else 40, mech)
  T.specgen_stream(sh, "ys", sh.params["designs"], knobs_clean, mech, "gen")
  T.specgen_stream(sh, "ys", sh.params["probes"], knobs_probe, mech, "probe-gen", count="probe_generated_designs")
  if part == 0:
    for name, (src, top) in PROBES.items():
      T.directed(sh, "ys", name, src, top, mech)
