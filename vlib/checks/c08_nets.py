"""C08 - connected signals form single-writer nets independent of connect order."""
import traceback

from vlib import specgen as G
from vlib import simmon as M

PROPERTY = "C08"
LEVEL = "exploration"
RULE = ("case = one generated legal design (connections between whole signals, slices, struct fields, slices of fields, "
        "constants, through 0-2 hierarchy levels, chains of nets joined through relatives) elaborated under N random "
        "permutations of its connect statements x random side flips / connect() vs //= forms; get_all_value_nets() and "
        "get_signal_adjacency_dict() observed each time are compared with the connected components / unique non-driven-by-connect "
        "member computed from the spec, and with each other; in simulation every member of every net must carry the writer's "
        "value. distinct_nontrivial = designs with >= 3 multi-member nets (beyond clk/reset)")
ASSUMPTIONS = [
  "expected nets = connected components (>=2 members) of the graph whose edges are the connect statements (implicit clk/reset connections included); expected writer = the unique member that is no connect destination (block-driven object, top-level input, constant, or bit-overlapping driven relative)",
  "the generator never puts two overlapping slices of one signal into the same net",
]


def plan(tier, seed):
  q = tier == "quick"
  return [{"hashseed": (seed * 37 + i) % 1021, "heap_pad": (i * 409) % 4000, "designs": 30 if q else 200,
           "perms": 12 if q else 100} for i in range(16)]


def thresholds(tier):
  t = {"designs": 120, "elaborations": 1500, "nets_compared": 10000, "designs_with_10_orders": 100, "member_value_comparisons": 5000,
       "adjacency_comparisons": 1000, "sibling_chain_designs": 80, "interface_connections_in_both_orientations": 80, "constant_template_designs": 80, "holey_list_designs": 80, "partly_driven_ancestor_designs": 200}
  if tier == "thorough":
    t = {k: v * 12 for k, v in t.items()}
    t["sibling_chain_designs"] = 600; t["interface_connections_in_both_orientations"] = 600; t["constant_template_designs"] = 600; t["holey_list_designs"] = 600; t["partly_driven_ancestor_designs"] = 2000      # 60 per shard
  return t


def knobs_for(rng):
  return {"depth": rng.choice([0, 1, 1, 2]), "max_children": rng.choice([1, 2, 3]), "p_ff": 0.15, "p_connect": rng.choice([0.6, 0.8]), "p_connect_reset": rng.choice([0, 0.4]), "p_branchy": rng.choice([0, 0.2]), "p_const_generic": rng.choice([0, 0.5]), "p_const": rng.choice([0, 0.15]),
          "p_split": rng.choice([0.4, 0.7]), "p_struct": 0.4, "max_sigs": rng.choice([4, 6]), "expr_depth": 1, "p_if": 0.1,
          "p_nested_field": rng.choice([0, 0.3]), "p_list_field": rng.choice([0, 0.3]), "p_func": rng.choice([0, 0.3]), "p_shadow": 0.3, "p_nested_slice": rng.choice([0, 0.5]), "p_omit_bounds": rng.choice([0, 0.6]), "p_vfunc": rng.choice([0, 0.4]), "p_subclass": rng.choice([0, 0.5])}


def expected_nets(design, ref):
  """from the spec: {frozenset(member names): writer name}; names follow the documented naming (C14)"""
  parent = {}
  def find(x):
    parent.setdefault(x, x)
    while parent[x] != x:
      parent[x] = parent[parent[x]]; x = parent[x]
    return x
  dsts = set()
  nconst = [0]
  def name(host, r):
    st = [x[:3] if x[0] == "s" else x for x in r["steps"]]          # the name of a slice always spells both bounds
    r = dict(r, steps=st)
    if len(st) >= 2 and st[-1][0] == "s" and st[-2][0] == "s":
      # a slice of a slice IS the slice with the absolute bounds (one object, one name)
      a = st[-2][1]
      r = dict(r, steps=st[:-2] + [["s", a + st[-1][1], a + st[-1][2]]])
    return G.ref_text(r).replace("s.", host + ".", 1)
  edges = []
  for host, dst, src in ref.conn:
    d = name(host, dst)
    if "const" in src:
      nconst[0] += 1
      s = ("const", nconst[0], src["const"])
    else:
      s = name(host, src)
    edges.append((d, s))
    parent[find(d)] = find(s)
    dsts.add(d)
  groups = {}
  for x in list(parent):
    groups.setdefault(find(x), set()).add(x)
  out = {}
  for g in groups.values():
    roots = [m for m in g if m not in dsts]
    names = frozenset(m if isinstance(m, str) else f"const:{m[2]}" for m in g)
    if len(roots) != 1:
      out[names] = "<generator-ambiguous>"
    else:
      r = roots[0]
      out[names] = r if isinstance(r, str) else f"const:{r[2]}"
  return out, edges


def observed_nets(top):
  from pymtl3.dsl.Connectable import Const
  def nm(x):
    if isinstance(x, Const):
      return f"const:{int(x._dsl.const)}"
    return repr(x)
  out = {}
  for writer, signals in top.get_all_value_nets():
    if len(signals) < 2:
      continue
    out[frozenset(nm(x) for x in signals)] = nm(writer) if writer is not None else None
  adj = {}
  for k, vs in top.get_signal_adjacency_dict().items():
    if vs:
      adj[nm(k)] = frozenset(nm(v) for v in vs)
  return out, adj


def run_case(sh, case):
  rng = sh.rng("design", case)
  d = G.generate(rng, knobs_for(rng))
  for sk, sv in d.get("stats", {}).items(): sh.count(sk, sv)
  ref = G.Ref(d)
  exp, edges = expected_nets(d, ref)
  if any(v == "<generator-ambiguous>" for v in exp.values()):
    sh.inconclusive("generator-produced-ambiguous-net"); return
  exp_adj = {}
  for a, b in edges:
    b2 = b if isinstance(b, str) else f"const:{b[2]}"
    exp_adj.setdefault(a, set()).add(b2); exp_adj.setdefault(b2, set()).add(a)
  first = None
  orders = set()
  src0 = G.emit(d)
  for k in range(sh.params["perms"]):
    co, cs = {}, {}
    for cn, c in d["classes"].items():
      n = len(c["connects"])
      order = list(range(n))
      if k > 0: rng.shuffle(order)
      co[cn] = order
      cs[cn] = [0 if k == 0 else rng.randrange(4) for _ in range(n)]
    orders.add(tuple((cn, tuple(co[cn]), tuple(cs[cn])) for cn in sorted(co)))
    src = G.emit(d, co, cs)
    mod = G.load_source(src, "c08")
    try:
      top = getattr(mod, d["top"])()
      try:
        top.elaborate()
      except Exception as e:
        sh.violation("legal-design-rejected-under-some-connect-order", {"error": traceback.format_exc()[-500:], "perm": k,
                                                                        "design_source": src}, case=case)
        return
      sh.count("elaborations")
      nets, adj = observed_nets(top)
      sh.count("nets_compared", len(nets))
      if nets != exp:
        only_obs = [(sorted(m), w) for m, w in nets.items() if exp.get(m) != w][:3]
        only_exp = [(sorted(m), w) for m, w in exp.items() if nets.get(m) != w][:3]
        sh.violation("nets-or-writers-differ-from-connection-graph", {"perm": k, "observed_not_expected": only_obs,
                                                                      "expected_not_observed": only_exp, "design_source": src}, case=case)
        return
      # adjacency: const objects are distinct per statement in pymtl3; compare on names
      sh.count("adjacency_comparisons")
      a_obs = {kk: set(v) for kk, v in adj.items() if not kk.startswith("const:")}
      a_exp = {kk: set(v) for kk, v in exp_adj.items() if not kk.startswith("const:")}
      if a_obs != a_exp:
        bad = [kk for kk in set(a_obs) | set(a_exp) if a_obs.get(kk) != a_exp.get(kk)][:4]
        sh.violation("adjacency-differs-from-connect-statements", {"perm": k, "names": bad,
                     "observed": [sorted(a_obs.get(b, [])) for b in bad], "expected": [sorted(a_exp.get(b, [])) for b in bad],
                     "design_source": src}, case=case)
        return
      if first is None:
        first = nets
      # simulate the last permutation and the first: members carry the writer's value
      if k in (0, sh.params["perms"] - 1):
        # the first order under the default pass group, the last one under any of the five
        smode = "default" if k == 0 else rng.choice(["default", "simple", "unroll", "heutopo", "mamba"])
        M.apply_mode(top, smode, rng); sh.count("member_simulations:" + smode)
        live = M.Live(top)
        widths = {p: w for p, w in G.top_inputs(d)}
        seq = M.gen_inputs(rng, d, 4)
        def val(name):
          # name = root path + steps; evaluate through the reference's layout: read root, extract bits
          return live.sig(name) if "const:" not in name else int(name.split(":")[1])
        for cyc, inp in enumerate(seq):
          M.set_inputs(top, live, inp, widths, int(cyc < 1))
          try:
            top.sim_eval_combinational()
          except Exception as e:
            sh.violation("simulation-of-a-legal-net-structure-raised", {"error": f"{type(e).__name__}: {str(e)[:200]}", "cycle": cyc, "design_source": src}, case=case)
            return
          for members, w in nets.items():
            wv = val(w)
            for m in members:
              sh.count("member_value_comparisons")
              if val(m) != wv:
                sh.violation("net-member-differs-from-writer-in-simulation", {"net": sorted(members), "writer": w, "member": m,
                             "writer_value": hex(wv), "member_value": hex(val(m)), "cycle": cyc, "design_source": src}, case=case)
                return
          top.sim_tick()
    finally:
      G.unload(mod)
  sh.count("designs"); sh.count("evaluations")
  if len(orders) >= 10: sh.count("designs_with_10_orders")
  real = [m for m in exp if not any(x.endswith(".clk") or x.endswith(".reset") for x in m)]
  if len(real) >= 3:
    sh.fp(src0)
  if case < 1:
    sh.sample({"nets_expected": [[sorted(m), w] for m, w in list(exp.items())[:6]], "connect_orders_tried": len(orders),
               "multi_member_nets": len(exp)})


def gen_chain(rng):
  """N sibling instances of ONE class; each ties a slice of an own port to its own output (a net member inside the writer's
  component), the parent passes that output on into a slice of the next sibling's input (a member beside the writer) - at the
  top or one / two levels down.  -> source, dict(n, w, a, b, depth)"""
  W = rng.choice([8, 12, 16]); a = rng.randrange(0, W - 2); b = rng.randrange(a + 1, W + 1 if a else W)
  n = rng.randrange(2, 5); w2 = b - a; depth = rng.choice([0, 0, 1, 2])
  inner = rng.choice(["dbg-slice", "dbg-slice", "wire-slice", "none"])
  bb = rng.random() < 0.35          # the bounds of the slices are given as Bits constants ( s.x[LO:HI], LO = Bits8(a) )
  A, B = (f"Bits8({a})", f"Bits8({b})") if bb else (a, b)
  L = ["from pymtl3 import *", "class PE(Component):", "  def construct(s):",
       f"    s.in_ = InPort({W}); s.out = OutPort({w2}); s.dbg = OutPort({W}); s.aux = Wire({W})"] + ([f"    LO = {A}; HI = {B}"] if bb else []) + [
       "    @update", "    def up():", f"      s.out @= s.in_[{'LO:HI' if bb else f'{a}:{b}'}] + 1"]
  if inner == "dbg-slice": L.append(f"    s.dbg[{a}:{b}] //= s.out")
  else: L.append(f"    s.dbg[{a}:{b}] //= 0")
  if a: L.append(f"    s.dbg[0:{a}] //= 0")
  if b < W: L.append(f"    s.dbg[{b}:{W}] //= 0")
  if inner == "wire-slice": L += [f"    s.aux[{a}:{b}] //= s.out"] + ([f"    s.aux[0:{a}] //= 0"] if a else []) + ([f"    s.aux[{b}:{W}] //= 0"] if b < W else [])
  else: L.append("    s.aux //= 0")
  L += ["class Row(Component):", "  def construct(s):", f"    s.in_ = InPort({W}); s.out = OutPort({W}); s.last = OutPort({w2})",
        f"    s.pe = [PE() for _ in range({n})]"]
  conns = ["s.pe[0].in_ //= s.in_"]
  for i in range(n - 1):
    conns.append(f"s.pe[{i + 1}].in_[{A}:{B}] //= s.pe[{i}].out" if rng.random() < 0.7 else f"connect(s.pe[{i}].out, s.pe[{i + 1}].in_[{A}:{B}])")
    if a: conns.append(f"s.pe[{i + 1}].in_[0:{a}] //= s.in_[0:{a}]")
    if b < W: conns.append(f"s.pe[{i + 1}].in_[{b}:{W}] //= s.in_[{b}:{W}]")
  conns += [f"s.out //= s.pe[{n - 1}].dbg", f"s.last //= s.pe[{n - 1}].out"]
  rng.shuffle(conns)
  L += ["    " + c for c in conns]
  prev = "Row"
  for d in range(depth):
    L += [f"class Wrap{d}(Component):", "  def construct(s):", f"    s.in_ = InPort({W}); s.out = OutPort({W}); s.last = OutPort({w2})",
          f"    s.r = {prev}()", "    s.r.in_ //= s.in_; s.out //= s.r.out; s.last //= s.r.last"]
    prev = f"Wrap{d}"
  L += [f"CTop = {prev}"]
  return "\n".join(L) + "\n", {"n": n, "W": W, "a": a, "b": b, "depth": depth, "inner_member": inner, "bits_bounds": bb}


def run_chain(sh, case):
  rng = sh.rng("chain", case)
  src, info = gen_chain(rng)
  mod = G.load_source(src, "c08chain")
  try:
    for mode in ("default", "mamba"):
      top = mod.CTop()
      try:
        M.apply_mode(top, mode, rng)
      except Exception as e:
        sh.violation("legal-sibling-chain-design-could-not-be-built", dict(info, mode=mode, error=f"{type(e).__name__}: {str(e)[:300]}", design_source=src), case=("chain", case)); return
      row = top
      for _ in range(info["depth"]): row = row.r
      n, W, a, b = info["n"], info["W"], info["a"], info["b"]; w2 = b - a
      for _ in range(4):
        x = rng.getrandbits(W)
        top.in_ @= x; top.sim_eval_combinational()
        v = (x >> a) & ((1 << w2) - 1)
        for i in range(n):
          exp_in = x if i == 0 else (x & ~(((1 << w2) - 1) << a)) | (v << a)
          v = (((exp_in >> a) & ((1 << w2) - 1)) + 1) & ((1 << w2) - 1)
          sh.count("sibling_chain_value_comparisons", 3)
          got = (int(row.pe[i].in_), int(row.pe[i].out), int(row.pe[i].dbg))
          want = (exp_in, v, (v << a) if info["inner_member"] == "dbg-slice" else 0)
          if got != want:
            sh.violation("net-member-differs-from-writer-in-simulation", dict(info, mode=mode, element=f"pe[{i}]", input=hex(x), got_in_out_dbg=[hex(g) for g in got],
                         expected_in_out_dbg=[hex(g) for g in want], top_in_reads_back=hex(int(top.in_)), design_source=src), case=("chain", case)); return
        if int(top.last) != v or int(top.in_) != x:
          sh.violation("net-member-differs-from-writer-in-simulation", dict(info, mode=mode, element="top", input=hex(x), got_last=hex(int(top.last)), expected_last=hex(v),
                       top_in_reads_back=hex(int(top.in_)), design_source=src), case=("chain", case)); return
        top.sim_tick()
    sh.count("sibling_chain_designs"); sh.fp("chain", tuple(sorted(info.items())))
    if info["bits_bounds"]: sh.count("sibling_chain_designs_with_bits_typed_bounds")
  finally:
    G.unload(mod)


def run_holey(sh, case):
  """signals kept in lists that ALSO hold non-hardware entries (None for an unused / 1-based slot, a plain int, an empty list) at
  the front, in the middle or at the end, one or two levels deep, possibly inside a sub-component: the nets are the connected
  components of the connection graph all the same, with the right writer, and every member follows the writer in simulation"""
  rng = sh.rng("holey", case)
  n = rng.randrange(2, 5)
  hole = rng.choice([None, None, 0, "x"])
  where = rng.choice(["front", "front", "middle", "end", "two-front", "none"])
  two_d = rng.random() < 0.3
  in_child = rng.random() < 0.4
  slots = list(range(n))
  lay = {"front": [hole] + slots, "two-front": [hole, hole] + slots, "middle": slots[:1] + [hole] + slots[1:], "end": slots + [hole], "none": slots}[where]
  idx = []
  for i, e in enumerate(lay):
    if where in ("front", "two-front") and i < (2 if where == "two-front" else 1): continue
    if where == "middle" and i == 1: continue
    if where == "end" and i == len(lay) - 1: continue
    idx.append(i)
  items = ", ".join("Wire(8)" if i in idx else repr(hole) for i in range(len(lay)))
  at = (lambda i: f"s.stage[0][{idx[i]}]") if two_d else (lambda i: f"s.stage[{idx[i]}]")
  decl = f"s.stage = [[{items}]]" if two_d else f"s.stage = [{items}]"
  flip = rng.random() < 0.5
  cons = [f"{at(i + 1)} //= {at(i)}" if not flip else f"connect({at(i)}, {at(i + 1)})" for i in range(n - 1)]
  body = ["    s.in_ = InPort(8); s.out = OutPort(8)", "    " + decl] + ["    " + c for c in cons] + \
         ["    @update", "    def up_first():", f"      {at(0)} @= s.in_ + 1", "    @update", "    def up_last():", f"      s.out @= {at(n - 1)}"]
  if in_child:
    src = "from pymtl3 import *\nclass Inner(Component):\n  def construct(s):\n" + "\n".join(body) + \
          "\nclass HTop(Component):\n  def construct(s):\n    s.in_ = InPort(8); s.out = OutPort(8)\n    s.c = Inner()\n    s.c.in_ //= s.in_\n    s.out //= s.c.out\n"
    pre = "s.c."
  else:
    src = "from pymtl3 import *\nclass HTop(Component):\n  def construct(s):\n" + "\n".join(body) + "\n"
    pre = "s."
  info = {"wires": n, "hole": repr(hole), "where": where, "two_levels": two_d, "inside_child": in_child, "connect_flipped": flip}
  mod = G.load_source(src, "c08holey")
  try:
    for mode in ("default", "mamba"):
      top = mod.HTop()
      try:
        M.apply_mode(top, mode, rng)
      except Exception as e:
        sh.violation("legal-design-with-holes-in-signal-lists-could-not-be-built", dict(info, mode=mode, error=f"{type(e).__name__}: {str(e)[:300]}", design_source=src), case=("holey", case)); return
      nets, _ = observed_nets(top)
      want = frozenset(at(i).replace("s.", pre, 1) for i in range(n))
      sh.count("holey_list_nets_compared")
      if n >= 2 and nets.get(want, "missing") != at(0).replace("s.", pre, 1):
        sh.violation("nets-differ-from-connected-components", dict(info, mode=mode, expected_net=sorted(want), expected_writer=at(0).replace("s.", pre, 1),
                     observed={"|".join(sorted(k)): v for k, v in nets.items()}, design_source=src), case=("holey", case)); return
      for _ in range(3):
        x = rng.getrandbits(8); top.in_ @= x; top.sim_eval_combinational()
        host = top.c if in_child else top
        lst = host.stage[0] if two_d else host.stage
        got = [int(lst[i]) for i in idx] + [int(top.out)]
        sh.count("holey_list_value_comparisons", len(got))
        if any(g != (x + 1) & 255 for g in got):
          sh.violation("net-member-differs-from-writer-in-simulation", dict(info, mode=mode, input=x, members_and_out=got, expected=(x + 1) & 255, design_source=src), case=("holey", case)); return
        top.sim_tick()
    sh.count("holey_list_designs"); sh.fp("holey", tuple(sorted(info.items())))
  finally:
    G.unload(mod)


ALIAS_SRC = """
from pymtl3 import *
class AChild(Component):
  def construct(s):
    s.in_ = InPort(8); s.out = OutPort(8)
    s.out //= s.in_
class ATop(Component):
  def construct(s, how, n):
    s.in_ = InPort(8); s.out = OutPort(8); s.sum = OutPort(8)
    s.a = Wire(8); s.b = Wire(8)
    s.cs = [AChild() for _ in range(n)]
    for c in s.cs: c.in_ //= s.in_
    if how == "own-wires":          s.ws = [s.a, s.b]                       # a convenience list of wires declared before
    elif how == "own-wires-nested": s.ws = [[s.b], [s.a]]
    elif how == "child-ports":      s.outs = [c.out for c in s.cs]          # indexed access to the children's ports
    elif how == "mixed":            s.ws = [Wire(8), s.a]
    elif how == "control":          s.ws = [Wire(8), Wire(8)]
    s.a //= s.in_
    if how == "own-wires":          s.out //= s.ws[0]
    elif how == "own-wires-nested": s.out //= s.ws[1][0]
    elif how == "child-ports":      s.out //= s.outs[n - 1]
    elif how == "mixed":            s.out //= s.ws[1]
    else:                           s.ws[0] //= s.in_; s.out //= s.ws[0]
    @update
    def up_sum():
      s.sum @= s.a + 1
"""


def run_alias_list(sh, case):
  """a list field that gathers hardware objects which ALREADY have a name (own wires, ports of children): one object under two
  names.  Either the construction is refused, or every name of a net member carries the writer's value in simulation and the
  children keep their ports"""
  rng = sh.rng("aliaslist", case)
  how = rng.choice(["own-wires", "own-wires-nested", "child-ports", "mixed", "control"])
  n = rng.randrange(1, 4)
  mod = G.load_source(ALIAS_SRC, "c08alias")
  try:
    for mode in ("default", "mamba"):
      top = mod.ATop(how, n)
      try:
        M.apply_mode(top, mode, rng)
      except Exception as e:
        sh.count("alias_list:" + how + ":refused")
        if how == "control":
          sh.violation("legal-design-with-a-list-of-fresh-wires-was-refused", {"mode": mode, "error": f"{type(e).__name__}: {str(e)[:200]}"}, case=("aliaslist", case))
        return
      sh.count("alias_list:" + how + ":simulated")
      for _ in range(3):
        x = rng.getrandbits(8); top.in_ @= x; top.sim_eval_combinational()
        views = {"s.in_": int(top.in_), "s.a": int(top.a), "s.out": int(top.out), "s.sum - 1": (int(top.sum) - 1) & 255}
        for i, c in enumerate(top.cs): views[f"s.cs[{i}].out"] = int(c.out)
        if hasattr(top, "ws"):
          flat = [w for e in top.ws for w in (e if isinstance(e, list) else [e])]
          if how in ("own-wires", "own-wires-nested", "mixed"): views["s.a via the list"] = int([w for w in flat if w is top.a][0])
        if hasattr(top, "outs"):
          for i, o in enumerate(top.outs): views[f"s.outs[{i}]"] = int(o)
        sh.count("alias_list_value_comparisons", len(views))
        if any(v != x for v in views.values()):
          sh.violation("net-member-differs-from-writer-in-simulation", {"how": how, "mode": mode, "input": x, "values_by_name": views, "design_source": ALIAS_SRC},
                       case=("aliaslist", case)); return
        top.sim_tick()
    sh.count("alias_list_designs")
  finally:
    G.unload(mod)


ANC_SRC = """
from pymtl3 import *
@bitstruct
class AInner:
  a: Bits4
  b: Bits4
@bitstruct
class AMid:
  k: Bits4
  inner: AInner
@bitstruct
class AOuter:
  x: Bits8
  mid: AMid
class ATop2(Component):
  def construct(s, perm, flips, blk):
    s.in_ = InPort(4); s.a = Wire(4); s.w = Wire(AOuter)
    s.o_inner = OutPort(AInner); s.o_mid = OutPort(AMid); s.o_x = OutPort(8); s.o_w = OutPort(AOuter); s.o_xs = OutPort(6)
    @update
    def up_a():
      s.a @= s.in_ + 3
    stmts = [(s.a, s.w.mid.inner.a), (s.a, s.w.x[0:4]), (s.w.mid.inner.b, 0x9), (s.w.x[4:8], 0x5), (s.w.mid.k, 0x6),
             (s.w, s.o_w), (s.w.mid.inner, s.o_inner), (s.w.mid, s.o_mid), (s.w.x, s.o_x), (s.w.x[1:7], s.o_xs)]
    if blk:
      # ... the deep parts are written by an update block instead of nets
      stmts = stmts[2:]
      @update
      def up_deep():
        s.w.mid.inner.a @= s.a
        s.w.x[0:4] @= s.a
    for i in perm:
      if i < len(stmts):
        x, y = stmts[i]
        if flips[i]: x, y = y, x
        connect(x, y)
"""


def run_partial_ancestor(sh, case):
  """a struct wire whose DEEP parts (a field of a field of a field, a slice of a field) are driven one by one - by nets or by an
  update block - while other nets read every level in between (the nested struct, the struct around it, the whole field, an
  overlapping slice, the whole wire): statements in random order with random sides, any pass group; every reader carries the value
  its level has once the deep parts are written"""
  rng = sh.rng("ancestor", case)
  mod = G.load_source(ANC_SRC, "c08anc")
  try:
    blk = rng.random() < 0.4
    perm = list(range(10)); rng.shuffle(perm); flips = [rng.random() < 0.5 for _ in range(10)]
    mode = rng.choice(["default", "simple", "unroll", "heutopo", "mamba"])
    top = mod.ATop2(perm, flips, blk)
    try:
      M.apply_mode(top, mode, rng)
    except Exception as e:
      sh.violation("legal-design-with-partly-driven-ancestors-could-not-be-built", {"mode": mode, "error": f"{type(e).__name__}: {str(e)[:300]}", "perm": perm, "flips": flips, "deep_parts_written_by_a_block": blk}, case=("ancestor", case)); return
    for _ in range(3):
      v = rng.getrandbits(4); top.in_ @= v; top.sim_eval_combinational()
      a = (v + 3) & 15
      want = {"o_inner": (a << 4) | 9, "o_mid": (6 << 8) | (a << 4) | 9, "o_x": (5 << 4) | a, "o_xs": (((5 << 4) | a) >> 1) & 63,
              "o_w": (((5 << 4) | a) << 12) | (6 << 8) | (a << 4) | 9}
      got = {k: int(getattr(top, k).to_bits()) if hasattr(getattr(top, k), "to_bits") else int(getattr(top, k)) for k in want}
      sh.count("partly_driven_ancestor_value_comparisons", len(want))
      if got != want:
        bad = {k: (hex(got[k]), hex(want[k])) for k in want if got[k] != want[k]}
        sh.violation("net-member-differs-from-writer-in-simulation", {"mode": mode, "input": v, "readers(got, expected)": bad, "perm": perm, "flips": flips,
                     "deep_parts_written_by_a_block": blk, "design_source": ANC_SRC}, case=("ancestor", case)); return
      top.sim_tick()
    sh.count("partly_driven_ancestor_designs")
  finally:
    G.unload(mod)


IFC_SWAP_SRC = """
from pymtl3 import *
def mkf(P, n):
  return P(8) if n == 0 else [P(8) for _ in range(n)]
def each(x):
  return x if isinstance(x, list) else [x]
class OIfc(Interface):
  def construct(s, fields):
    for f, n in fields: setattr(s, f, mkf(OutPort, n))
class IIfc(Interface):
  def construct(s, fields):
    for f, n in fields: setattr(s, f, mkf(InPort, n))
class P(Component):
  def construct(s, fields):
    s.in_ = InPort(8); s.o = OIfc(fields)
    for f, n in fields:
      for x in each(getattr(s.o, f)): connect(x, s.in_)
class Q(Component):
  def construct(s, fields):
    s.i = IIfc(fields)
    ports = [x for f, n in fields for x in each(getattr(s.i, f))]
    s.outs = [OutPort(8) for _ in ports]
    for k, x in enumerate(ports): connect(s.outs[k], x)
class ITop(Component):
  def construct(s, fp, fq, swap):
    s.in_ = InPort(8); s.p = P(fp); s.q = Q(fq)
    s.outs = [OutPort(8) for _ in s.q.outs]
    s.p.in_ //= s.in_
    for k in range(len(s.q.outs)): s.outs[k] //= s.q.outs[k]
    if swap: connect(s.q.i, s.p.o)
    else:    connect(s.p.o, s.q.i)
"""


def run_ifc_swap(sh, case):
  """a whole-interface connection written in both orientations: same nets and writers, or the same refusal - also when one of the
  two interfaces has ports the other one lacks, or a list field of another length"""
  rng = sh.rng("ifcswap", case)
  names = ["a", "b", "c", "d"]
  fp = [(nm_, rng.choice([0, 0, 2, 3])) for nm_ in rng.sample(names, rng.randrange(1, 4))]
  how = rng.choice(["same", "same", "p-has-more", "q-has-more", "list-longer-in-q", "list-longer-in-p", "list-vs-scalar"])
  fq = list(fp)
  extra = [n for n in names if n not in [f for f, _ in fp]]
  lists = [i for i, (f, n) in enumerate(fp) if n]
  if how == "p-has-more" and len(fp) >= 2: fq = fp[:-1]
  elif how == "q-has-more" and extra: fq = fp + [(extra[0], 0)]
  elif how == "list-longer-in-q" and lists: i = rng.choice(lists); fq[i] = (fp[i][0], fp[i][1] + rng.randrange(1, 3))
  elif how == "list-longer-in-p" and lists: i = rng.choice(lists); fq[i] = (fp[i][0], fp[i][1] - 1 if fp[i][1] > 2 else 2); fq[i] = fq[i] if fq[i] != fp[i] else (fp[i][0], 1)
  elif how == "list-vs-scalar" and lists: i = rng.choice(lists); fq[i] = (fp[i][0], 0)
  else: how = "same"
  rng.shuffle(fq)
  mod = G.load_source(IFC_SWAP_SRC, "c08ifc")
  try:
    res = []
    for swap in (False, True):
      try:
        top = mod.ITop(fp, fq, swap); top.elaborate()
        nets = sorted((repr(w), tuple(sorted(repr(x) for x in net))) for w, net in top.get_all_value_nets())
        res.append(("elaborated", nets))
      except Exception as e:
        res.append((type(e).__name__, None))
    sh.count("interface_connections_in_both_orientations"); sh.count("ifc_swap:" + how + ":" + res[0][0])
    if res[0] != res[1]:
      sh.violation("swapping-the-sides-of-an-interface-connection-changes-the-outcome", {"ports_of_p.o": fp, "ports_of_q.i": fq,
                   "connect(s.p.o, s.q.i)": res[0][0], "connect(s.q.i, s.p.o)": res[1][0], "source": IFC_SWAP_SRC}, case=("ifcswap", case))
    elif how != "same" and res[0][0] == "elaborated":
      sh.violation("interface-connection-with-unmatched-ports-elaborated-silently", {"ports_of_p.o": fp, "ports_of_q.i": fq, "difference": how,
                   "source": IFC_SWAP_SRC}, case=("ifcswap", case))
  finally:
    G.unload(mod)


CONST_TMPL_SRC = """
from pymtl3 import *
@bitstruct
class CPt:
  idx: Bits4
  val: Bits8
class CTTop(Component):
  # ONE constant object used as a template: updated in place between the connections it is used in
  def construct(s, vals, struct):
    n = len(vals)
    if struct:
      s.o = [OutPort(CPt) for _ in range(n)]
      k = CPt(0, 0)
      for i in range(n):
        k.idx @= i; k.val @= vals[i]
        s.o[i] //= k
    else:
      s.o = [OutPort(8) for _ in range(n)]
      k = Bits8(0)
      for i in range(n):
        k @= vals[i]
        s.o[i] //= k
"""


def run_const_template(sh, case):
  """a connection to a constant takes the VALUE the constant has at that moment: a template object that the construction code
  updates in place between two connections leaves each port with its own value"""
  from pymtl3 import DefaultPassGroup
  rng = sh.rng("consttmpl", case)
  vals = [rng.getrandbits(8) for _ in range(rng.randrange(2, 5))]
  struct = rng.random() < 0.5
  mod = G.load_source(CONST_TMPL_SRC, "c08ct")
  try:
    top = mod.CTTop(vals, struct); top.elaborate(); top.apply(DefaultPassGroup()); top.sim_reset(); top.sim_eval_combinational()
    got = [(int(o.idx), int(o.val)) if struct else int(o) for o in top.o]
    want = [(i, v) if struct else v for i, v in enumerate(vals)]
    sh.count("constant_template_designs")
    if got != want:
      sh.violation("net-member-differs-from-writer-in-simulation", {"probe": "one constant object updated in place between its connections", "struct": struct,
                   "ports_carry": got, "values_at_connection_time": want, "design_source": CONST_TMPL_SRC}, case=("consttmpl", case))
  finally:
    G.unload(mod)


def run_shard(sh):
  for case in range(6 if sh.tier == "quick" else 60):
    run_const_template(sh, sh.idx * 1000 + case)
    run_chain(sh, sh.idx * 1000 + case)
    run_ifc_swap(sh, sh.idx * 1000 + case)
    run_holey(sh, sh.idx * 1000 + case)
    run_alias_list(sh, sh.idx * 1000 + case)
    for k2 in range(3): run_partial_ancestor(sh, sh.idx * 1000 + case * 3 + k2)
  for case in range(sh.params["designs"]):
    if sh.only is not None and str(case) != str(sh.only).strip('"'):
      continue
    run_case(sh, case)
