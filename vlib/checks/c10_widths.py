"""C10 - type-checker widths are the real widths; accepted code has no width errors."""
import ast
import traceback

from vlib import specgen as G, simmon as M

PROPERTY = "C10"
LEVEL = "exploration"
RULE = ("case = one generated component hierarchy whose update blocks are (1) type-checked by BehavioralRTLIRGenPass + "
        "BehavioralRTLIRTypeCheckPass and (2) simulated as an instrumented twin in which every sub-expression is wrapped in a "
        "probe recording the run-time nbits / int value; for every RTLIR node the static width must equal the run-time nbits "
        "(Bits-valued) or hold the run-time int (int-valued). Near-miss stream: one operand width perturbed by +-1 / literal at "
        "the 2^n boundary; the checker's accept/reject verdict is compared with the width errors the simulation raises. Literal "
        "stream: inferred width of int constants 2^k-1, 2^k, 2^k+1 (k<=200) vs bit_length. distinct_nontrivial = distinct "
        "(node kind, static width, run-time kind) tuples + distinct near-miss outcomes")
ASSUMPTIONS = [
  "RTLIR nodes are matched to run-time probes by source position (line relative to the decorator, column, end position)",
  "blocks using an explicit width-changing BitsN(...) cast of a non-constant or a shift amount of another width are excluded by the property text; the generator does not emit them",
  "width errors of the simulation are recognised by PythonBits' messages (matching bitwidth / too wide / not a valid binop operand / Cannot fit / Bitwidth of LHS)",
]
WIDTH_ERR = ("matching bitwidth", "too wide", "not a valid binop operand", "Cannot fit", "Bitwidth of LHS", "is too big")


def plan(tier, seed):
  q = tier == "quick"
  return [{"hashseed": (seed * 71 + i) % 1069, "designs": 25 if q else 300, "nearmiss": 200 if q else 1500, "part": i} for i in range(16)]


def thresholds(tier):
  t = {"nodes_compared": 10000, "blocks_typechecked": 400, "nearmiss_cases": 500, "nearmiss_rejected": 100, "nearmiss_accepted": 50,
       "literal_widths_checked": 500, "kind:BinOp": 50, "kind:Compare": 50, "kind:Slice": 50, "kind:Number": 50, "kind:Attribute": 50,
       "kind:ZeroExt": 20, "kind:SignExt": 20, "kind:Truncate": 20, "kind:Concat": 20, "kind:IfExp": 20, "kind:Reduce": 20}
  if tier == "thorough":
    t.update({"nodes_compared": 200000, "blocks_typechecked": 8000, "nearmiss_cases": 9000})
  return t


def knobs(rng):
  return {"depth": rng.choice([0, 0, 1]), "max_children": 1, "p_struct": 0.3, "p_list": 0.2, "p_ff": 0.3, "max_sigs": rng.choice([3, 5]),
          "expr_depth": rng.choice([2, 3, 4]), "widths": [1, 2, 3, 4, 5, 7, 8, 9, 16, 31, 32, 33, 63, 64], "avoid_const_ops": True, "p_freevar": 0.25, "p_tmp": 0.3, "p_tmp_chain": 0.3, "p_vsl": rng.choice([0, 0.2]), "p_lambda": 0.2, "p_nested_field": 0.2, "p_list_field": 0.2, "p_for": 0.6, "p_for_mixed": 0.5, "p_tmp_loopname": 0.8, "p_list": 0.4, "p_ite_const": 0.4}


# ---------------------------------------------------------------------------
# instrumentation: wrap every Load-context expression inside update blocks
# ---------------------------------------------------------------------------

import re as _re
try:
  from pymtl3.dsl.ComponentLevel2 import compiled_re as _PYMTL_SRC_RE      # the substitution pymtl3 applies to a block's source before parsing it
except Exception:
  _PYMTL_SRC_RE = _re.compile('( *(@|def))')


class Wrap(ast.NodeTransformer):
  def __init__(self, src):
    self.base = None
    self.cls = None
    self.lines = src.splitlines(True)
    self.pos = {}

  def visit_ClassDef(self, node):
    old = self.cls
    self.cls = node.name
    self.generic_visit(node)
    self.cls = old
    return node

  def visit_FunctionDef(self, node):
    decos = [getattr(d, "id", None) for d in node.decorator_list]
    if any(d in ("update", "update_ff") for d in decos):
      old = self.base
      self.base = (min(d.lineno for d in node.decorator_list), node.name)
      # positions as pymtl3 will see them: same snippet, same substitution, parsed on its own
      first = self.base[0]
      snippet = _PYMTL_SRC_RE.sub(r"\2", "".join(self.lines[first - 1:node.end_lineno]))
      g = ast.parse(snippet).body[0]
      for a, b in zip(ast.walk(node), ast.walk(g)):
        if hasattr(b, "lineno"):
          self.pos[id(a)] = (b.lineno, b.col_offset, b.end_lineno, b.end_col_offset)
      node.body = [self.visit(s) for s in node.body]
      self.base = old
      return node
    self.generic_visit(node)
    return node

  def _key(self, n):
    l, c, el, ec = self.pos[id(n)]
    return ast.Tuple(elts=[ast.Constant(self.cls), ast.Constant(self.base[1]), ast.Constant(l), ast.Constant(c), ast.Constant(el), ast.Constant(ec)],
                     ctx=ast.Load())

  def wrap(self, orig, new):
    return ast.copy_location(ast.Call(func=ast.Name(id="vprobe_", ctx=ast.Load()), args=[self._key(orig), new], keywords=[]), orig)

  def visit_AugAssign(self, node):
    if self.base is None: return node
    node.value = self.visit(node.value)
    # subscripts inside the target are evaluated too, but they are plain ints: leave the target alone
    return node

  def visit_Assign(self, node):
    if self.base is None: return node
    node.value = self.visit(node.value)
    return node

  def generic_expr(self, node):
    if self.base is None: return node
    orig = node
    new = self.generic_visit(node)
    return self.wrap(orig, new)

  visit_BinOp = visit_Compare = visit_IfExp = visit_UnaryOp = visit_Constant = generic_expr

  def visit_Call(self, node):
    if self.base is None: return node
    orig = node
    node.args = [self.visit(a) for a in node.args]
    return self.wrap(orig, node)

  def visit_Subscript(self, node):
    if self.base is None or not isinstance(node.ctx, ast.Load): return node
    orig = node
    node.value = self.visit(node.value)
    node.slice = self.visit(node.slice)
    return self.wrap(orig, node)

  def visit_Slice(self, node):
    if node.lower is not None: node.lower = self.visit(node.lower)
    if node.upper is not None: node.upper = self.visit(node.upper)
    return node

  def visit_Attribute(self, node):
    if self.base is None or not isinstance(node.ctx, ast.Load): return node
    # s.a.b : wrap the outermost attribute chain only where it denotes a value (not `s` itself)
    orig = node
    node.value = self.visit(node.value) if not (isinstance(node.value, ast.Name) and node.value.id == "s") else node.value
    return self.wrap(orig, node)

  def visit_Name(self, node):
    if self.base is None or not isinstance(node.ctx, ast.Load) or node.id in ("s", "vprobe_"): return node
    if node.id in BUILTIN_FUNCS: return node
    return self.wrap(node, node)


BUILTIN_FUNCS = {"zext", "sext", "trunc", "concat", "reduce_and", "reduce_or", "reduce_xor", "range", "Bits"} | {f"Bits{i}" for i in range(1, 1024)} | {"mk_bits"}


def instrument(src):
  tree = ast.parse(src)
  tree = Wrap(src).visit(tree)
  ast.fix_missing_locations(tree)
  return ast.unparse(tree)


# ---------------------------------------------------------------------------
# static side
# ---------------------------------------------------------------------------

def static_table(top):
  """{(host class, block name, l, c, el, ec): (node kind, width, const?)}"""
  from pymtl3.passes.rtlir import BehavioralRTLIRGenPass, BehavioralRTLIRTypeCheckPass
  from pymtl3.passes.rtlir.behavioral import BehavioralRTLIR as bir
  top.apply(BehavioralRTLIRGenPass(top)); top.apply(BehavioralRTLIRTypeCheckPass(top))
  out = {}
  uppers = set()      # exclusive upper bounds of slices: the checker sizes them for (value - 1), the last selected bit
  nblk = 0
  for m in top.get_all_components():
    if not m.has_metadata(BehavioralRTLIRGenPass.rtlir_upblks): continue
    for blk, root in m.get_metadata(BehavioralRTLIRGenPass.rtlir_upblks).items():
      nblk += 1
      stack = [root]
      while stack:
        n = stack.pop()
        for k, v in vars(n).items():
          if isinstance(v, bir.BaseBehavioralRTLIR): stack.append(v)
          elif isinstance(v, list):
            for x in v:
              if isinstance(x, bir.BaseBehavioralRTLIR): stack.append(x)
              elif isinstance(x, list): stack.extend(y for y in x if isinstance(y, bir.BaseBehavioralRTLIR))
        if type(n).__name__ == "Slice":
          ua = getattr(getattr(n, "upper", None), "ast", None)
          if ua is not None and hasattr(ua, "lineno"):
            uppers.add((type(m).__name__, blk.__name__, ua.lineno, ua.col_offset, ua.end_lineno, ua.end_col_offset))
        a = getattr(n, "ast", None)
        ty = getattr(n, "Type", None)
        if a is None or not hasattr(a, "lineno") or ty is None or type(n).__name__ in ("Base", "Assign", "If", "For", "CombUpblk", "SeqUpblk"):
          continue
        try:
          w = int(ty.get_dtype().get_length())
        except Exception:
          continue
        key = (type(m).__name__, blk.__name__, a.lineno, a.col_offset, a.end_lineno, a.end_col_offset)
        out.setdefault(key, []).append((type(n).__name__, w, type(ty).__name__ == "Const"))
  out["__uppers__"] = uppers
  return out, nblk


def is_width_error(e):
  return isinstance(e, ValueError) and any(k in str(e) for k in WIDTH_ERR)


def run_design(sh, case):
  rng = sh.rng("wt", case)
  d = G.generate(rng, knobs(rng))
  src = G.emit(d)
  mod = G.load_source(src, "c10")
  W = lambda kind, **kw: sh.violation(kind, dict(kw, design_source=src), mechanism=kw.get("mech"), case=case)
  try:
    top = getattr(mod, d["top"])(); top.elaborate()
    try:
      table, nblk = static_table(top)
    except Exception as e:
      sh.count("rejected_by_typechecker(well-typed stream)")
      sh.count("reject:" + type(e).__name__)
      return
    sh.count("blocks_typechecked", nblk)
  finally:
    G.unload(mod)
  # twin
  rec = {}
  def probe(key, v):
    rec.setdefault(key, []).append(v)
    return v
  tsrc = instrument(src)
  tmod = G.load_source(tsrc, "c10t")
  tmod.__dict__["vprobe_"] = probe
  try:
    # __p must be visible as a global of the generated functions
    twin = getattr(tmod, d["top"])(); twin.elaborate()
    from pymtl3 import DefaultPassGroup
    twin.apply(DefaultPassGroup())
    live = M.Live(twin)
    widths = {p: w for p, w in G.top_inputs(d)}
    seq = M.gen_inputs(rng, d, rng.randrange(8, 20))
    for cyc, inp in enumerate(seq):
      M.set_inputs(twin, live, inp, widths, int(cyc < 2))
      try:
        twin.sim_eval_combinational(); twin.sim_tick()
      except Exception as e:
        if is_width_error(e):
          W("accepted-block-raises-width-error-in-simulation", error=str(e)[:200]); return
        sh.inconclusive("twin-simulation-raised:" + type(e).__name__); sh.sample({"twin_sim_error": traceback.format_exc()[-600:], "case": case}); return
  except Exception as e:
    sh.inconclusive("twin-not-buildable:" + type(e).__name__); sh.sample({"twin_error": traceback.format_exc()[-500:]}); return
  finally:
    G.unload(tmod)
  # compare
  from pymtl3.datatypes import Bits
  uppers = table.pop("__uppers__")
  for (cls, blkname, l, c, el, ec), infos in table.items():
    vals = rec.get((cls, blkname, l, c, el, ec))
    if not vals:
      sh.count("static_nodes_without_runtime_probe"); continue
    # several classes may have a block of the same name at the same position only if sources coincide -> same types
    for (kind, w, isconst) in infos:
      for v in vals[:6]:
        sh.count("nodes_compared"); sh.count("kind:" + kind)
        if isinstance(v, Bits) or hasattr(v, "to_bits"):
          nb = v.nbits
          sh.fp(kind, w, "bits")
          if nb != w:
            W("static-width-differs-from-runtime-nbits", node=kind, pos=[blkname, l, c, el, ec], static=w, runtime=nb); return
        elif isinstance(v, (int, bool)):
          sh.fp(kind, w, "int")
          iv = int(v)
          if (cls, blkname, l, c, el, ec) in uppers:
            iv -= 1           # exclusive bound
          if (iv < 0 and abs(iv) > (1 << w)) or iv >= (1 << w):      # negative ints only occur as loop steps (magnitude must fit)
            W("static-width-cannot-hold-runtime-int", node=kind, pos=[blkname, l, c, el, ec], static=w, runtime_value=iv, implicit=isconst,
              mech="leaf-literal-of-folded-constant-enforced-too-narrow" if kind in ("Number", "FreeVar") else
                   "implicit-arithmetic-on-loop-variable-keeps-pre-enforcement-width" if kind == "BinOp" and isconst else None)
            if not (kind == "BinOp" and isconst): return
  sh.count("designs"); sh.count("evaluations")
  if case < 1:
    sh.sample({"design_source_head": src[:700], "static_nodes": len(table), "probe_sites": len(rec)})


# ---------------------------------------------------------------------------
# near-miss stream: single statement blocks with one perturbed width
# ---------------------------------------------------------------------------
NM_TMPL = """from pymtl3 import *
@bitstruct
class NMP:
  x: mk_bits({wa})
  y: mk_bits(4)
@bitstruct
class NMQ:
  lo: mk_bits(4)
  hi: mk_bits(4)
class NM(Component):
  def construct(s):
    s.wd = InPort(16); s.bs = [InPort(4) for _ in range(2)]; s.ps = InPort(NMQ)          # a wide operand and slice bases for part selects
    s.a = InPort({wa}); s.b = InPort({wb}); s.c = InPort(1); s.o = OutPort({wo}); s.o1 = OutPort(1); s.os = OutPort(NMP)
    s.tbl = [mk_bits({wb})(1), mk_bits({wb})(2 % (1 << {wb})), mk_bits({wb})(3 % (1 << {wb}))]; s.N = 2          # a table of sized constants and an int
    s.K1 = mk_bits(1)(1); s.tbl1 = [mk_bits(1)(1), mk_bits(1)(0)]; s.KQ = NMQ(1, 2)          # sized constants kept as attributes: one bit wide, four bits wide (fields)
    s.sel = InPort(2); s.itbl = {itbl}          # a table of plain python ints, read with a signal index
    @update
    def up():
      {stmt}
"""


def gen_nearmiss(rng):
  """-> (source, description).  half of them are exactly well-typed, the others off by one somewhere"""
  w = rng.choice([1, 2, 3, 4, 7, 8, 9, 16, 31, 32, 33, 48, 49, 50, 63, 64, 65, 100])
  d = rng.choice([0, 0, 1, -1]) if w > 1 else rng.choice([0, 1])
  shape = rng.randrange(33)
  itbl = [1, 1, 0, 1]
  wa, wb, wo = w, w + d, w
  lit_k = rng.choice([w - 1, w, w + 1, w, w])
  lit = rng.choice([(1 << lit_k) - 1, 1 << lit_k, (1 << lit_k) + 1]) if lit_k >= 0 else 1
  op = rng.choice(["+", "-", "&", "|", "^", "*"])
  cmp_ = rng.choice(["==", "!=", "<", "<=", ">", ">="])
  if shape == 0: stmt = f"s.o @= s.a {op} s.b"
  elif shape == 1: stmt = f"s.o1 @= s.a {cmp_} s.b"
  elif shape == 2: stmt = f"s.o @= s.a if s.c else s.b"
  elif shape == 3: stmt = f"s.o @= s.b"; wa = w
  elif shape == 4: stmt = f"s.o @= s.a {op} {lit}"; wb = w
  elif shape == 5: stmt = f"s.o1 @= s.a {cmp_} {lit}"; wb = w
  elif shape == 6: stmt = f"s.o @= {lit}"; wb = w
  elif shape == 7: stmt = f"s.o @= zext(s.b, {w}) {op} s.a" if d <= 0 else f"s.o @= trunc(s.b, {w}) {op} s.a"; d = 0 if True else d
  elif shape in (9, 10, 11, 12):
    # conditional expressions whose branches are integer literals of different sizes (either order), alone or under an operator
    small = rng.choice([0, 1, 1, 2, 3])
    l1, l2 = (small, lit) if rng.random() < 0.5 else (lit, small)
    wb = w
    if shape == 9: stmt = f"s.o @= s.a {op} ({l1} if s.c else {l2})"
    elif shape == 10: stmt = f"s.o @= ({l1} if s.c else {l2})"
    elif shape == 11: stmt = f"s.o1 @= s.a {cmp_} ({l1} if s.c else {l2})"
    else:
      # one literal branch, one sized branch - the sized one possibly NARROWER or wider than the context (either order, alone or
      # under an operator): the literal adapts to the sized branch, the whole conditional then has exactly that width
      wb = max(1, w + rng.choice([0, 0, -1, -1, 1, -3]))
      small2 = rng.choice([0, 1, 1])
      ie = rng.choice([f"(s.b if s.c else {small2})", f"({small2} if s.c else s.b)", f"(s.b if s.c else {lit})", f"({lit} if s.c else s.b)"])
      stmt = rng.choice([f"s.o @= {ie}", f"s.o @= s.a {op} {ie}", f"s.o1 @= s.a {cmp_} {ie}"])
  elif shape == 13:
    l = [rng.choice([0, 1, 2, 3]), rng.choice([0, 1, 5]), lit]; rng.shuffle(l); wb = w
    stmt = f"s.o @= ({l[0]} if s.c else ({l[1]} if s.a[0] else {l[2]}))" if rng.random() < 0.5 else f"s.o @= (({l[0]} if s.a[0] else {l[1]}) if s.c else {l[2]})"
  elif shape == 14:
    # constant operands that evaluate to a negative python int (probe shape of the listed finding F-W7)
    k1 = rng.choice([1, 1, 2, 3]); k2 = k1 + rng.choice([1, 2]); wb = w
    stmt = rng.choice([f"s.o @= s.a {op} (-{k1})", f"s.o @= s.a {op} ~{k1}", f"s.o1 @= s.a {cmp_} (-{k1})", f"s.o @= s.a {op} ({k1} - {k2})"])
    if w < 3: w = wa = wb = wo = 4
  elif shape in (15, 16):
    # 1-bit typed results (comparison, reduction, single-bit index) meeting multi-bit explicit operands, in either order
    wb = w
    one = rng.choice([f"(s.a {cmp_} s.b)", "reduce_or(s.b)", "reduce_xor(s.a)", "s.b[0]", "s.c", f"(s.a {cmp_} {min(lit, (1 << w) - 1)})"])
    l, r = ("s.a", one) if rng.random() < 0.5 else (one, "s.a")
    stmt = rng.choice([f"s.o @= {l} {op} {r}", f"s.o1 @= {l} {cmp_} {r}", f"s.o @= ({l} if s.c else {r})", f"s.o @= {one}", f"s.o1 @= {l} {op} {r}",
                       f"s.o1 @= {one} {op} s.c", f"s.o1 @= {one} {cmp_} s.c"])
  elif shape == 17:
    # negative constants assigned directly: the accepted range of an n-bit target is -2**(n-1) .. 2**n-1
    h = 1 << (w - 1)
    v = rng.choice([h - 1, h, h + 1, h + 1, (1 << w) - 1, 1, 2]) if w > 1 else rng.choice([1, 2])
    stmt = rng.choice([f"s.o @= -{v}", f"s.o @= -({v})", f"s.o @= ~{v - 1}"]); wb = w
  elif shape in (18, 19, 20):
    # explicit BitsK( x ) casts of values whose own width is only inferred: a loop variable, an int temporary (K is the
    # inferred width or more, so the cast itself is always legal), or a signal; the cast result is K bits wide, full stop
    n = rng.choice([2, 3, 5, 6, 8, 9, 16, 17])
    kmin = max(1, (n - 1).bit_length())
    K = kmin + rng.choice([0, 0, 0, 1])
    w = wa = wo = wb = max(1, K + rng.choice([0, 0, 1, -1, 2, 5]))
    if shape == 18:
      body = rng.choice([f"s.o @= s.a {op} Bits{K}(i)", f"s.o @= Bits{K}(i) {op} s.a", f"s.o1 @= s.a {cmp_} Bits{K}(i)", f"s.o @= Bits{K}(i)"])
      stmt = f"for i in range({n}):\n        {body}"
    elif shape == 19:
      body = rng.choice([f"s.o @= s.a {op} Bits{K}(x)", f"s.o1 @= Bits{K}(x) {cmp_} s.a", f"s.o @= Bits{K}(x)"])
      stmt = f"x = {n - 1}\n      {body}"
    else:
      wb = K
      stmt = rng.choice([f"s.o @= s.a {op} Bits{K}(s.b)", f"s.o1 @= Bits{K}(s.b) {cmp_} s.a", f"s.o @= Bits{K}(s.b)"])
    d = w - K
  elif shape == 21:
    # a temporary that is an explicitly sized value on one path and an integer literal on the other (either order), then used
    # where a DIFFERENT width is wanted: the literal must not make the temporary re-interpretable
    small = rng.choice([0, 1, 1])
    if rng.random() < 0.6: wb = 1          # the literals 0 / 1 are 1-bit values: the two assignments agree on the temporary's type
    br = [f"x = s.b", f"x = {small}"]
    if rng.random() < 0.5: br.reverse()
    use = rng.choice([f"s.o @= x", f"s.o @= s.a {op} x", f"s.o1 @= s.a {cmp_} x"])
    stmt = f"if s.c:\n        {br[0]}\n      else:\n        {br[1]}\n      {use}"
  elif shape == 25:
    # an element of a table of PLAIN INTS picked by a signal: whatever width the checker gives s.itbl[s.sel], it has to hold every
    # entry (entries of equal least width; a first entry narrower / wider than a later one)
    k = rng.choice([1, 2, 3, 4, 8]) if w > 64 else rng.choice([1, 2, 3, min(w, 12)])
    same = [rng.randrange(1 << (k - 1), 1 << k) for _ in range(4)]
    how = rng.choice(["same", "same", "first-narrow", "first-wide", "last-wide"])
    itbl = list(same)
    if how == "first-narrow": itbl[0] = rng.randrange(0, 1 << (k - 1)) if k > 1 else 0; itbl[rng.randrange(1, 4)] = (1 << k) + rng.randrange(1 << k)
    elif how == "first-wide": itbl[0] = (1 << k) + rng.randrange(1 << k)
    elif how == "last-wide": itbl[3] = (1 << (k + 1)) + 1
    if rng.random() < 0.7: wa = wo = w = max(1, itbl[0].bit_length()); wb = w
    stmt = rng.choice([f"s.o @= s.itbl[s.sel]", f"s.o @= s.a {op} s.itbl[s.sel]", f"s.o1 @= s.a {cmp_} s.itbl[s.sel]", f"s.o @= s.a & s.itbl[s.sel]"])
    lit = how
    if rng.random() < 0.25:
      # the element next to an integer LITERAL: python adds two plain ints in simulation (probe shape of the listed finding F-W15)
      stmt = rng.choice([f"s.o @= s.itbl[s.sel] + 1", f"s.o @= s.itbl[s.sel] + {max(itbl)}", f"s.o @= (s.itbl[s.sel] << 1) | 1"]); lit = "with-literal:" + how
  elif shape == 26:
    # part selects  x[ base : base + K ]: legal only when BOTH bounds name the very same base; two bases that differ only in an
    # index, a field or a slice make a slice of run-time width, which the K-bit target refuses
    K = rng.choice([1, 2, 3, 4]); wa = wb = w = wo = K
    same = rng.random() < 0.4
    fam = rng.choice(["index", "field", "slice", "signal"])
    b1, b2 = {"index": ("s.bs[0]", "s.bs[1]"), "field": ("s.ps.lo", "s.ps.hi"), "slice": ("s.wd[0:4]", "s.wd[1:5]"), "signal": ("s.bs[0]", "s.ps.lo")}[fam]
    if rng.random() < 0.5: b1, b2 = b2, b1
    if same: b2 = b1
    stmt = rng.choice([f"s.o @= s.wd[{b1} : {b2} + {K}]", f"s.o @= s.a ^ s.wd[{b1} : {b2} + {K}]", f"s.o1 @= s.a == s.wd[{b1} : {b2} + {K}]"])
    lit = ("same-base:" if same else "two-bases:") + fam; d = 0 if same else 1
  elif shape == 27:
    # arithmetic on integers whose width is only inferred (a loop variable, an int temporary) used as an OPERAND: whatever width the
    # checker gives (i + K), it has to hold every value the expression takes (probe shape of the listed finding F-W4)
    n = rng.choice([2, 3, 4, 5, 8]); K = rng.choice([1, 1, 2, 3])
    wb = w
    if rng.random() < 0.6: w = wa = wb = wo = max(1, (n - 1).bit_length())          # the signal is exactly as wide as the loop variable
    if rng.random() < 0.6:
      body = rng.choice([f"s.o @= s.a {op} (i + {K})", f"s.o1 @= s.a {cmp_} (i + {K})", f"s.o @= s.a {op} (i * {K + 1})"])
      stmt = f"for i in range({n}):\n        {body}"
    else:
      stmt = f"x = {n - 1}\n      y = x + x\n      " + rng.choice([f"s.o @= s.a {op} y", f"s.o1 @= s.a {cmp_} y"])
    lit = "implicit-arithmetic"
  elif shape == 28:
    # a temporary that is an integer literal BEFORE a loop and is given a sized value at the end of the loop body, after its use: from
    # the second iteration on the use sees the sized value (probe shape of the listed finding F-W14)
    ws = rng.choice([1, 1, 2, w]); wb = ws
    use = rng.choice([f"s.o @= s.a {op} t", f"s.o1 @= s.a {cmp_} t", f"s.o @= s.a {op} (t if s.c else 0)"])
    stmt = f"t = {rng.choice([0, 1])}\n      for i in range(3):\n        {use}\n        t = s.b" + ("" if ws > 1 else "[0]")
    lit = "loop-carried-temporary"; d = 0 if ws == w else 1
  elif shape == 29:
    # SIZED constants kept as component attributes - a 1-bit Bits value, an element of a table of 1-bit values, a 4-bit field of a
    # constant struct - next to an operand of another width: they are explicitly sized, never re-interpreted
    wb = w
    kc, kw = rng.choice([("s.K1", 1), ("s.K1", 1), ("s.tbl1[0]", 1), ("s.tbl1[1]", 1), ("s.KQ.lo", 4), ("s.KQ.hi", 4)])
    stmt = rng.choice([f"s.o @= s.a {op} {kc}", f"s.o1 @= s.a {cmp_} {kc}", f"s.o @= {kc}", f"s.o @= {kc} {op} s.a", f"s.o @= s.a if s.c else {kc}"])
    lit = "sized-attribute-constant"; d = 0 if w == kw else 1
  elif shape == 30:
    # a slice of a TEMPORARY (or of an expression held in one) whose upper bound lies beyond the value's width but inside the next
    # power of two: there are no such bits - the block is refused, or at least never accepted to fail with an out-of-range access
    w = wa = wb = rng.choice([3, 5, 6, 7, 12, 13, 33]); top_ = 1 << (w - 1).bit_length()
    hi = rng.choice([w, w + 1, top_]) if top_ > w else w
    lo = rng.randrange(0, w - 1)
    wo = hi - lo
    stmt = f"t = s.a {rng.choice(['+', '^', '|'])} 1\n      s.o @= t[{lo}:{hi}]"
    lit = "tmp-slice:" + ("inside" if hi <= w else "beyond"); d = 0 if hi <= w else 1
  elif shape == 31:
    # a Bits target (whole, a slice) assigned from a STRUCT-typed signal of 8 bits: the total widths have to agree
    w = wa = wb = wo = rng.choice([8, 8, 7, 9, 4, 16, 12])
    stmt = rng.choice(["s.o @= s.ps", "s.o @= s.ps", f"s.o[0:{min(w, 8)}] @= s.ps" if w != 8 else "s.o @= s.ps"])
    lit = "vector-from-struct"; d = 0 if (w == 8 or "[0:8]" in stmt) else 1
  elif shape == 32:
    # a constant sub-expression of two unsized integers whose VALUE needs more bits than either operand (255 + 1, 15 * 15) next to a
    # sized operand: the folded literal is as wide as its value needs
    wb = w
    top_ = (1 << w) - 1
    ce, cv = rng.choice([(f"{top_} + 1", top_ + 1), (f"{top_} * 2", top_ * 2), (f"{max(1, top_ >> 1)} + 1", max(1, top_ >> 1) + 1), (f"{top_} - 1", top_ - 1),
                         (f"{1 << (w // 2)} * {1 << (w - w // 2)}", 1 << w), (f"{top_} | {1 << w}", top_ | (1 << w))])
    stmt = rng.choice([f"s.o @= s.a {op} ({ce})", f"s.o1 @= s.a {cmp_} ({ce})", f"s.o @= ({ce}) {op} s.a"])
    lit = "folded-constant:" + ("fits" if cv <= top_ else "too-wide"); d = 0 if cv <= top_ else 1
  elif shape == 24:
    # an element of a table of SIZED constants picked by a constant expression ( s.tbl[s.N - 1] ): it is wb bits wide, full stop
    ix = rng.choice(["s.N - 1", "s.N", "0 + 1", "1"])
    stmt = rng.choice([f"s.o @= s.tbl[{ix}]", f"s.o @= s.a {op} s.tbl[{ix}]", f"s.o1 @= s.a {cmp_} s.tbl[{ix}]"])
  elif shape == 23:
    # literal arguments of a bitstruct constructor: each must fit its field (field x is w bits wide, y 4 bits)
    wb = w
    y = rng.choice([0, 1, 15, 15, 16, 17])
    stmt = rng.choice([f"s.os @= NMP({lit}, {min(y, 15)})", f"s.os @= NMP({lit & ((1 << w) - 1)}, {y})", f"s.os @= NMP(s.a, {y})",
                       # ... and integer arguments that are no static constants: a conditional of two literals, a temporary, a loop variable
                       f"s.os @= NMP({lit} if s.c else 1, {min(y, 15)})", f"s.os @= NMP(1, {y} if s.c else 2)",
                       f"t = {lit}\n      s.os @= NMP(t, 1)", f"t = {y}\n      s.os @= NMP(1, t)",
                       f"for i in range({y + 1}):\n        s.os @= NMP(1, i)"])
  elif shape == 22:
    # explicitly sized constants under an operator: the result keeps the explicit width (and wraps), whatever the folded value
    wb = w
    k = min(w, 16)
    c1, c2 = rng.choice([(1 << k) - 1, 1 << (k - 1), 1, 3]) & ((1 << w) - 1), rng.choice([(1 << k) - 1, 1 << (k - 1), 1, 2]) & ((1 << w) - 1)   # each fits its cast
    wo = max(1, w + rng.choice([0, 0, 1, -1]))
    cw = f"Bits{w}" if w <= 255 else f"mk_bits({w})"
    stmt = rng.choice([f"s.o @= {cw}({c1}) {op} {cw}({c2})", f"s.o @= {cw}({c1}) << 1", f"s.o @= ({cw}({c1}) {op} {cw}({c2})) {op} s.a"])
    if "s.a" in stmt: wa = wo
    d = wo - w
  else: stmt = f"s.o @= concat(s.a[0:{max(1, w // 2)}], s.b[0:{w - max(1, w // 2) if w > 1 else 1}])"
  return NM_TMPL.format(wa=wa, wb=max(1, wb), wo=wo, stmt=stmt, itbl=itbl), {"shape": shape, "w": w, "delta": d, "literal": lit, "stmt": stmt}


def run_nearmiss(sh, case):
  from pymtl3 import DefaultPassGroup, Bits
  rng = sh.rng("nm", case)
  src, desc = gen_nearmiss(rng)
  mod = G.load_source(src, "c10n")
  try:
    # (1) checker verdict
    t1 = mod.NM(); t1.elaborate()
    try:
      static_table(t1); accepted = True; rej = None
    except Exception as e:
      accepted = False; rej = type(e).__name__
    # (2) simulation verdict
    t2 = mod.NM(); t2.elaborate(); t2.apply(DefaultPassGroup())
    err = None
    for _ in range(6):
      try:
        for p in ("a", "b", "c", "sel", "wd"):
          o = getattr(t2, p); o @= Bits(o.nbits, rng.getrandbits(o.nbits))
        if desc["shape"] == 26:
          # bases 0..3: base + K stays inside the 16-bit operand
          t2.wd @= rng.getrandbits(16) & 0xffe0 | rng.randrange(4)
          t2.bs[0] @= rng.randrange(4); t2.bs[1] @= rng.randrange(4); t2.ps @= mod.NMQ(rng.randrange(4), rng.randrange(4))
        t2.sim_eval_combinational()
      except Exception as e:
        err = e; break
    sh.count("nearmiss_cases"); sh.count("evaluations")
    sh.count("nearmiss_accepted" if accepted else "nearmiss_rejected")
    if desc["shape"] == 25: sh.count("int_table_signal_index:" + str(desc["literal"]) + (":accepted" if accepted else ":rejected"))
    if desc["shape"] in (27, 28, 29, 31, 32): sh.count(str(desc["literal"]) + (":accepted" if accepted else ":rejected") + (":raises" if err is not None and is_width_error(err) else ""))
    if desc["shape"] == 26:
      sh.count("part_select:" + str(desc["literal"]) + (":accepted" if accepted else ":rejected"))
      if accepted and err is not None and not is_width_error(err): sh.count("part_select_other_error:" + type(err).__name__)
    sh.fp("nm", desc["shape"], desc["delta"], accepted, err is not None and is_width_error(err))
    if desc["shape"] == 30:
      sh.count(str(desc["literal"]) + (":accepted" if accepted else ":rejected"))
      if accepted and isinstance(err, IndexError):
        sh.violation("checker-accepted-a-slice-beyond-the-width-of-the-value", dict(desc, error=str(err)[:160], source=src), case=case)
    if accepted and err is not None and is_width_error(err):
      lit = desc["literal"]
      mech = "literal-width-float-log2-wrong-from-2^49" if desc["shape"] in (4, 5, 6) and lit >= (1 << 49) else None
      if desc["shape"] == 25: sh.count("int_table_cases_accepted_and_raising")
      if desc["shape"] == 14 and "Integer -" in str(err):
        mech = "negative-integer-constant-operand-accepted-but-refused-by-simulation"
      if desc["shape"] == 25 and str(lit).startswith("with-literal:"): mech = "int-table-element-and-literal-are-plain-python-ints-in-simulation"
      if desc["shape"] == 27: mech = "implicit-arithmetic-on-loop-variable-keeps-pre-enforcement-width"
      if desc["shape"] == 28: mech = "temporary-typed-once-in-textual-order-although-the-loop-retypes-it"
      sh.violation("checker-accepted-a-block-whose-simulation-raises-a-width-error", dict(desc, error=str(err)[:160], source=src), mechanism=mech, case=case)
    if case < 1:
      sh.sample({"near_miss": desc, "checker_accepted": accepted, "rejection": rej, "simulation_error": None if err is None else str(err)[:100]})
  except Exception as e:
    sh.inconclusive("nearmiss-harness:" + type(e).__name__)
  finally:
    G.unload(mod)


def run_literals(sh):
  """inferred width of integer constants as the RTLIR layer computes it (the public getter the type checker uses)"""
  from pymtl3.passes.rtlir.rtype import RTLIRDataType as rdt
  from pymtl3.passes.rtlir.rtype import RTLIRType as rt
  vals = set()
  for k in range(0, 201):
    vals |= {(1 << k) - 1, 1 << k, (1 << k) + 1}
  vals |= set(range(0, 70))
  for v in sorted(vals):
    if v < 0: continue
    try:
      w = rdt.get_rtlir_dtype(v).get_length()
    except Exception as e:
      sh.count("literal_getter_raised"); continue
    sh.count("literal_widths_checked")
    exp = max(1, v.bit_length())
    if w != exp:
      sh.violation("integer-literal-width-is-not-the-least-width-that-holds-it", {"value": hex(v), "value_is": f"2**{v.bit_length()-1}+{v - (1 << (v.bit_length()-1))}" if v else "0",
                   "inferred": w, "expected": exp}, mechanism="literal-width-float-log2-wrong-from-2^49" if v >= (1 << 49) else None)
  sh.fp("literals")


FW2_SRC = """from pymtl3 import *
class C0(Component):
  def construct(s):
    s.in_0 = InPort(mk_bits(8)); s.out_1 = OutPort(mk_bits(1)); s.out_2 = OutPort(mk_bits(8))
    @update
    def up_0():
      s.out_1 @= s.in_0 < 300 - 100
      s.out_2 @= s.in_0 + (260 - 259)
"""


def run_probe_fw2(sh):
  """probe stream for the listed finding F-W2: leaf literal of a folded constant sub-expression"""
  d = {"types": {}, "classes": {"C0": {"name": "C0", "signals": [{"name": "in_0", "kind": "InPort", "type": 8, "list": None}], "children": [],
       "connects": [], "blocks": []}}, "order": ["C0"], "top": "C0"}
  mod = G.load_source(FW2_SRC, "c10p")
  try:
    top = mod.C0(); top.elaborate()
    try:
      table, nblk = static_table(top)
    except Exception as e:
      sh.count("probe_rejected:" + type(e).__name__); return
  finally:
    G.unload(mod)
  rec = {}
  def probe(key, v):
    rec.setdefault(key, []).append(v); return v
  tmod = G.load_source(instrument(FW2_SRC), "c10pt")
  tmod.__dict__["vprobe_"] = probe
  try:
    from pymtl3 import DefaultPassGroup
    twin = tmod.C0(); twin.elaborate(); twin.apply(DefaultPassGroup())
    twin.in_0 @= 5; twin.sim_eval_combinational()
  finally:
    G.unload(tmod)
  uppers = table.pop("__uppers__")
  for key, infos in table.items():
    for (kind, w, isconst) in infos:
      for v in rec.get(key, [])[:1]:
        if isinstance(v, int) and not isinstance(v, bool) and (v < 0 or v >= (1 << w)):
          sh.violation("static-width-cannot-hold-runtime-int", {"node": kind, "pos": list(key[1:]), "static": w, "runtime_value": v, "design_source": FW2_SRC},
                       mechanism="leaf-literal-of-folded-constant-enforced-too-narrow" if kind in ("Number", "FreeVar") else None, case="probe-F-W2")
  sh.count("probe_designs")


FW6_SRC = """from pymtl3 import *
class NM(Component):
  def construct(s):
    K = 1
    s.a = InPort(4); s.b = InPort(4); s.c = InPort(1); s.o = OutPort(4); s.p = OutPort(4)
    @update
    def up():
      s.o @= s.a - (~(0 if s.c else s.b))
    @update
    def up2():
      s.p @= (K + (s.a if s.c else 15)) | s.b
"""


def run_probe_fw6(sh):
  """probe stream for the listed finding F-W6: if-expression with a literal branch is a plain int in simulation"""
  from pymtl3 import DefaultPassGroup
  from vlib.checks import c03_sv
  mod = G.load_source(FW6_SRC, "c10q")
  try:
    t1 = mod.NM(); t1.elaborate()
    try:
      static_table(t1)
    except Exception as e:
      sh.count("probe_rejected:" + type(e).__name__); return
    t2 = mod.NM(); t2.elaborate(); t2.apply(DefaultPassGroup())
    for c in (0, 1):
      try:
        t2.a @= 3; t2.b @= 5; t2.c @= c; t2.sim_eval_combinational()
      except Exception as e:
        if is_width_error(e):
          sh.violation("checker-accepted-a-block-whose-simulation-raises-a-width-error", {"error": str(e)[:160], "source": FW6_SRC, "c": c},
                       mechanism="ifexp-with-literal-branch-evaluates-to-python-int-in-simulation" if c03_sv.literal_branch_ifexp_meets_int_semantics(FW6_SRC) else None,
                       case="probe-F-W6")
    sh.count("probe_designs")
  finally:
    G.unload(mod)


def run_shard(sh):
  if sh.params["part"] == 0:
    run_probe_fw2(sh)
    run_probe_fw6(sh)
  for case in range(sh.params["designs"]):
    if sh.only is not None and str(case) != str(sh.only).strip('"'):
      continue
    run_design(sh, case)
  for case in range(sh.params["nearmiss"]):
    run_nearmiss(sh, 100000 + case)
  if sh.params["part"] == 0:
    run_literals(sh)
