"""C15 - replacing a component yields the same design as building it directly."""
import traceback

from vlib import specgen as G, simmon as M

PROPERTY = "C15"
LEVEL = "exploration"
RULE = ("case = one generated hierarchy + a history of 1-5 replace_component / replace_component_with_obj calls (child at depth 1-3, "
        "repeated replacement of one slot, parent after child; replacement classes keep the ports but differ in wires, blocks, "
        "children, explicit constraints). The canonical metadata dump (component/signal names, nets+writers, adjacency, update "
        "blocks with read/write sets, update_ff set, U_U/RD_U/WR_U constraints by name) of the mutated top is compared with a "
        "from-scratch build of the final design; both are simulated against each other and against the reference; the object graph "
        "under top._dsl is scanned for residue of deleted components. distinct_nontrivial = histories with >= 2 replacements")
ASSUMPTIONS = [
  "empty adjacency / constraint sets are dropped from the dump (defaultdict look-up residue carries no information)",
  "update-block identity is (host component name, function name)",
]


def plan(tier, seed):
  q = tier == "quick"
  return [{"hashseed": (seed * 53 + i) % 1049, "histories": 25 if q else 250} for i in range(16)]


def thresholds(tier):
  t = {"histories": 120, "histories_len3plus": 30, "dump_sections_compared": 1000, "sim_value_comparisons": 20000, "residue_objects_scanned": 20000,
       "replaced_with_constraints": 20, "cl_histories": 40}
  if tier == "thorough":
    t = {k: v * 15 for k, v in t.items()}
  return t


def knobs_for(rng):
  k = _knobs_for(rng)
  if k["widths"] is None: del k["widths"]
  return k


def _knobs_for(rng):
  return {"depth": rng.choice([1, 2, 2, 3]), "max_children": rng.choice([2, 3]), "p_ff": 0.25, "p_connect": 0.4, "p_split": 0.3,
          "p_struct": 0.25, "p_list": rng.choice([0.2, 0.45]), "p_list2d": rng.choice([0, 0.6]), "max_sigs": 4, "expr_depth": 1, "p_constraints": 0.7, "p_ff_child": rng.choice([0, 0.3]), "p_func": rng.choice([0, 0.3]), "p_connect_reset": rng.choice([0, 0.5, 0.9]),
          "widths": rng.choice([None, [1, 1, 2, 4, 8]])}


def nm(x):
  from pymtl3.dsl.Connectable import Const
  if isinstance(x, Const):
    return f"const:{int(x._dsl.const)}"
  return repr(x)


def dump(top):
  """canonical, identity-free description of everything queryable"""
  D = {}
  D["components"] = sorted(repr(c) for c in top.get_all_components())
  D["signals"] = sorted(repr(x) for x in top._dsl.all_signals)
  D["named_objects"] = sorted(repr(x) for x in top.get_all_object_filter(lambda x: True))
  D["levels_and_parents"] = sorted((repr(x), getattr(x._dsl, "level", None), repr(x.get_parent_object()) if x is not top else None)
                                   for x in top.get_all_object_filter(lambda x: True))
  nets = {}
  for w, sigs in top.get_all_value_nets():
    nets[tuple(sorted(nm(x) for x in sigs))] = nm(w) if w is not None else None
  D["nets"] = sorted((k, v) for k, v in nets.items())
  adj = {}
  for k, vs in top.get_signal_adjacency_dict().items():
    if vs and not nm(k).startswith("const:"):
      adj[nm(k)] = sorted(nm(v) for v in vs if not nm(v).startswith("const:")) + sorted(v for v in (nm(v) for v in vs) if v.startswith("const:"))
  D["adjacency"] = sorted(adj.items())
  D["adjacency_const_keys"] = sorted((nm(k), sorted(nm(v) for v in vs)) for k, vs in top.get_signal_adjacency_dict().items() if nm(k).startswith("const:"))
  host = top.get_update_block_host_component
  def bk(b):
    try:
      return (repr(host(b)), b.__name__)
    except KeyError:
      return ("<block-of-no-registered-host>", b.__qualname__)
  D["update_blocks"] = sorted(bk(b) for b in top.get_all_update_blocks())
  D["update_ff"] = sorted(bk(b) for b in top.get_all_update_ff())
  D["update_once"] = sorted(bk(b) for b in top.get_all_update_once())
  rd, wr, calls = top.get_all_upblk_metadata()
  D["upblk_reads"] = sorted((bk(b), sorted(repr(x) for x in v)) for b, v in rd.items() if v)
  D["upblk_writes"] = sorted((bk(b), sorted(repr(x) for x in v)) for b, v in wr.items() if v)
  U_U, RD_U, WR_U, U_M = top.get_all_explicit_constraints()
  D["U_U"] = sorted((bk(a), bk(b)) for (a, b) in U_U)
  D["RD_U"] = sorted((repr(k), sorted((sign, bk(b)) for (sign, b) in v)) for k, v in RD_U.items() if v)
  D["WR_U"] = sorted((repr(k), sorted((sign, bk(b)) for (sign, b) in v)) for k, v in WR_U.items() if v)
  def cn(x):
    if callable(x) and hasattr(x, "__qualname__") and not hasattr(x, "_dsl"):
      try: return bk(x)
      except Exception: return x.__qualname__
    return repr(x)
  D["U_M"] = sorted(str(tuple(cn(y) for y in x) if isinstance(x, tuple) else cn(x)) for x in U_M)
  def mn(x):
    if hasattr(x, "_dsl"): return repr(x)
    owner = getattr(x, "__self__", None)
    return f"{repr(owner) if hasattr(owner, '_dsl') else '?'}::{getattr(x, '__name__', '?')}"
  D["upblk_calls"] = sorted((bk(b), sorted(mn(x) for x in v)) for b, v in calls.items() if v)
  # connections each component made, as (name, name) pairs: multiset (the order among re-created connections is not specified)
  co = []
  for c in top.get_all_components():
    for (x, y) in c.get_connect_order():
      co.append(tuple(sorted((nm(x), nm(y)))))
  D["connect_order_pairs"] = sorted(co)
  # identity: every object the metadata refers to must be the one its name denotes in THIS design (a stale object of a
  # removed component has the same name as its successor)
  refs = []
  for b, v in list(rd.items()) + list(wr.items()) + list(calls.items()):
    refs += [(f"upblk metadata of {bk(b)[1]}", x) for x in v]
  for k, v in list(RD_U.items()) + list(WR_U.items()):
    refs.append(("RD/WR constraint key", k))
  for c in getattr(top._dsl, "all_M_constraints", ()):
    refs += [("M constraint", x) for x in c[:2]]
  stale = set()
  for where, o in refs:
    if hasattr(o, "_dsl") and hasattr(o, "get_parent_object"):
      try:
        live = eval("top" + repr(o)[1:], {"top": top})
      except Exception:
        live = None
      if live is not o:
        stale.add(f"{where}: {repr(o)}")
  D["stale_objects_referenced"] = sorted(stale)
  D["method_nets"] = sorted((mn(w) if w is not None else None, sorted(repr(x) for x in net)) for w, net in top.get_all_method_nets())
  return D


def residue(top, sh):
  """objects reachable from top._dsl that belong to a deleted component; returns ['where: name', ...]"""
  seen = set()
  bad = []
  stack = [(top._dsl.__dict__, "top._dsl")]
  n = 0
  def isdel(o):
    return hasattr(o, "_dsl") and isinstance(getattr(o._dsl, "full_name", None), str) and o._dsl.full_name.startswith("<deleted>")
  while stack and n < 300000:
    o, where = stack.pop()
    if id(o) in seen: continue
    seen.add(id(o)); n += 1
    if isinstance(o, dict):
      for k, v in o.items():
        kk = k if isinstance(k, str) else (repr(k)[:40])
        if isdel(k): bad.append(f"{where}[key]: {k._dsl.full_name}")
        stack.append((v, f"{where}.{kk}" if isinstance(k, str) else f"{where}[{kk}]"))
        if isinstance(k, tuple): stack.append((k, f"{where}[key-tuple]"))
    elif isinstance(o, (list, tuple, set, frozenset)):
      for v in o:
        stack.append((v, where + "[*]"))
    elif isdel(o):
      bad.append(f"{where}: {o._dsl.full_name}")
    elif callable(o) and getattr(o, "__closure__", None):
      for c in o.__closure__:
        try:
          v = c.cell_contents
        except ValueError:
          continue
        if isdel(v):
          bad.append(f"{where}<closure of {getattr(o, '__name__', '?')}>: {v._dsl.full_name}")
  sh.count("residue_objects_scanned", n)
  return sorted(set(bad))


def run_case(sh, case):
  rng = sh.rng("hist", case)
  knobs = knobs_for(rng)
  gen = G.Gen(rng, knobs)
  gen.design["top"] = gen.gen_class(knobs["depth"], True)
  d0 = gen.design
  for sk, sv in d0.get("stats", {}).items(): sh.count(sk, sv)
  paths = G.instance_paths(d0)
  if not paths:
    sh.count("no_children(skipped)"); return
  k = rng.choice([1, 1, 2, 2, 3, 4, 5])
  hist = []
  cur = d0
  had_constraints = False
  for step in range(k):
    ips = G.instance_paths(cur)
    if not ips: break
    if hist and rng.random() < 0.3:
      path = hist[-1][0]                       # replace the same slot again
    elif hist and rng.random() < 0.3 and len(hist[-1][0]) > 1:
      path = hist[-1][0][:-1]                  # the parent after its child
    else:
      path = rng.choice(ips)[0]
    ccn = dict((tuple(p), c) for p, c in ips)[tuple(path)]
    ports = [sg for sg in cur["classes"][ccn]["signals"] if sg["kind"] in ("InPort", "OutPort")]
    if cur["classes"][ccn].get("constraints"): had_constraints = True
    g2 = G.Gen(rng, knobs, design=cur)
    newc = g2.gen_class(rng.randrange(0, 2), False, fixed_ports=ports)
    how = rng.choice(["cls", "obj"])
    cur = G.spec_replace(cur, path, newc, f"r{step}")
    hist.append((path, newc, how))
  dk = cur
  src = G.emit(dk)
  mod = G.load_source(src, "c15")
  W = lambda kind, **kw: sh.violation(kind, dict(kw, history=[(".".join(p), c, h) for p, c, h in hist], design_source=src), case=case,
                                      mechanism=kw.get("mech"))
  try:
    topA = getattr(mod, d0["top"])(); topA.elaborate()
    try:
      for path, newc, how in hist:
        obj = eval("s." + ".".join(path), {"s": topA})
        if how == "cls": topA.replace_component(obj, getattr(mod, newc))
        else: topA.replace_component_with_obj(obj, getattr(mod, newc)())
    except Exception as e:
      W("replace_component-raised", error=traceback.format_exc()[-700:]); return
    topB = getattr(mod, dk["top"])(); topB.elaborate()
    da, db = dump(topA), dump(topB)
    for sec in db:
      sh.count("dump_sections_compared")
      if da[sec] != db[sec]:
        onlyA = [x for x in da[sec] if x not in db[sec]][:4]; onlyB = [x for x in db[sec] if x not in da[sec]][:4]
        mech = None
        if sec in ("WR_U", "RD_U") and all("<deleted>" in str(x[0]) for x in onlyA) and not onlyB:
          mech = "stale-RD/WR-constraint-of-deleted-component"
        W("metadata-differs-from-scratch-build:" + sec, only_in_replaced=onlyA, only_in_scratch=onlyB, mech=mech)
        if mech is None: return
    bad = residue(topA, sh)
    if bad:
      W("deleted-component-objects-still-reachable-from-top", names=bad[:6],
        mech="stale-RD/WR-constraint-of-deleted-component" if all("constraint" in b for b in bad) else None)
    # simulate both + reference
    ref = G.Ref(dk)
    seq = M.gen_inputs(rng, dk, rng.randrange(5, 10))
    reftrace, ref = M.reference_trace(dk, seq)
    widths = {p: w for p, w in G.top_inputs(dk)}
    pths = sorted(ref.sig)
    sims = []
    from pymtl3 import DefaultPassGroup
    for t in (topA, topB):
      t.apply(DefaultPassGroup())          # NOT elaborate() again: that would rebuild the very metadata under test
      sims.append((t, M.Live(t)))
    for cyc, inp in enumerate(seq):
      snaps = []
      for t, live in sims:
        M.set_inputs(t, live, inp, widths, int(cyc < 2))
        t.sim_eval_combinational()
        a = live.snapshot(pths)
        t.sim_tick()
        snaps.append((a, live.snapshot(pths)))
      sh.count("sim_value_comparisons", 2 * len(pths))
      if snaps[0] != snaps[1]:
        diff = [(p, hex(snaps[0][ph][p]), hex(snaps[1][ph][p])) for ph in (0, 1) for p in pths if snaps[0][ph][p] != snaps[1][ph][p]][:5]
        W("replaced-design-simulates-differently-from-scratch-build", cycle=cyc, diff=diff); return
      if reftrace is not None and (snaps[1][0] != reftrace[cyc][0] or snaps[1][1] != reftrace[cyc][1]):
        W("scratch-build-differs-from-reference(C01 territory)", cycle=cyc); return
    sh.count("histories"); sh.count("evaluations")
    if len(hist) >= 3: sh.count("histories_len3plus")
    if had_constraints: sh.count("replaced_with_constraints")
    if len(hist) >= 2: sh.fp(src)
    if case < 1:
      sh.sample({"history": [(".".join(p), c, h) for p, c, h in hist], "components": len(db["components"]), "signals": len(db["signals"]),
                 "nets": len(db["nets"]), "explicit_constraints": len(db["U_U"]) + len(db["RD_U"]) + len(db["WR_U"])})
  except Exception as e:
    W("harness-or-elaboration-raised", error=traceback.format_exc()[-700:])
  finally:
    G.unload(mod)


CL_SRC = """
from pymtl3 import *
from pymtl3.stdlib.queues.cl_queues import PipeQueueCL, BypassQueueCL, NormalQueueCL
class Wrap(Component):
  def construct(s, Q, n, via_func=False):
    s.q = Q(n)
    s.got = []
    if via_func:
      # the child's methods are called inside a helper (two deep): the block calls them only through the helpers
      @s.func
      def do_enq():
        if s.q.enq.rdy(): s.q.enq(1)
      @s.func
      def do_enq_outer():
        do_enq()
      @update_once
      def up_enq():
        do_enq_outer()
    else:
      @update_once
      def up_enq():
        if s.q.enq.rdy(): s.q.enq(1)
    @update_once
    def up_deq():
      if s.q.deq.rdy(): s.got.append(s.q.deq())
    s.nobs = 0
    @update_once
    def up_obs():
      s.nobs = len(s.got)
    s.add_constraints( M(s.q.deq) < U(up_obs) )          # the parent's own constraint on a method of the child
class TopCL(Component):
  def construct(s, Q0, Q1, n):
    s.w = [Wrap(Q0, n, n % 2 == 0), Wrap(Q1, n, n % 3 == 0)]
    s.cnt = 0
    @update_once
    def up_t():
      s.cnt += 1
"""


def run_cl_case(sh, case):
  """method-level metadata: update_once sets and method constraints after replacing CL components"""
  rng = sh.rng("cl", case)
  mod = G.load_source(CL_SRC, "c15cl")
  try:
    Qs = [mod.PipeQueueCL, mod.BypassQueueCL, mod.NormalQueueCL]
    q0, q1, qn = rng.choice(Qs), rng.choice(Qs), rng.choice(Qs)
    n = rng.randrange(1, 7)
    slot = rng.randrange(2)
    topA = mod.TopCL(q0, q1, n); topA.elaborate()
    W = lambda kind, **kw: sh.violation(kind, dict(kw, original=[q0.__name__, q1.__name__], replaced_slot=slot, new=qn.__name__), case=case,
                                        mechanism=kw.get("mech"))
    try:
      how = rng.choice(["inner", "outer"])
      if how == "inner":
        topA.replace_component(topA.w[slot].q, qn)
      else:
        topA.replace_component_with_obj(topA.w[slot], mod.Wrap(qn, n, n % (2 + slot) == 0))
    except Exception:
      W("replace_component-raised", error=traceback.format_exc()[-500:]); return
    qs = [q0, q1]; qs[slot] = qn
    topB = mod.TopCL(qs[0], qs[1], n); topB.elaborate()
    da, db = dump(topA), dump(topB)
    def mc(top):
      out = []
      for c in top._dsl.all_M_constraints:
        out.append(str([ (repr(x) if hasattr(x, "_dsl") else getattr(x, "__qualname__", repr(x))) for x in c]))
      return sorted(out)
    da["M_constraints"], db["M_constraints"] = mc(topA), mc(topB)
    for sec in db:
      sh.count("dump_sections_compared")
      if da[sec] != db[sec]:
        onlyA = [x for x in da[sec] if x not in db[sec]][:4]; onlyB = [x for x in db[sec] if x not in da[sec]][:4]
        W("metadata-differs-from-scratch-build:" + sec, only_in_replaced=onlyA, only_in_scratch=onlyB, how=how,
          mech="stale-update_once/M-constraints-of-deleted-component" if sec in ("update_once", "M_constraints", "U_M") and not onlyB else None)
        return
    bad = residue(topA, sh)
    if bad:
      W("deleted-component-objects-still-reachable-from-top", names=bad[:6]); return
    sh.count("cl_histories"); sh.count("evaluations")
    sh.fp("cl", q0.__name__, q1.__name__, qn.__name__, slot, how, n)
  finally:
    G.unload(mod)


CL2_SRC = """
from pymtl3 import *
def WATCH(log, x):
  if len(log) < 4: log.append(type(x).__name__)

class StageRTL(Component):
  def construct(s, k):
    s.in_ = InPort(8); s.out = OutPort(8)
    @update_ff
    def up():
      s.out <<= s.in_ + k
class Prod(Component):
  def construct(s):
    s.in_ = InPort(8)
    s.send = CallerIfcCL()
    @update_once
    def up_send():
      if s.send.rdy(): s.send(s.in_)
class Cons(Component):
  @non_blocking(lambda s: True)
  def recv(s, v):
    s.nxt = int(v)
  def construct(s, k):
    s.out = OutPort(8)
    s.nxt = 0
    @update_ff
    def up_out():
      s.out <<= (s.nxt + k) & 255
    s.add_constraints( M(s.recv) < U(up_out) )
class StageCL(Component):
  def construct(s, k):
    s.in_ = InPort(8); s.out = OutPort(8)
    s.p = Prod(); s.c = Cons(k=k)
    s.p.in_ //= s.in_
    s.out //= s.c.out
    connect(s.p.send, s.c.recv)
    # a component WITHOUT a block of its own that orders blocks of its children
    s.add_constraints( U(s.p.get_update_block("up_send")) < U(s.c.get_update_block("up_out")) )
class StageM(Component):
  @non_blocking(lambda s: True)
  def recv(s, v):
    s.nxt = int(v)
  def construct(s, k):
    s.out = OutPort(8)
    s.nxt = 0
    @update_ff
    def up_out():
      s.out <<= (s.nxt + k) & 255
    s.add_constraints( M(s.recv) < U(up_out) )
class Chain(Component):
  def construct(s, classes, ks, lb=None, tie=None, mc=None, pc=False):
    s.in_ = InPort(8); s.out = OutPort(8)
    s.stage = [c(k=k) for c, k in zip(classes, ks)]
    s.stage[0].in_ //= s.in_
    for i in range(1, len(classes)):
      s.stage[i].in_ //= s.stage[i-1].out
    s.out //= s.stage[-1].out
    # the parent's own explicit constraints on ports of a child
    s.obs = OutPort(8)
    @update
    def up_obs(): s.obs @= s.stage[0].out
    @update
    def up_pre(): s.in_2 @= s.in_
    s.in_2 = Wire(8)
    s.add_constraints( WR(s.stage[0].out) < U(up_obs), RD(s.stage[0].in_) > U(up_pre) )
    # a block that mentions a child (and, below, a child's interface) AS A WHOLE: both are members of its read set
    s.seen = []
    @update
    def up_watch():
      s.in_3 @= s.in_
      WATCH(s.seen, s.stage[0])
    s.in_3 = Wire(8)
    # ... and on a BLOCK of a child (when the child has one of that name)
    if pc: s.add_constraints( U(up_pre) < U(s.stage[0].get_update_block("up")) )
    # ... and a block of a child ordered against the writers / readers of a SIGNAL: a port of that child, a signal of the parent
    if pc: s.add_constraints( WR(s.stage[0].in_) < U(s.stage[0].get_update_block("up")), U(s.stage[0].get_update_block("up")) < RD(s.obs) )
    if lb is not None:
      # a registered stage wired back onto itself BY THE PARENT (a counter)
      s.lb = lb[0](k=lb[1]); s.lbo = OutPort(8)
      s.lb.in_ //= s.lb.out
      s.lbo //= s.lb.out
    if mc is not None:
      # a CL stage whose method port the PARENT connects to a producer
      s.pp = Prod(); s.mc = StageM(k=mc[1]); s.mco = OutPort(8)
      s.pp.in_ //= s.in_
      connect(s.pp.send, s.mc.recv)
      s.mco //= s.mc.out
      # a block of one child ordered against a METHOD of another child
      if pc: s.add_constraints( U(s.stage[0].get_update_block("up")) < M(s.mc.recv) )
      @update
      def up_watch_ifc():
        s.in_4 @= s.in_
        WATCH(s.seen, s.mc.recv)
      s.in_4 = Wire(8)
    if tie is not None:
      # a stage whose input the parent ties to a constant
      s.tie = tie[0](k=tie[1]); s.tieo = OutPort(8)
      s.tie.in_ //= 5
      s.tieo //= s.tie.out
class Outer(Component):
  def construct(s, classes, ks, lb=None, tie=None, mc=None, pc=False):
    s.in_ = InPort(8); s.out = OutPort(8); s.lbo = OutPort(8); s.tieo = OutPort(8); s.mco = OutPort(8)
    s.ch = Chain(classes, ks, lb, tie, mc, pc)
    if mc is not None: s.mco //= s.ch.mco
    else: s.mco //= 0
    s.ch.in_ //= s.in_; s.out //= s.ch.out
    if lb is not None: s.lbo //= s.ch.lbo
    else: s.lbo //= 0
    if tie is not None: s.tieo //= s.ch.tieo
    else: s.tieo //= 0
    # the GRANDPARENT of the stages reads a port of a stage in a block of its own and constrains it
    s.peek = OutPort(8)
    @update
    def up_peek(): s.peek @= s.ch.stage[0].out
    s.add_constraints( WR(s.ch.stage[0].out) < U(up_peek) )
    if pc: s.add_constraints( U(s.ch.stage[0].get_update_block("up")) < U(up_peek) )
"""


def run_cl2_case(sh, case):
  """a pure-RTL stage replaced by a port-compatible stage that contains CL children connected through an INTERNAL method net
  (and back): method nets / call sets of the replaced design vs a scratch build, and both simulated"""
  from pymtl3 import DefaultPassGroup
  rng = sh.rng("cl2", case)
  mod = G.load_source(CL2_SRC, "c15cl2")
  try:
    n = rng.randrange(1, 4)
    kinds = [rng.choice(["RTL", "RTL", "CL"]) for _ in range(n)]
    ks = [rng.randrange(1, 9) for _ in range(n)]
    cls_of = {"RTL": mod.StageRTL, "CL": mod.StageCL}
    extra = {"lb": [rng.choice(["RTL", "CL"]), rng.randrange(1, 9)] if rng.random() < 0.5 else None,
             "tie": [rng.choice(["RTL", "CL"]), rng.randrange(1, 9)] if rng.random() < 0.5 else None,
             "mc": ["M", rng.randrange(1, 9)] if rng.random() < 0.5 else None}
    cls_of["M"] = mod.StageM
    nested = rng.random() < 0.5           # the chain sits one level below the top: replaced list elements are at depth 2
    Cls = mod.Outer if nested else mod.Chain
    pre = "top.ch." if nested else "top."
    pc = kinds[0] == "RTL" and rng.random() < 0.6          # the parent orders one of its blocks against the block "up" of stage[0]
    mk = lambda kinds_, ks_, ex: Cls([cls_of[k] for k in kinds_], ks_, pc=pc, **{a: None if v is None else (cls_of[v[0]], v[1]) for a, v in ex.items()})
    setp = None; wild = None
    if rng.random() < 0.4:
      setp = (rng.randrange(n), rng.randrange(1, 9))             # set_param on a list element that may be replaced later
      if rng.random() < 0.6: wild = rng.randrange(1, 9)          # ... after a wildcard default for all stages (the later, exact entry wins)
    deep = None
    if rng.random() < 0.35:
      # parameters of a GRANDCHILD (the consumer inside a CL stage): a wildcard default for all stages, then an exact entry for one stage
      deep = (rng.randrange(1, 9), rng.randrange(n), rng.randrange(1, 9))
    def params(t):
      if wild is not None: t.set_param(pre + "stage*.construct", k=wild)
      if setp: t.set_param(f"{pre}stage[{setp[0]}].construct", k=setp[1])
      if deep:
        t.set_param(pre + "stage*.c.construct", k=deep[0])
        t.set_param(f"{pre}stage[{deep[1]}].c.construct", k=deep[2])
    topA = mk(kinds, ks, extra)
    params(topA)
    topA.elaborate()
    chA = topA.ch if nested else topA
    steps = []
    final = list(kinds)
    slots = list(range(n)) + [a for a in ("lb", "tie", "mc") if extra[a] is not None]
    for _ in range(rng.randrange(1, 4)):
      i = rng.choice(slots); newk = rng.choice(["RTL", "CL", "CL"]); newv = rng.randrange(1, 9)
      if i == "mc": newk = "M"
      if i == 0 and pc: newk = "RTL"          # the parent's constraint names a block that only this kind has
      byclass = rng.random() < 0.5
      old_k = ks[i] if isinstance(i, int) else extra[i][1]
      if byclass: newv = old_k          # replace_component( old, cls ) constructs cls with the OLD component's arguments
      steps.append((i, newk, newv, "class" if byclass else "object"))
      target = chA.stage[i] if isinstance(i, int) else getattr(chA, i)
      try:
        if byclass:
          topA.replace_component(target, cls_of[newk])
        else:
          topA.replace_component_with_obj(target, cls_of[newk](k=newv))
      except Exception:
        sh.violation("replace_component-raised", {"kinds": kinds, "steps": steps, "error": traceback.format_exc()[-500:]}, case=("cl2", case)); return
      if isinstance(i, int):
        final[i] = newk; ks[i] = newv
      else:
        extra[i] = [newk, newv]
    W = lambda kind, **kw: sh.violation(kind, dict(kw, original=kinds, steps=steps, final=final, extra=extra, set_param=setp, wildcard=wild, deep=deep, nested=nested, parent_block_constraint=pc), case=("cl2", case))
    topB = mk(final, ks, extra)
    params(topB)
    topB.elaborate()
    da, db = dump(topA), dump(topB)
    for sec in db:
      sh.count("dump_sections_compared")
      if da[sec] != db[sec]:
        W("metadata-differs-from-scratch-build:" + sec, only_in_replaced=[x for x in da[sec] if x not in db[sec]][:4],
          only_in_scratch=[x for x in db[sec] if x not in da[sec]][:4]); return
    bad = residue(topA, sh)
    if bad:
      W("deleted-component-objects-still-reachable-from-top", names=bad[:6]); return
    traces = []
    for nm_, t in (("replaced", topA), ("scratch", topB)):
      try:
        t.apply(DefaultPassGroup()); t.sim_reset()
        tr = []
        r2 = sh.rng("cl2in", case)
        for cyc in range(12):
          t.in_ @= r2.getrandbits(8); t.sim_tick()
          tr.append((int(t.out), int(t.lbo) if extra["lb"] else None, int(t.tieo) if extra["tie"] else None, int(t.mco) if extra["mc"] else None))
        traces.append(tr)
      except Exception:
        traces.append("raised: " + traceback.format_exc()[-300:])
    sh.count("cl2_simulations", 2)
    if traces[0] != traces[1]:
      W("replaced-design-simulates-differently-from-scratch-build", replaced=traces[0], scratch=traces[1]); return
    sh.count("cl2_histories"); sh.count("evaluations")
    sh.fp("cl2", tuple(kinds), tuple(steps))
  finally:
    G.unload(mod)


BADCLS_SRC = """
from pymtl3 import *
class Good(Component):
  def construct(s):
    s.in_ = InPort(8); s.out = OutPort(8)
    s.ws = [Wire(8)]
    s.ws += [Wire(8)]
    s.ws[0] //= s.in_; s.ws[1] //= s.ws[0]; s.out //= s.ws[1]
class LateAppend(Component):        # a wire slipped into the list after the list was assigned: never named
  def construct(s):
    s.in_ = InPort(8); s.out = OutPort(8)
    s.ws = [Wire(8)]
    s.ws.append(Wire(8))
    s.ws[0] //= s.in_; s.out //= s.ws[0]
class LateSetitem(Component):
  def construct(s):
    s.in_ = InPort(8); s.out = OutPort(8)
    s.ws = [Wire(8), None]
    s.ws[1] = Wire(8)
    s.ws[0] //= s.in_; s.out //= s.ws[0]
class AliasList(Component):         # a list of wires that already have a name
  def construct(s):
    s.in_ = InPort(8); s.out = OutPort(8)
    s.a = Wire(8); s.ws = [s.a]
    s.a //= s.in_; s.out //= s.a
class BTop(Component):
  def construct(s, cls):
    s.in_ = InPort(8); s.out = OutPort(8)
    s.c = cls()
    s.c.in_ //= s.in_; s.out //= s.c.out
"""


def run_badclass_probe(sh):
  """a replacement class that a direct build refuses (hardware without a name, one object under two names) is refused by
  replace_component / replace_component_with_obj as well; a class the direct build accepts is accepted - the replaced design can
  never hold something a design built from scratch cannot"""
  from vlib import specgen as G
  mod = G.load_source(BADCLS_SRC, "c15bad")
  try:
    for cname in ("Good", "LateAppend", "LateSetitem", "AliasList"):
      cls = getattr(mod, cname)
      try: mod.BTop(cls).elaborate(); direct = None
      except Exception as e: direct = type(e).__name__
      for how in ("class", "obj"):
        top = mod.BTop(mod.Good); top.elaborate()
        try:
          if how == "class": top.replace_component(top.c, cls)
          else: top.replace_component_with_obj(top.c, cls())
          repl = None
        except Exception as e: repl = type(e).__name__
        sh.count("replacement_class_verdicts_compared")
        if (direct is None) != (repl is None):
          unnamed = [repr(x)[:60] for x in top._dsl.all_named_objects if "object at 0x" in repr(x)][:3] if repl is None else []
          sh.violation("replacement-accepted-a-class-the-direct-build-refuses" if repl is None else "replacement-refused-a-class-the-direct-build-accepts",
                       {"class": cname, "how": how, "direct_build": direct, "replacement": repl, "unnamed_objects_in_the_design": unnamed}, case=("badclass", cname, how))
  finally:
    G.unload(mod)


IFCFF_SRC = """
from pymtl3 import *
class SinkIfc(Interface):
  def construct(s):
    s.msg = InPort(8); s.en = InPort()
class Sink(Component):
  def construct(s):
    s.recv = SinkIfc(); s.many = [SinkIfc() for _ in range(2)]; s.plain = InPort(8)
    s.out = OutPort(8); s.seen = OutPort(8); s.m1 = OutPort(8)
    s.out //= s.recv.msg; s.seen //= s.plain; s.m1 //= s.many[1].msg
class Sink2(Sink):
  pass
class FTop(Component):
  def construct(s):
    s.in_ = InPort(8); s.out = OutPort(8); s.seen = OutPort(8); s.m1 = OutPort(8)
    s.sink = Sink()
    s.out //= s.sink.out; s.seen //= s.sink.seen; s.m1 //= s.sink.m1
    @update_ff
    def ff_drive():               # the parent's flip-flop block drives ports of the child: plain, inside an interface, inside a list of interfaces
      s.sink.recv.msg <<= s.in_
      s.sink.plain <<= s.in_ + 1
      s.sink.many[1].msg <<= s.in_ + 2
"""


def run_ifc_ff_probe(sh):
  """registers that are PORTS OF THE CHILD written by a flip-flop block of the parent - plain, inside an interface of the child,
  inside a list of interfaces: after replacing the child (by class, by object, twice) they are still registers (same double-buffer
  marks as in a design built from scratch) and the design simulates like it"""
  from pymtl3 import DefaultPassGroup
  from vlib import specgen as G
  mod = G.load_source(IFCFF_SRC, "c15ifcff")
  try:
    def trace(top):
      top.apply(DefaultPassGroup()); top.sim_reset(); out = []
      for v in (5, 9, 200, 7, 0, 33):
        top.in_ @= v; top.sim_tick(); out.append((int(top.out), int(top.seen), int(top.m1)))
      return out
    def marks(top):
      return sorted(repr(x) for x in top.get_all_object_filter(lambda x: getattr(getattr(x, "_dsl", None), "needs_double_buffer", False)))
    ref = mod.FTop(); ref.elaborate(); want_marks = marks(ref); want = trace(ref)
    for hist in (["class"], ["obj"], ["class", "obj"], ["obj", "class"]):
      top = mod.FTop(); top.elaborate()
      for how in hist:
        if how == "class": top.replace_component(top.sink, mod.Sink2)
        else: top.replace_component_with_obj(top.sink, mod.Sink2())
      sh.count("replaced_child_register_port_histories")
      gm = marks(top)
      if gm != want_marks:
        sh.violation("double-buffer-marks-differ-from-a-design-built-from-scratch", {"history": hist, "missing": sorted(set(want_marks) - set(gm)), "extra": sorted(set(gm) - set(want_marks))}, case=("ifcff", tuple(hist))); continue
      try: got = trace(top)
      except Exception as e:
        sh.violation("replaced-design-does-not-simulate", {"history": hist, "error": f"{type(e).__name__}: {str(e)[:200]}"}, case=("ifcff-sim", tuple(hist))); continue
      if got != want:
        sh.violation("replaced-design-simulates-differently", {"history": hist, "trace(out, seen, m1)": got, "from_scratch": want}, case=("ifcff-trace", tuple(hist)))
  finally:
    G.unload(mod)


INNERC_SRC = """
from pymtl3 import *
LOG = []
class ICh(Component):
  def construct(s):
    s.in_ = InPort(8); s.x = OutPort(8); s.y = OutPort(8)
    @update
    def blk_a():
      LOG.append('a'); s.x @= s.in_ + 1
    @update
    def blk_b():
      LOG.append('b'); s.y @= s.in_ + 2
class ICh2(ICh):
  pass
class IMid(Component):
  def construct(s, order):
    s.in_ = InPort(8); s.c = ICh(); s.c.in_ //= s.in_
    a, b = s.c.get_update_block('blk_a'), s.c.get_update_block('blk_b')
    s.add_constraints( U(a) < U(b) if order == 'ab' else U(b) < U(a) )       # the wrapper orders two blocks of the child it instantiates
class ITop(Component):
  def construct(s, order):
    s.in_ = InPort(8); s.m = IMid(order); s.m.in_ //= s.in_
"""


def run_inner_constraint_probe(sh):
  """an ANCESTOR orders two blocks that both live in the child it wraps; the child is replaced (by class, by object, twice): the
  explicit constraints of the design - by host and block name - are those of a design built from scratch, no block of the removed
  component is left in them, and the order is honoured in simulation"""
  from pymtl3 import DefaultPassGroup
  from vlib import specgen as G
  mod = G.load_source(INNERC_SRC, "c15innerc")
  def cons(top):
    out = set()
    for (x, y) in top.get_all_explicit_constraints()[0]:
      try: out.add(((repr(top.get_update_block_host_component(x)), x.__name__), (repr(top.get_update_block_host_component(y)), y.__name__)))
      except Exception as e: out.add(("stale block object", getattr(x, "__name__", "?"), getattr(y, "__name__", "?"), type(e).__name__))
    return out
  try:
    for order in ("ab", "ba"):
      ref = mod.ITop(order); ref.elaborate(); want = cons(ref)
      for hist in (["class"], ["obj"], ["class", "obj"]):
        top = mod.ITop(order); top.elaborate()
        for how in hist:
          if how == "class": top.replace_component(top.m.c, mod.ICh2)
          else: top.replace_component_with_obj(top.m.c, mod.ICh2())
        sh.count("ancestor_constraints_between_two_child_blocks_checked")
        got = cons(top)
        if got != want:
          sh.violation("explicit-constraints-differ-from-a-design-built-from-scratch", {"history": hist, "declared": "U(c.blk_a) < U(c.blk_b)" if order == "ab" else "U(c.blk_b) < U(c.blk_a)",
                       "only_after_replacement": sorted(map(str, got - want))[:4], "missing": sorted(map(str, want - got))[:4]}, case=("innerc", order, tuple(hist))); continue
        top.apply(DefaultPassGroup()); top.sim_reset(); mod.LOG.clear(); top.in_ @= 3; top.sim_eval_combinational()
        seq = [x for x in mod.LOG if x in "ab"]
        if seq[:2] != list(order):
          sh.violation("explicit-constraint-on-child-not-honoured-after-replacement", {"history": hist, "required": order, "executed": seq}, case=("innerc-sim", order, tuple(hist)))
  finally:
    G.unload(mod)


def run_shard(sh):
  if sh.idx == 0: run_badclass_probe(sh)
  if sh.idx == 1: run_ifc_ff_probe(sh)
  if sh.idx == 2: run_inner_constraint_probe(sh)
  for case in range(max(3, sh.params["histories"] // 3)):
    run_cl_case(sh, case)
  for case in range(max(4, sh.params["histories"] // 2)):
    run_cl2_case(sh, case)
  for case in range(sh.params["histories"]):
    if sh.only is not None and str(case) != str(sh.only).strip('"'):
      continue
    run_case(sh, case)
