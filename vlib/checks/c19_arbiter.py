"""C19 - round-robin arbiters grant exactly one requester, fairly."""

PROPERTY = "C19"
LEVEL = "exploration"
RULE = ("case = one simulated cycle of a real arbiter (reqs, en) judged against the pointer+scan reference on grants "
        "and on the priority register after the tick. Exhaustive part: every reachable priority state x every request "
        "vector x en for nreqs 2..7 (thorough 2..9), states reached by replaying from reset; random part: adversarial "
        "histories for nreqs in {7,8,13,16,32,64,100}. distinct_nontrivial = distinct (class, nreqs, pointer, reqs, en) "
        "tuples with at least one request")
ASSUMPTIONS = [
  "priority pointer is observed at priority_reg.out (one-hot); reset value = input 0",
  "fairness is judged as: a continuously requesting input is granted within nreqs cycles in which the pointer advances",
]
EXHAUSTIVE_NOTE = "exhaustive sub-space: all (priority state, reqs, en) for nreqs 2..7 (quick) / 2..9 (thorough), both arbiter classes, Default and Mamba2020 pass groups"


def plan(tier, seed):
  q = tier == "quick"
  p = []
  for cls in ("RoundRobinArbiter", "RoundRobinArbiterEn"):
    for n in range(2, 8 if q else 10):
      p.append({"kind": "exh", "cls": cls, "nreqs": n, "hashseed": (seed + n) % 97})
  for i, n in enumerate([7, 8, 13, 16, 32, 64, 100] if q else [7, 8, 13, 16, 31, 32, 33, 64, 65, 100, 128]):
    for cls in ("RoundRobinArbiter", "RoundRobinArbiterEn"):
      p.append({"kind": "rand", "cls": cls, "nreqs": n, "cycles": 1500 if q else 30000, "hashseed": (seed * 3 + i) % 97})
  for n in (2, 3, 4, 5):
    for cls in ("RoundRobinArbiter", "RoundRobinArbiterEn"):
      p.append({"kind": "rand", "cls": cls, "nreqs": n, "cycles": 600 if q else 8000, "hashseed": (seed * 5 + n) % 97, "embedded": True})
  for n in (2, 3, 4, 6):
    for cls in ("RoundRobinArbiter", "RoundRobinArbiterEn"):
      for taps in ("last", "all", "some"):
        # the parent taps single grant bits with whole 1-bit ports (s.val[i] //= s.arb.grants[i], the usual switch-allocator wiring)
        p.append({"kind": "rand", "cls": cls, "nreqs": n, "cycles": 400 if q else 5000, "hashseed": (seed * 11 + n) % 97, "embedded": True, "taps": taps})
  for N in (5, 6, 8, 11):
    for cls in ("RoundRobinArbiter", "RoundRobinArbiterEn"):
      p.append({"kind": "gated", "cls": cls, "nreqs": 3 + N % 3, "gated": N, "cycles": 150 if q else 1500, "hashseed": (seed * 7 + N) % 97})
  return p


def thresholds(tier):
  t = {"exhaustive_sets_complete": 12, "cycles_judged": 30000, "random_cycles": 10000, "fairness_windows": 2000,
       "resets_checked": 50, "hold_cycles_checked": 1000, "embedded_arbiters": 8, "twin_arbiter_comparisons": 500, "gated_designs": 8, "gated_arbiter_comparisons": 5000, "parent_register_checks": 5000, "tapped_grant_bits_checked": 5000}
  if tier == "thorough":
    t.update({"exhaustive_sets_complete": 16, "cycles_judged": 400000, "random_cycles": 300000})
  return t


def exhaustive(tier, counters):
  return counters.get("exhaustive_sets_complete", 0) >= (12 if tier == "quick" else 16)


# --- reference ------------------------------------------------------------

def ref_grant(n, ptr, reqs):
  """ptr: index with priority; returns granted index or None"""
  for k in range(n):
    i = (ptr + k) % n
    if (reqs >> i) & 1:
      return i
  return None


def ref_step(n, ptr, reqs, en, has_en):
  g = ref_grant(n, ptr, reqs)
  grants = 0 if g is None else (1 << g)
  adv = g is not None and (en or not has_en)
  return grants, ((g + 1) % n if adv else ptr), adv


# --- driving the real thing -----------------------------------------------

def emb_source(clsname, n, has_en, twin=False, nstat=0, taps=()):
  """the arbiter inside a parent whose ONE update block drives the request bits one by one AND reads the grant bits: a cycle
  at block granularity (parent block -> arbiter blocks -> parent block) without any combinational loop at signal level"""
  L = ["from pymtl3 import *", f"from pymtl3.stdlib.basic_rtl.arbiters import {clsname}", "class Emb(Component):", "  def construct(s):",
       f"    s.reqs = InPort({n}); s.en = InPort(); s.grants = OutPort({n})", f"    s.arb = {clsname}({n})",
       "    @update", "    def up_switch():"]
  for i in range(n): L.append(f"      s.arb.reqs[{i}] @= s.reqs[{i}]")
  for i in range(n): L.append(f"      s.grants[{i}] @= s.arb.grants[{i}]")
  if has_en: L.append("      s.arb.en @= s.en")
  if twin:
    # a second arbiter of the same class and size in the same parent, fed with the very same inputs
    L.insert(6, f"    s.arb2 = {clsname}({n}); s.grants2 = OutPort({n})")
    L += ["    @update", "    def up_switch2():"]
    for i in range(n): L.append(f"      s.arb2.reqs[{i}] @= s.reqs[{i}]")
    for i in range(n): L.append(f"      s.grants2[{i}] @= s.arb2.grants[{i}]")
    if has_en: L.append("      s.arb2.en @= s.en")
  if taps:
    L.insert(6, f"    s.val = [OutPort() for _ in range({n})]")
    for i in taps: L.insert(7, f"    s.val[{i}] //= s.arb.grants[{i}]")
  for j in range(nstat):
    # the parent keeps registers of its own beside the arbiter (grant statistics), each written by its own update_ff block
    if j == 0: L.insert(6, f"    s.cnt = [Wire(8) for _ in range({nstat})]")
    L += ["    @update_ff", f"    def ff_cnt{j}():", f"      if s.reset: s.cnt[{j}] <<= 0",
          f"      else: s.cnt[{j}] <<= s.cnt[{j}] + zext(s.arb.grants[{j % n}], 8)"]
  return "\n".join(L) + "\n"


def mk(clsname, n, pg, embedded=False, twin=False, nstat=0, taps=()):
  from pymtl3 import DefaultPassGroup
  from pymtl3.passes.mamba.PassGroups import Mamba2020
  from pymtl3.stdlib.basic_rtl import arbiters
  if embedded:
    from vlib import specgen as G
    a = G.load_source(emb_source(clsname, n, clsname.endswith("En"), twin, nstat, taps), "c19emb").Emb()
    a._taps = tuple(taps)
  else:
    a = getattr(arbiters, clsname)(n)
  a.elaborate()
  if pg in ("default", "mamba"): a.apply(DefaultPassGroup() if pg == "default" else Mamba2020(print_line_trace=False))
  else:
    from pymtl3.passes.mamba.PassGroups import UnrollSim, HeuTopoUnrollSim
    from pymtl3.passes.PassGroups import SimpleSimPass
    a.apply({"unroll": UnrollSim, "heutopo": HeuTopoUnrollSim}[pg](print_line_trace=False) if pg != "simple" else SimpleSimPass())
  a.sim_reset()
  return a


def cycle(sh, a, n, has_en, ptr, reqs, en, tag, tick_only=False):
  """apply inputs, observe, judge, tick; returns new reference pointer.  tick_only: the inputs change right before sim_tick()
  with no separate evaluation in between (the way most test benches drive a design); judged after the edge"""
  a.reqs @= reqs
  if has_en:
    a.en @= en
  if tick_only:
    eg, nptr, adv = ref_step(n, ptr, reqs, en, has_en)
    a.sim_tick()
    sh.count("cycles_judged"); sh.count("tick_only_cycles_judged"); sh.count("evaluations")
    w = {"cls": tag, "nreqs": n, "ptr": ptr, "reqs": bin(reqs), "en": en, "driving": "inputs set, then sim_tick() only"}
    after = int(getattr(a, 'arb', a).priority_reg.out)
    if after != (1 << nptr):
      sh.violation("pointer-after-tick-wrong", dict(w, got=bin(after), expected=bin(1 << nptr), advance_expected=adv))
    g2 = int(a.grants); eg2 = ref_step(n, nptr, reqs, en, has_en)[0]
    if g2 != eg2:
      sh.violation("grant-not-first-at-or-after-pointer", dict(w, grants=bin(g2), expected=bin(eg2), when="after the edge, same inputs"))
    sh.last = (eg, adv)
    if reqs: sh.fp(tag, n, ptr, reqs, en, "t")
    return nptr
  a.sim_eval_combinational()
  grants = int(a.grants)
  preg = int(getattr(a, 'arb', a).priority_reg.out)
  eg, nptr, adv = ref_step(n, ptr, reqs, en, has_en)
  sh.count("cycles_judged"); sh.count("evaluations")
  w = {"cls": tag, "nreqs": n, "ptr": ptr, "reqs": bin(reqs), "en": en}
  if preg != (1 << ptr):
    sh.violation("priority-register-differs-before-cycle", dict(w, got=bin(preg)))
  if grants & (grants - 1):
    sh.violation("grants-not-onehot0", dict(w, grants=bin(grants)))
  if grants & ~reqs:
    sh.violation("grant-to-non-requester", dict(w, grants=bin(grants)))
  if (grants != 0) != (reqs != 0):
    sh.violation("grant-iff-request-broken", dict(w, grants=bin(grants)))
  if grants != eg:
    sh.violation("grant-not-first-at-or-after-pointer", dict(w, grants=bin(grants), expected=bin(eg)))
  for i in getattr(a, "_taps", ()):
    sh.count("tapped_grant_bits_checked")
    if int(a.val[i]) != (grants >> i) & 1:
      sh.violation("tapped-grant-bit-differs-from-grants", dict(w, grants=bin(grants), bit=i, tap=int(a.val[i])))
  if hasattr(a, "grants2"):
    sh.count("twin_arbiter_comparisons")
    if int(a.grants2) != grants or int(a.arb2.priority_reg.out) != preg:
      sh.violation("twin-arbiter-with-identical-inputs-behaves-differently", dict(w, grants=bin(grants), twin_grants=bin(int(a.grants2)),
                   priority=bin(preg), twin_priority=bin(int(a.arb2.priority_reg.out))))
  a.sim_tick()
  after = int(getattr(a, 'arb', a).priority_reg.out)
  if after != (1 << nptr):
    sh.violation("pointer-after-tick-wrong", dict(w, got=bin(after), expected=bin(1 << nptr), advance_expected=adv))
  sh.last = (grants, after != preg)
  if not adv:
    sh.count("hold_cycles_checked")
  if reqs:
    sh.fp(tag, n, ptr, reqs, en)
  return nptr


def goto(sh, a, n, has_en, target, tag):
  """from reset reach pointer == target by granting target-1"""
  a.sim_reset()
  sh.count("resets_checked")
  if int(getattr(a, 'arb', a).priority_reg.out) != 1:
    sh.violation("reset-does-not-restore-priority-0", {"cls": tag, "nreqs": n, "got": bin(int(getattr(a, 'arb', a).priority_reg.out))})
  if target == 0:
    return 0
  return cycle(sh, a, n, has_en, 0, 1 << (target - 1), 1, tag)


def run_exh(sh):
  n, clsname = sh.params["nreqs"], sh.params["cls"]
  has_en = clsname.endswith("En")
  for pg in ("default", "mamba"):
    a = mk(clsname, n, pg)
    tag = f"{clsname}/{pg}"
    for ptr in range(n):
      for reqs in range(1 << n):
        for en in ((0, 1) if has_en else (1,)):
          p = goto(sh, a, n, has_en, ptr, tag)
          if p != ptr:
            sh.inconclusive("could-not-reach-state")
            continue
          cycle(sh, a, n, has_en, ptr, reqs, en, tag)
          sh.count("exhaustive_cases")
  sh.count("exhaustive_sets_complete")
  sh.sample({"stream": "exhaustive", "cls": clsname, "nreqs": n, "states": n, "inputs_per_state": (1 << n) * (2 if has_en else 1)})


def run_rand(sh):
  n, clsname = sh.params["nreqs"], sh.params["cls"]
  has_en = clsname.endswith("En")
  rng = sh.rng("rand", clsname, n)
  emb = bool(sh.params.get("embedded"))
  nstat = (n % 4 if n % 4 else 4) if emb else 0          # n = 2, 3, 4, 5 -> 2, 3, 4, 1 registers of the parent's own
  tk = sh.params.get("taps")
  taps = () if not tk else (n - 1,) if tk == "last" else tuple(range(n)) if tk == "all" else tuple(sorted(rng.sample(range(n), rng.randrange(1, n))))
  # ( the embedded designs are cyclic at block granularity: only the pass groups that schedule cyclic groups build them )
  pg = rng.choice(["default", "mamba"]) if emb else ["default", "mamba", "unroll", "heutopo", "simple"][sh.idx % 5]          # every pass group in every run
  sh.count("random_stream_pass_group:" + pg)
  a = mk(clsname, n, pg, embedded=emb, twin=emb and n % 2 == 1, nstat=nstat, taps=taps)
  exp_cnt = [0] * nstat
  tag = clsname + ("(embedded)" if emb else "")
  if emb: sh.count("embedded_arbiters")
  ptr = 0
  wait = [0] * n     # advancing-grant cycles an input has been waiting while continuously requesting
  mode, left = "uniform", 0
  persistent = 0
  hist = []
  tick_only = False
  full = (1 << n) - 1
  for c in range(sh.params["cycles"]):
    if left == 0:
      mode = rng.choice(["uniform", "all", "persistent", "behind", "sparse", "none", "reset"])
      left = rng.randrange(1, 3 * n + 4)
      tick_only = rng.random() < 0.4
      persistent = rng.randrange(n)
    left -= 1
    if mode == "reset":
      a.sim_reset(); ptr = 0; wait = [0] * n; left = 0; exp_cnt = [0] * nstat
      sh.count("resets_checked")
      if int(getattr(a, 'arb', a).priority_reg.out) != 1:
        sh.violation("reset-does-not-restore-priority-0", {"cls": tag, "nreqs": n, "got": bin(int(getattr(a, 'arb', a).priority_reg.out)), "after_cycles": c})
      continue
    if mode == "uniform": reqs = rng.getrandbits(n)
    elif mode == "all": reqs = full
    elif mode == "persistent": reqs = (1 << persistent) | (1 << ((ptr + rng.randrange(n)) % n)) | rng.getrandbits(n)
    elif mode == "behind": reqs = ((1 << ptr) - 1) & rng.getrandbits(n)   # only inputs behind the pointer
    elif mode == "sparse": reqs = 1 << rng.randrange(n) if rng.random() < 0.7 else 0
    else: reqs = 0
    en = rng.getrandbits(1) if has_en and rng.random() < 0.7 else 1
    eg, _, adv = ref_step(n, ptr, reqs, en, has_en)
    ptr = cycle(sh, a, n, has_en, ptr, reqs, en, tag, tick_only=tick_only)
    sh.count("random_cycles")
    for j in range(nstat):
      exp_cnt[j] = (exp_cnt[j] + ((eg >> (j % n)) & 1)) & 255
      sh.count("parent_register_checks")
      if int(a.cnt[j]) != exp_cnt[j]:
        sh.violation("register-of-the-arbiters-parent-differs-from-grant-count", {"cls": tag, "nreqs": n, "register": f"cnt[{j}]", "got": int(a.cnt[j]),
                     "expected": exp_cnt[j], "cycle": c, "parent_registers": nstat}); exp_cnt[j] = int(a.cnt[j])
    # bounded-wait fairness from the *observed* grants
    g, adv = sh.last    # observed grants / observed pointer movement
    for i in range(n):
      if (reqs >> i) & 1:
        if g == (1 << i):
          if wait[i]: sh.count("fairness_windows")
          wait[i] = 0
        elif adv:
          wait[i] += 1
          if wait[i] >= n:
            sh.violation("continuously-requesting-input-starved", {"cls": tag, "nreqs": n, "input": i, "waited_advancing_grants": wait[i]})
      else:
        wait[i] = 0
    if c < 6:
      hist.append((bin(reqs), en, bin(eg)))
  sh.sample({"stream": "random", "cls": clsname, "nreqs": n, "first_cycles(reqs,en,grants)": hist})


def run_gated(sh):
  """N arbiters in one design, each behind its own branchy gate block ( if en: reqs @= r else: reqs @= 0 ): many branchy blocks are
  ready at once (the shape Mamba2020 packs into meta blocks); every arbiter is compared with the reference every cycle"""
  from pymtl3 import DefaultPassGroup
  from pymtl3.passes.mamba.PassGroups import Mamba2020
  from vlib import specgen as G
  N, n, clsname = sh.params["gated"], sh.params["nreqs"], sh.params["cls"]
  has_en = clsname.endswith("En")
  rng = sh.rng("gated", clsname, N, n)
  L = ["from pymtl3 import *", f"from pymtl3.stdlib.basic_rtl.arbiters import {clsname}", "class Gated(Component):", "  def construct(s):",
       f"    s.r = [InPort({n}) for _ in range({N})]; s.gate = [InPort(1) for _ in range({N})]; s.en = InPort(1)",
       f"    s.g = [OutPort({n}) for _ in range({N})]", f"    s.arbs = [{clsname}({n}) for _ in range({N})]"]
  for i in range(N):
    L += ["    @update", f"    def gate_{i}():", f"      if s.gate[{i}]: s.arbs[{i}].reqs @= s.r[{i}]", f"      else: s.arbs[{i}].reqs @= 0"]
    if has_en: L += [f"      s.arbs[{i}].en @= s.en"]
    L += [f"    s.g[{i}] //= s.arbs[{i}].grants"]
  src = "\n".join(L) + "\n"
  mod = G.load_source(src, "c19g")
  try:
    for pg in ("mamba", "default"):
      top = mod.Gated(); top.elaborate()
      top.apply(Mamba2020(print_line_trace=False) if pg == "mamba" else DefaultPassGroup()); top.sim_reset()
      ptr = [0] * N
      for cyc in range(sh.params["cycles"]):
        reqs = [rng.getrandbits(n) if rng.random() < 0.8 else 0 for _ in range(N)]
        gate = [int(rng.random() < 0.8) for _ in range(N)]
        en = rng.getrandbits(1) if has_en else 1
        for i in range(N):
          top.r[i] @= reqs[i]; top.gate[i] @= gate[i]
        top.en @= en
        top.sim_eval_combinational()
        for i in range(N):
          eff = reqs[i] if gate[i] else 0
          eg, nptr, adv = ref_step(n, ptr[i], eff, en, has_en)
          sh.count("cycles_judged"); sh.count("gated_arbiter_comparisons"); sh.count("evaluations")
          if int(top.g[i]) != eg:
            sh.violation("grant-not-first-at-or-after-pointer", {"cls": clsname + "(gated)", "arbiters": N, "arbiter": i, "nreqs": n, "pass_group": pg, "cycle": cyc,
                         "reqs": bin(eff), "grants": bin(int(top.g[i])), "expected": bin(eg), "ptr": ptr[i]}); return
          ptr[i] = nptr
        top.sim_tick()
      sh.fp("gated", clsname, N, n, pg)
    sh.count("gated_designs")
  finally:
    G.unload(mod)


def run_shard(sh):
  {"exh": run_exh, "rand": run_rand, "gated": run_gated}[sh.params["kind"]](sh)
