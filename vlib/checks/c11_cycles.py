"""C11 - combinational cycles settle on a fixed point or are reported."""
import traceback
from collections import Counter

from vlib import specgen as G, schedcheck, simmon as M

PROPERTY = "C11"
LEVEL = "exploration"
RULE = ("case = (a) one generated FALSE-LOOP design (block graph cyclic because statements of different dataflow levels share a "
        "block - through disjoint slices / struct fields / list elements / different signals -, bit-level dataflow acyclic) run "
        "under the cyclic-capable schedulers (DynamicSchedulePass, Mamba2020): values must equal the reference fixed point and "
        "re-running every block must change nothing; or (b) one instantiated TRUE-LOOP template: convergent (monotone) loops "
        "must return a fixed point, divergent ones (also ones that diverge only for some inputs / whose only changing signal is "
        "not the first constraint variable / rings of >= 10 blocks / update_once in the cycle) must raise UpblkCyclicError; the "
        "invocation tracer counts SCC iterations (<= 101 per evaluation). distinct_nontrivial = distinct false-loop designs whose "
        "SCC really iterated >= 2 times + distinct template instantiations")
ASSUMPTIONS = [
  "'never hangs' is judged on the logical iteration count observed by the tracer (pymtl3's own bound of 100), wall clock only yields inconclusive",
  "for convergent true loops only the fixed-point clause is asserted (several fixed points may exist)",
]
CYC_MODES = ["default", "mamba"]


def plan(tier, seed):
  q = tier == "quick"
  return [{"hashseed": (seed * 43 + i) % 1033, "heap_pad": (i * 131) % 2000, "designs": 40 if q else 300, "templates": 30 if q else 200}
          for i in range(16)]


def thresholds(tier):
  t = {"falseloop_designs": 100, "scc_evaluations_iterated_2plus": 100, "expected_cyclic_errors_seen": 20, "rerun_invocations": 5000,
       "value_comparisons": 30000, "convergent_returns_checked": 50}
  if tier == "thorough":
    t = {k: v * 15 for k, v in t.items()}
  return t


def knobs_for(rng):
  return {"depth": rng.choice([0, 0, 1, 1, 2]), "max_children": 2, "p_ff": rng.choice([0.1, 0.3]), "p_split": rng.choice([0.5, 0.8]),
          "p_struct": 0.35, "p_list": 0.25, "max_sigs": rng.choice([4, 6, 8]), "expr_depth": 2, "falseloop": 1.0, "p_connect": 0.25, "p_nested_field": rng.choice([0, 0.3]), "p_list_field": rng.choice([0, 0.3]), "p_func": rng.choice([0, 0.3])}


# ---------------------------------------------------------------------------
# (a) false loops from specgen
# ---------------------------------------------------------------------------

def run_falseloop(sh, case):
  rng = sh.rng("fl", case)
  d = G.generate(rng, knobs_for(rng))
  ref = G.Ref(d)
  if G.block_graph_acyclic(ref):
    sh.count("generated_acyclic(skipped)"); return
  src = G.emit(d)
  seq = M.gen_inputs(rng, d, rng.randrange(4, 9))
  reftrace, ref = M.reference_trace(d, seq)
  if reftrace is None:
    sh.inconclusive("reference-did-not-settle"); return
  widths = {p: w for p, w in G.top_inputs(d)}
  paths = sorted(ref.sig)
  mod = G.load_source(src, "c11")
  iterated = False
  try:
    for mode in CYC_MODES:
      top = getattr(mod, d["top"])()
      try:
        M.apply_mode(top, mode, rng)
      except Exception as e:
        sh.violation("cyclic-capable-scheduler-raised-on-false-loop-at-schedule-time", {"mode": mode, "error": traceback.format_exc()[-500:],
                                                                                      "design_source": src}, case=case)
        continue
      live = M.Live(top)
      tr = M.Tracer(top, limit=250)
      try:
        for cyc, inp in enumerate(seq):
          M.set_inputs(top, live, inp, widths, int(cyc < 2))
          tr.take()
          for phase in ("eval", "tick"):
            try:
              (top.sim_eval_combinational if phase == "eval" else top.sim_tick)()
            except Exception as e:
              if type(e).__name__ == "BoundExceeded":
                sh.violation("scc-executed-more-than-the-iteration-bound(would hang)", {"mode": mode, "cycle": cyc, "error": str(e),
                                                                                     "design_source": src}, case=case)
                raise StopIteration
              if type(e).__name__ == "UpblkCyclicError":
                # allowed only if the bound was really exhausted
                cnt = Counter(tr.take())
                mx = max(cnt.values()) if cnt else 0
                sh.count("falseloop_bound_exhausted" if mx >= 100 else "falseloop_cyclic_error_early")
                if mx < 100:
                  sh.violation("cyclic-error-raised-before-the-iteration-bound-on-a-false-loop", {"mode": mode, "cycle": cyc,
                               "max_block_invocations": mx, "design_source": src}, case=case)
                raise StopIteration
              sh.violation("evaluation-raised-on-false-loop", {"mode": mode, "cycle": cyc, "error": traceback.format_exc()[-500:],
                                                               "design_source": src}, case=case)
              raise StopIteration
            cnt = Counter(e for e in tr.take() if e[2] == "comb")
            mx = max(cnt.values()) if cnt else 0
            per_pass = 1 if phase == "eval" else 2
            if mx > per_pass:
              sh.count("scc_evaluations_iterated_2plus"); iterated = True
            if mx > 101 * per_pass * max(1, len(cnt)):
              sh.violation("scc-executed-more-than-the-iteration-bound-allows", {"mode": mode, "count": mx, "design_source": src}, case=case)
            snap = live.snapshot(paths)
            exp = reftrace[cyc][0 if phase == "eval" else 1]
            sh.count("value_comparisons", len(paths))
            diff = [(p, hex(snap[p]), hex(exp[p])) for p in paths if snap[p] != exp[p]]
            if diff:
              sh.violation("false-loop-result-differs-from-acyclic-reference", {"mode": mode, "cycle": cyc, "phase": phase,
                           "diff": diff[:5], "design_source": src}, case=case)
              raise StopIteration
            # fixed point: re-run every comb block (incl. SCC wrappers' members) one by one
            for blk in list(top._dag.final_upblks - top.get_all_update_ff()):
              blk(); sh.count("rerun_invocations")
            tr.take()
            snap2 = live.snapshot(paths)
            if snap2 != snap:
              d2 = [(p, hex(snap[p]), hex(snap2[p])) for p in paths if snap[p] != snap2[p]]
              sh.violation("returned-state-is-not-a-fixed-point", {"mode": mode, "cycle": cyc, "phase": phase, "diff": d2[:5],
                                                                   "design_source": src}, case=case)
              raise StopIteration
      except StopIteration:
        pass
      finally:
        tr.close()
  finally:
    G.unload(mod)
  sh.count("falseloop_designs"); sh.count("evaluations")
  if iterated:
    sh.fp(src)
  if case < 1:
    sh.sample({"kind": "false-loop", "design_source_head": src[:1200], "scc_iterated": iterated})


# ---------------------------------------------------------------------------
# (b) true-loop templates
# ---------------------------------------------------------------------------
HDR = "from pymtl3 import *\n@bitstruct\nclass P:\n  a: mk_bits({w})\n  b: mk_bits({w})\n"


FL_HDR = """class Chan(Component):
  @blocking
  def get(s):
    return 0
  def construct(s):
    pass
"""


def templates(rng):
  """-> (name, source, expectation) ; expectation: list of (input, 'return'|'raise')"""
  w = rng.choice([1, 2, 4, 8, 16, 33, 64])
  n = rng.randrange(3, 14)
  t = rng.randrange(16)
  H = HDR.format(w=w) + FL_HDR
  if t == 0:   # monotone, convergent
    body = f"""    s.a = InPort({w}); s.b = InPort({w}); s.x = Wire({w}); s.y = Wire({w})
    @update
    def up1(): s.x @= s.y | s.a
    @update
    def up2(): s.y @= s.x & s.b"""
    exp = [({"a": rng.getrandbits(w), "b": rng.getrandbits(w)}, "return") for _ in range(4)]
    return "monotone-or-and", H, body, exp
  if t == 1:   # inverter loop: always divergent
    body = f"""    s.a = InPort({w}); s.x = Wire({w}); s.y = Wire({w})
    @update
    def up1(): s.x @= ~s.y
    @update
    def up2(): s.y @= s.x ^ s.a"""
    # x = ~(x ^ a): stable iff a == all-ones per bit -> diverges unless a == mask
    m = (1 << w) - 1
    return "inverter", H, body, [({"a": m}, "return"), ({"a": rng.getrandbits(w) & (m - 1)}, "raise")]
  if t == 2:   # counter loop: diverges only for a != 0
    body = f"""    s.a = InPort({w}); s.x = Wire({w}); s.y = Wire({w})
    @update
    def up1(): s.x @= s.y + s.a
    @update
    def up2(): s.y @= s.x"""
    return "counter-input-dependent", H, body, [({"a": 0}, "return"), ({"a": 0}, "return"), ({"a": 1 if w > 7 else 1}, "raise" if w > 7 else "any")]
  if t == 3:   # through struct fields
    body = f"""    s.a = InPort({w}); s.st = Wire(P)
    @update
    def up1(): s.st.a @= s.st.b + s.a
    @update
    def up2(): s.st.b @= s.st.a"""
    return "struct-field-counter", H, body, [({"a": 0}, "return"), ({"a": 1}, "raise" if w > 7 else "any")]
  if t == 4:   # through disjoint slices of one signal
    body = f"""    s.a = InPort({w}); s.x = Wire({2 * w})
    @update
    def up1(): s.x[0:{w}] @= s.x[{w}:{2 * w}] + s.a
    @update
    def up2(): s.x[{w}:{2 * w}] @= s.x[0:{w}]"""
    return "slice-counter", H, body, [({"a": 0}, "return"), ({"a": 1}, "raise" if w > 7 else "any")]
  if t == 5:   # ring of n blocks; the first constraint variable saturates, a later one keeps changing
    lines = [f"    s.a = InPort({w}); s.f = Wire(1)"] + [f"    s.v{i} = Wire({w})" for i in range(n)]
    lines += ["    @update", "    def up_f(): s.f @= reduce_or(s.v0) | 1"]
    lines += ["    @update", f"    def up0(): s.v0 @= s.v{n - 1} + s.a + zext(s.f, {w})" if w > 1 else f"    def up0(): s.v0 @= s.v{n - 1} + s.a + s.f"]
    for i in range(1, n):
      lines += ["    @update", f"    def up{i}(): s.v{i} @= s.v{i - 1}"]
    # v0 = v0 + a + 1: stable iff a + 1 == 0 (mod 2^w)
    m = (1 << w) - 1
    return f"ring-{n}-saturating-flag", H, "\n".join(lines), [({"a": m}, "return"), ({"a": 0}, "raise" if w > 7 else "any")]
  if t == 6:   # list elements
    body = f"""    s.a = InPort({w}); s.arr = [Wire({w}) for _ in range(3)]
    @update
    def up1(): s.arr[0] @= s.arr[2] + s.a
    @update
    def up2(): s.arr[1] @= s.arr[0]
    @update
    def up3(): s.arr[2] @= s.arr[1]"""
    return "list-element-ring", H, body, [({"a": 0}, "return"), ({"a": 1}, "raise" if w > 7 else "any")]
  if t == 7:   # update_once inside the cycle -> rejected
    body = f"""    s.a = InPort({w}); s.x = Wire({w}); s.y = Wire({w})
    @update_once
    def up1(): s.x @= s.y | s.a
    @update
    def up2(): s.y @= s.x"""
    if rng.random() < 0.6:
      # ... and the cycle runs through a CONNECTION (a generated net-propagation block is part of the cyclic group)
      conn = "s.y //= s.z" if w < 2 or rng.random() < 0.4 else f"s.y[0:{w - 1}] //= s.z[0:{w - 1}]; s.y[{w - 1}:{w}] //= s.z[{w - 1}:{w}]"
      body = f"""    s.a = InPort({w}); s.x = Wire({w}); s.y = Wire({w}); s.z = Wire({w})
    @update_once
    def up1(): s.x @= s.y | s.a
    @update
    def up2(): s.z @= s.x
    {conn}"""
      return "update-once-in-cycle-through-connection", H, body, "reject"
    return "update-once-in-cycle", H, body, "reject"
  if t == 9:   # update_once that calls a @blocking method (wrapped into a greenlet before scheduling) inside the cycle -> rejected
    k = rng.randrange(1, 5)          # ring of k+1 blocks: with k >= 2 some edge of the cycle lies between two unwrapped blocks
    lines = [f"    s.a = InPort({w}); s.ch = Chan()"] + [f"    s.v{i} = Wire({w})" for i in range(k + 1)]
    if rng.random() < 0.5: lines.append("    s.g = CallerIfcFL(); s.g //= s.ch.get")
    call = "s.g()" if "s.g = " in lines[-1] else "s.ch.get()"
    lines += ["    @update_once", f"    def up0(): s.v0 @= s.v{k} | s.a | {call}"]
    nwrapped = 1
    for i in range(1, k + 1):
      # ... several (neighbouring) blocks of the ring may be wrapped: an edge of the cycle then lies between two greenlets
      if rng.random() < 0.5: lines += ["    @update_once", f"    def up{i}(): s.v{i} @= s.v{i - 1} | {call}"]; nwrapped += 1
      else: lines += ["    @update", f"    def up{i}(): s.v{i} @= s.v{i - 1}"]
    return "greenlet-update-once-in-cycle" + ("-several-wrapped" if nwrapped > 1 else ""), H, "\n".join(lines), "reject"
  if t == 10:  # the cycle is carried by two fields of one struct whose names are prefixes of each other (v / v2, a / ab ...); an upstream
    # block makes the loop start at the block that writes the first field, so that one iteration changes the second field only
    f1, f2 = rng.choice([("v", "v2"), ("a", "ab"), ("x", "x_"), ("d", "d0")])
    if rng.random() < 0.5: f1, f2 = f2, f1
    Hq = f"from pymtl3 import *\n@bitstruct\nclass Q:\n  {f1}: mk_bits({w})\n  {f2}: mk_bits({w})\n"
    body = f"""    s.a = InPort({w}); s.k = InPort({w}); s.pre = Wire({w}); s.st = Wire(Q)
    @update
    def up_pre(): s.pre @= s.a
    @update
    def up_half(): s.st.{f1} @= (s.st.{f2} >> 1) + s.pre
    @update
    def up_or(): s.st.{f2} @= s.st.{f1} | s.k"""
    m = (1 << w) - 1
    exp = [({"a": rng.choice([0, 1, 2]) & m, "k": rng.choice([0, 1, 4 & m, rng.getrandbits(w)])}, "any") for _ in range(4)]
    return "struct-fields-with-prefix-names", Hq + FL_HDR, body, exp
  if t == 11:  # one edge of the cycle carries TWO signals of different kinds (x whole / y written as slice, read whole); the loop needs
    # a further sweep in which only y changed; an upstream block makes the cycle start at the reader
    body = f"""    s.a = InPort({w}); s.b = InPort({w}); s.pre = Wire({w}); s.x = Wire({w}); s.y = Wire({2 * w}); s.t = Wire({w}); s.z = Wire({w})
    @update
    def up_pre(): s.pre @= s.b
    @update
    def up1():
      s.x @= s.b
      s.y[0:{w}] @= s.z | s.a
    @update
    def up2(): s.t @= (trunc(s.y, {w}) ^ (s.x ^ s.x)) | (s.pre & 0)
    @update
    def up3(): s.z @= s.t"""
    return "edge-with-two-signals-of-different-kinds", H, body, [({"a": 1, "b": 0}, "return"), ({"a": rng.getrandbits(w) | 1, "b": 0}, "return"),
                                                               ({"a": (1 << w) - 1, "b": 0}, "return"), ({"a": 0, "b": 1}, "return")]
  if t == 12:  # a false loop through the two elements of a LIST field; two blocks copy the struct WHOLE; all blocks hang below one
    # predecessor, so they are evaluated in name order a, b, c - against the data flow c -> b -> a: several sweeps are needed
    # and in one of them only the whole-struct copies change
    k = rng.randrange(2, 4)
    Hv = f"from pymtl3 import *\n@bitstruct\nclass Vec:\n  v: [mk_bits({w})] * {k}\n"
    body = f"""    s.a = InPort({w}); s.o = OutPort({w}); s.pre = Wire({w}); s.S = Wire(Vec); s.T = Wire(Vec); s.U = Wire(Vec); s.da = Wire({w}); s.db = Wire({w})
    @update
    def up_in(): s.pre @= s.a
    @update
    def blk_a():
      s.S @= s.T
      s.da @= s.pre
    @update
    def blk_b():
      s.T @= s.U
      s.db @= s.pre
    @update
    def blk_c():
      s.U.v[0] @= s.pre
""" + "\n".join(f"      s.U.v[{i}] @= s.S.v[{i - 1}] + 1" for i in range(1, k)) + f"""
    @update
    def up_out(): s.o @= s.S.v[{k - 1}]"""
    return "false-loop-through-list-field-with-whole-struct-copies", Hv + FL_HDR, body, [({"a": rng.getrandbits(w)}, "return") for _ in range(4)]
  if t == 13:  # two cyclic groups in a row: a convergent one (u <-> v) whose BOTH blocks feed BOTH blocks of a gated inverter ring; the
    # ring is stable for en = 0 and has no stable assignment for en = 1 (period-2 oscillation): must be reported, whatever
    # the order in which the second group is entered from the first
    n1, n2, n3, n4 = rng.sample(["hs_u", "hs_v", "osc_a", "osc_b", "a_u", "b_v", "z_a", "m_b"], 4)
    body = f"""    s.a = InPort(1); s.u = Wire(1); s.v = Wire(1); s.x = Wire(1); s.y = Wire(1); s.o = OutPort(2)
    @update
    def {n1}(): s.u @= s.a | s.v
    @update
    def {n2}(): s.v @= s.u & s.a
    @update
    def {n3}(): s.x @= ~s.y & s.u & s.v
    @update
    def {n4}(): s.y @= s.x & s.u & s.v
    @update
    def up_out(): s.o @= concat(s.x, s.y)"""
    return "gated-inverter-ring-behind-a-convergent-loop", H, body, [({"a": 0}, "return"), ({"a": 1}, "raise")]
  if t == 14:  # a false loop through disjoint nibbles (A, B, C) with a fourth block D that an EXPLICIT constraint U(C) < U(D) pulls into
    # the cyclic group: D (and through it A) is reached inside the group only over an edge that carries no signal
    na, nb, nc, nd = rng.sample(["up_a", "up_b", "up_c", "up_d", "blk_w", "blk_x", "m_y", "z_q"], 4)
    first, second = rng.choice([(nc, nd), (nb, nd), (nc, nd)])
    body = f"""    s.a = InPort(8); s.d = Wire(8); s.x = Wire(8); s.y = Wire(8); s.o = OutPort(8)
    @update
    def {na}(): s.x[0:4] @= s.d[0:4]
    @update
    def {nb}(): s.y @= s.x
    @update
    def {nc}(): s.x[4:8] @= s.y[0:4]
    @update
    def {nd}(): s.d @= s.a + 1
    @update
    def up_out(): s.o @= s.x
    s.add_constraints( U({first}) < U({second}) )"""
    return "false-loop-with-a-block-joined-by-an-explicit-constraint", H, body, [({"a": rng.getrandbits(8)}, "return") for _ in range(3)]
  if t == 15:  # the feedback read stands under a method call on a call result ( zext( s.x[0:h], w ).uint() ) or under an attribute of
    # a subscripted call ( F-C11: those reads were dropped, the loop was scheduled as a chain )
    w2 = max(w, 2) if w <= 64 else 8
    if w2 > 32: w2 = 16
    h = rng.randrange(1, w2)
    rd = rng.choice([f"zext( s.x[0:{h}], {w2} ).uint()", f"sext( s.x[0:{h}], {w2} ).uint()", f"trunc( s.x, {h} ).uint()",
                     f"int( zext( s.x[0:{h}], {w2} ).uint() )"])
    body = f"""    s.a = InPort({w2}); s.x = Wire({w2}); s.y = Wire({w2})
    @update
    def up1(): s.x @= s.y | s.a
    @update
    def up2(): s.y @= {rd}"""
    return "feedback-read-under-a-method-call-on-a-call-result", H, body, [({"a": rng.getrandbits(w2) | 1}, "return") for _ in range(4)]
  # t == 8: saturating min chain (convergent after several iterations)
  body = f"""    s.a = InPort({w}); s.x = Wire({w}); s.y = Wire({w})
    @update
    def up1(): s.x @= s.y if s.y > s.a else s.a
    @update
    def up2(): s.y @= s.x"""
  return "max-latch", H, body, [({"a": rng.getrandbits(w)}, "return") for _ in range(4)]


def run_template(sh, case):
  rng = sh.rng("tpl", case)
  name, H, body, exp = templates(rng)
  src = H + "class Top(Component):\n  def construct(s):\n" + body + "\n"
  mod = G.load_source(src, "c11t")
  try:
    for mode in CYC_MODES:
      top = mod.Top()
      try:
        M.apply_mode(top, mode, rng)
      except Exception as e:
        if exp == "reject" and type(e).__name__ == "UpblkCyclicError":
          sh.count("expected_cyclic_errors_seen"); continue
        sh.violation("unexpected-exception-at-schedule-time", {"template": name, "mode": mode, "error": traceback.format_exc()[-400:],
                                                               "source": src}, case=case)
        continue
      if exp == "reject":
        try:
          top.sim_reset() if hasattr(top, "sim_reset") else None
          top.sim_tick()
          sh.violation("cycle-containing-update_once-was-not-rejected", {"template": name, "mode": mode, "source": src}, case=case)
        except Exception as e:
          if type(e).__name__ == "UpblkCyclicError": sh.count("expected_cyclic_errors_seen")
          elif type(e).__name__ == "NotImplementedError": pass
          else: sh.violation("cycle-containing-update_once-wrong-error", {"template": name, "mode": mode, "error": repr(e)[:200], "source": src}, case=case)
        continue
      from pymtl3 import Bits
      tr = M.Tracer(top, limit=250)
      live = M.Live(top)
      paths = sorted(repr(x) for x in top.get_all_object_filter(lambda x: x.__class__.__name__ in ("Wire", "InPort", "OutPort")
                                                               and x.is_top_level_signal()))
      try:
        for inp, want in exp:
          for k, v in inp.items():
            o = getattr(top, k); o @= Bits(o.nbits, v)
          tr.take()
          raised = None
          try:
            top.sim_eval_combinational()
          except Exception as e:
            raised = type(e).__name__
          cnt = Counter(e for e in tr.take() if e[2] == "comb")
          mx = max(cnt.values()) if cnt else 0
          # a block may stand several times in the loop body of its group (once per edge from the preceding group): the bound
          # of 100 applies to sweeps over the group, so one block runs at most 101 x (blocks of the design) times
          if mx > 101 * max(1, len(cnt)):
            sh.violation("scc-executed-more-than-the-iteration-bound-allows", {"template": name, "mode": mode, "count": mx, "blocks": len(cnt), "source": src}, case=case)
          if mx >= 2: sh.count("scc_evaluations_iterated_2plus")
          if raised == "BoundExceeded":
            sh.violation("scc-executed-more-than-the-iteration-bound(would hang)", {"template": name, "mode": mode, "inputs": inp,
                                                                                 "source": src}, case=case)
            break
          if raised is not None:
            if raised != "UpblkCyclicError":
              sh.violation("divergent-loop-raised-other-error", {"template": name, "mode": mode, "got": raised, "source": src}, case=case)
            elif want == "return":
              sh.violation("cyclic-error-on-a-loop-that-has-a-stable-assignment-from-this-state", {"template": name, "mode": mode,
                           "inputs": inp, "iterations": mx, "source": src}, case=case)
            else:
              sh.count("expected_cyclic_errors_seen")
            break     # simulator state is undefined after the error
          if want == "raise":
            # returned although no stable assignment exists for these inputs -> the returned state cannot be a fixed point
            pass
          snap = live.snapshot(paths)
          for blk in list(top._dag.final_upblks - top.get_all_update_ff()):
            blk(); sh.count("rerun_invocations")
          tr.take()
          snap2 = live.snapshot(paths)
          sh.count("convergent_returns_checked")
          if snap2 != snap:
            d2 = [(p, hex(snap[p]), hex(snap2[p])) for p in paths if snap[p] != snap2[p]]
            sh.violation("returned-state-is-not-a-fixed-point", {"template": name, "mode": mode, "inputs": inp, "diff": d2[:5],
                                                                 "iterations": mx, "source": src}, case=case)
            break
      finally:
        tr.close()
  finally:
    G.unload(mod)
  sh.count("template_cases"); sh.count("evaluations")
  sh.fp("tpl", name, src)
  if case < 1:
    sh.sample({"kind": "true-loop-template", "template": name, "source": src})


def run_shard(sh):
  for case in range(sh.params["designs"]):
    run_falseloop(sh, case)
  for case in range(sh.params["templates"]):
    run_template(sh, 10000 + case)
