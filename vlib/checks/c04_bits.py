"""C04 - Bits arithmetic is exact unsigned arithmetic modulo 2^n.

Deciding monitor: vlib.bitsmon contracts installed on the real Bits class; the
shards only *drive* operations (exhaustive small widths, boundary-biased random
up to 1023 bits, and real library simulations); every executed operation is
judged by the contract against vlib.bitsref.
"""
import copy
import operator

from vlib import bitsmon

PROPERTY = "C04"
LEVEL = "exploration"
RULE = ("cases = executed Bits operations judged by the contract wrapper (exhaustive for widths 1-4 incl. mixed "
        "widths and ints in [-2^n-2,2^n+2]; boundary-biased random for widths 1..1023; operations executed by "
        "library simulations). distinct_nontrivial = distinct (method, operand kind, outcome kind) cells observed "
        "plus distinct (op, width class, operand class) tuples of the random stream")
ASSUMPTIONS = [
  "operands outside {Bits, int, bool} (floats, strings, bitstructs) and 'int << Bits' (plain int result) are outside the statement and only counted",
  "a width-mismatched shift amount may either raise ValueError or give the left-operand-width result (property text)",
  "when both an out-of-range int and a zero divisor are present either error class is accepted",
]
EXHAUSTIVE_NOTE = "exhaustive sub-space: widths 1..5 (thorough 1..6) x all operand pairs x all operators, mixed widths 1..6 (1..7), int operands in [-2^n-2, 2^n+2]"

OPS = {
  "add": operator.add, "sub": operator.sub, "mul": operator.mul, "and": operator.and_, "or": operator.or_,
  "xor": operator.xor, "floordiv": operator.floordiv, "mod": operator.mod, "lshift": operator.lshift,
  "rshift": operator.rshift, "eq": operator.eq, "ne": operator.ne, "lt": operator.lt, "le": operator.le,
  "gt": operator.gt, "ge": operator.ge,
}
WCLASSES = [1, 2, 3, 7, 8, 9, 15, 16, 17, 31, 32, 33, 63, 64, 65, 127, 128, 129, 255, 256, 257, 384, 511, 512, 513,
            1000, 1022, 1023]


def plan(tier, seed):
  n_rand = 6 if tier == "quick" else 14
  n_ops = 150000 if tier == "quick" else 3000000
  p = [{"kind": "exh", "hashseed": seed % 1000, "maxw": 5 if tier == "quick" else 6}]
  p += [{"kind": "rand", "hashseed": (seed * 7 + i) % 1000, "ops": n_ops} for i in range(n_rand)]
  p += [{"kind": "sim", "hashseed": (seed + 1) % 1000, "cycles": 300 if tier == "quick" else 5000}]
  return p


def thresholds(tier):
  t = {"contract_evaluations": 150000, "exhaustive_cases": 200000, "cells_seen": 90, "sim_contract_evaluations": 5000, "result_mutation_probes": 10000, "hash_after_update_probes": 2000, "struct_source_assignments": 60, "struct_source_assignments_refused": 5}
  if tier == "thorough":
    t.update({"contract_evaluations": 20000000, "sim_contract_evaluations": 100000})
  return t


def exhaustive(tier, counters):
  return counters.get("exhaustive_complete", 0) >= 1


def _try(f, *a):
  try:
    return f(*a)
  except (ValueError, ZeroDivisionError, IndexError, TypeError, AssertionError, OverflowError):
    return None


def _mk(rng, n, v):
  from pymtl3.datatypes import Bits, mk_bits
  k = rng.randrange(3)
  if k == 0 or n >= 1024:
    return Bits(n, v)
  return mk_bits(n)(v)


def boundary_vals(rng, n):
  m = (1 << n) - 1
  c = [0, 1, m, m - 1, 1 << (n - 1), (1 << (n - 1)) - 1, rng.randrange(m + 1), rng.randrange(m + 1)]
  if n > 2:
    k = rng.randrange(n)
    c += [1 << k, (1 << k) - 1, ((1 << k) + 1) & m]
  return [x & m for x in c]


def boundary_ints(rng, n):
  m = (1 << n) - 1
  h = 1 << (n - 1)
  return [-1, 0, 1, m, m + 1, m + 2, -h, -h - 1, -h + 1, -m, -m - 1, h, rng.randrange(-2 * m - 2, 2 * m + 3),
          rng.randrange(m + 1), True, False]


def drive_pair(x, y):
  for name, f in OPS.items():
    _try(f, x, y)


def drive_pair_history(sh, x, a, y, b):
  """results are kept and updated IN PLACE (as a testbench or FL model does with a stored comparison / sum), then the same
  operation is repeated: operands must be untouched and the repeated result must equal the first one"""
  from pymtl3.datatypes import Bits
  for i, (name, f) in enumerate(OPS.items()):
    r = _try(f, x, y)
    if not isinstance(r, Bits):
      continue
    old, rn = int(r), r.nbits
    how = (i + a + b) % 3
    try:
      if how == 0: r @= old ^ ((1 << rn) - 1)
      elif how == 1: r[0] = 1 - (old & 1)
      else:
        r <<= old ^ ((1 << rn) - 1); r._flip()
    except Exception as e:
      sh.violation("in-place-update-of-an-operator-result-raised", {"op": name, "how": how, "error": repr(e)[:200]}); continue
    sh.count("result_mutation_probes")
    if int(x) != a or (isinstance(y, Bits) and int(y) != b):
      sh.violation("operator-result-aliases-an-operand", {"op": name, "n": x.nbits, "a": hex(a), "b": hex(b), "how": how}); return
    r2 = _try(f, x, y)
    if not isinstance(r2, Bits) or int(r2) != old or r2 is r:
      sh.violation("operator-result-changed-after-an-earlier-result-was-updated-in-place",
                   {"op": name, "n": x.nbits, "a": hex(a), "b": hex(b), "first": hex(old), "again": None if not isinstance(r2, Bits) else hex(int(r2)),
                    "same_object": r2 is r, "how": ["@=", "[0]=", "<<= + _flip"][how]}); return


def drive_hash_history(sh, Bits, n, a, b):
  """hash / equality / conversions after the SAME object changed its value in place (a cached hash, _next left behind ...)"""
  x = Bits(n, a)
  h0 = hash(x); d = {x: "old"}
  for how in range(4):
    y = Bits(n, a); hash(y); int(y)
    try:
      if how == 0: y @= b
      elif how == 1:
        y <<= b; y._flip()
      elif how == 2:
        for i in range(min(n, 70)): y[i] = (b >> i) & 1
        if n > 70: y[70:n] = b >> 70
      else: y[0:n] = b
    except Exception as e:
      sh.violation("in-place-update-raised", {"how": how, "n": n, "error": repr(e)[:200]}); continue
    fresh = Bits(n, b)
    sh.count("hash_after_update_probes")
    if int(y) != b or y.uint() != b or not (y == fresh) or hash(y) != hash(fresh) or (a != b and hash(fresh) != h0 and hash(y) == h0):
      sh.violation("value-or-hash-stale-after-in-place-update", {"how": ["@=", "<<= + _flip", "bit by bit", "full slice"][how], "n": n, "a": hex(a), "b": hex(b),
                   "int": hex(int(y)), "equal_to_fresh": bool(y == fresh), "hash_equal_to_fresh": hash(y) == hash(fresh)}); return
    if {fresh: 1}.get(y) != 1:
      sh.violation("updated-value-not-found-as-dict-key", {"how": how, "n": n, "a": hex(a), "b": hex(b)}); return


def drive_store(Bits, n, v):
  """constructor, @=, <<= + flip with value v (int or Bits)"""
  _try(Bits, n, v)
  t = Bits(n, 0)
  def im(t, v):
    t @= v
  def il(t, v):
    t <<= v
    t._flip()
  _try(im, t, v)
  t2 = Bits(n, (1 << n) - 1)
  _try(il, t2, v)


def check_class_ctor(sh, n, v):
  """BitsN( v ) through the CLASS mk_bits( n ) (generated on demand for the widths that are not predefined; its __init__ may
  bypass Bits.__init__ where the contracts sit): accepted iff -2^(n-1) <= v <= 2^n - 1, and then the value is v mod 2^n"""
  from pymtl3.datatypes import mk_bits
  legal = -(1 << (n - 1)) <= v <= (1 << n) - 1
  sh.count("class_constructor_checks")
  try:
    x = mk_bits(n)(v)
  except (ValueError, OverflowError, AssertionError):
    if legal:
      sh.violation("BitsN-constructor-rejects-a-legal-value", {"n": n, "v": hex(v)})
    return
  if not legal:
    sh.violation("BitsN-constructor-accepts-an-out-of-range-value", {"n": n, "v": hex(v), "stored": hex(int(x._uint))}); return
  if x.nbits != n or int(x._uint) != v & ((1 << n) - 1) or not (0 <= int(x._uint) < (1 << n)):
    sh.violation("BitsN-constructor-stores-another-value", {"n": n, "v": hex(v), "stored": hex(int(x._uint)), "nbits": x.nbits})


def drive_conv(x):
  int(x); x.uint(); x.int(); bool(x); operator.index(x); hash(x); x.clone(); copy.deepcopy(x); ~x; x.to_bits()
  hash(x.clone())


def run_exh(sh):
  from pymtl3.datatypes import Bits
  maxw = sh.params["maxw"]
  cases = 0
  for n in range(1, maxw + 1):
    for a in range(1 << n):
      x = Bits(n, a)
      drive_conv(x)
      for m in range(1, maxw + 2):
        for b in range(1 << m):
          drive_pair(x, Bits(m, b)); cases += len(OPS)
      for k in range(-(1 << n) - 2, (1 << n) + 3):
        drive_pair(x, k); cases += len(OPS)
        for name in ("add", "sub", "mul", "and", "or", "xor", "floordiv", "mod", "eq", "ne", "lt", "le", "gt", "ge"):
          _try(OPS[name], k, x); cases += 1
    for k in range(-(1 << n) - 2, (1 << n) + 3):
      drive_store(Bits, n, k); cases += 3
    for m in range(1, maxw + 2):
      for b in range(1 << m):
        drive_store(Bits, n, Bits(m, b)); cases += 3
  for bad in (0, -1, 1024, 1025, 4096):
    _try(Bits, bad, 0); cases += 1
  sh.count("exhaustive_cases", cases)
  sh.count("evaluations", cases)
  sh.count("exhaustive_complete")
  sh.sample({"stream": "exhaustive", "widths": [1, maxw], "ops": sorted(OPS), "cases": cases})


def run_rand(sh):
  from pymtl3.datatypes import Bits
  rng = sh.rng("rand")
  nops = sh.params["ops"]
  done = 0
  case = 0
  while done < nops:
    case += 1
    n = rng.choice(WCLASSES) if rng.random() < 0.7 else rng.randrange(1, 1024)
    vals = boundary_vals(rng, n)
    a = rng.choice(vals)
    x = _mk(rng, n, a)
    kind = rng.randrange(6)
    if kind <= 1:      # same width
      b = rng.choice(vals)
      if rng.random() < 0.3:
        b = rng.choice([0, 1, n - 1, n, n + 1, 2 * n]) & ((1 << n) - 1)   # shift amounts around n
      y = _mk(rng, n, b)
      drive_pair(x, y); done += len(OPS)
      if rng.random() < 0.25:
        drive_pair_history(sh, x, a, y, b); done += 2 * len(OPS)
      if rng.random() < 0.15:
        drive_hash_history(sh, Bits, n, a, b); done += 8
      sh.fp("same", n if n in WCLASSES else "other", a == 0, b == 0)
      if case <= 2:
        sh.sample({"stream": "random", "n": n, "a": hex(a), "b": hex(b), "ops": "all 16 binary operators"})
    elif kind == 2:    # mixed widths
      m = rng.choice([max(1, n - 1), min(1023, n + 1), rng.randrange(1, 1024)])
      y = Bits(m, rng.choice(boundary_vals(rng, m)))
      drive_pair(x, y); done += len(OPS)
      sh.fp("mixed", n if n in WCLASSES else "other", (m > n) - (m < n))
    elif kind == 3:    # ints right and left
      for k in rng.sample(boundary_ints(rng, n), 5):
        drive_pair(x, k)
        for name in ("add", "sub", "mul", "and", "or", "xor", "floordiv", "mod", "lt", "ge", "eq"):
          _try(OPS[name], k, x)
        done += len(OPS) + 11
      sh.fp("int", n if n in WCLASSES else "other")
    elif kind == 4:    # stores
      for k in ((1 << n), (1 << n) - 1, (1 << n) + 1, -(1 << (n - 1)), -(1 << (n - 1)) - 1, 0, rng.choice(boundary_ints(rng, n))):
        check_class_ctor(sh, n, k); done += 1
      for k in rng.sample(boundary_ints(rng, n), 6):
        drive_store(Bits, n, k); done += 3
      m = rng.choice([n, max(1, n - 1), min(1023, n + 1)])
      drive_store(Bits, n, Bits(m, rng.choice(boundary_vals(rng, m)))); done += 3
      _try(Bits, n, rng.choice(boundary_ints(rng, n)), True); done += 1
      sh.fp("store", n if n in WCLASSES else "other", m == n)
    else:
      drive_conv(x); done += 11
      sh.fp("conv", n if n in WCLASSES else "other", a >> (n - 1))
  sh.count("evaluations", done)


def run_sim(sh):
  """real library simulations with the contracts installed: the operand streams real designs produce"""
  from pymtl3 import DefaultPassGroup, Bits32, Bits16, mk_bits
  from pymtl3.stdlib.queues import NormalQueueRTL, PipeQueueRTL, BypassQueueRTL
  from pymtl3.stdlib.basic_rtl import RoundRobinArbiterEn, RoundRobinArbiter
  rng = sh.rng("sim")
  cycles = sh.params["cycles"]
  before = bitsmon.judged_total()
  for cls, ty, n in ((NormalQueueRTL, Bits32, 3), (PipeQueueRTL, Bits16, 2), (BypassQueueRTL, mk_bits(65), 5)):
    q = cls(ty, n); q.elaborate(); q.apply(DefaultPassGroup()); q.sim_reset()
    for c in range(cycles):
      q.enq.msg @= rng.getrandbits(ty.nbits)
      q.enq.en @= 0; q.deq.en @= 0
      q.sim_eval_combinational()
      if cls is BypassQueueRTL:
        q.enq.en @= int(bool(q.enq.rdy) and rng.random() < 0.6); q.sim_eval_combinational()
        q.deq.en @= int(bool(q.deq.rdy) and rng.random() < 0.5)
      else:
        q.deq.en @= int(bool(q.deq.rdy) and rng.random() < 0.5); q.sim_eval_combinational()
        q.enq.en @= int(bool(q.enq.rdy) and rng.random() < 0.6)
      q.sim_tick()
    sh.count("sim_components")
  for cls in (RoundRobinArbiter, RoundRobinArbiterEn):
    for nreqs in (3, 8):
      a = cls(nreqs); a.elaborate(); a.apply(DefaultPassGroup()); a.sim_reset()
      for c in range(cycles):
        a.reqs @= rng.getrandbits(nreqs)
        if cls is RoundRobinArbiterEn:
          a.en @= rng.getrandbits(1)
        a.sim_tick()
      sh.count("sim_components")
  import sys
  from vlib.checks import c20_proc
  c20_proc.run_programs_for_monitor(sh, rng, 2 if sh.tier == "quick" else 12)
  sh.count("sim_processor_programs", 2 if sh.tier == "quick" else 12)
  n = bitsmon.judged_total() - before
  sh.count("sim_contract_evaluations", n)
  sh.count("evaluations", n)
  sh.sample({"stream": "library simulations under contracts", "contract evaluations": n})


def check_struct_operand(sh):
  """== / != between a Bits value and a bitstruct of the same total width: decided by the packed value (or refused) - never a
  silent 'not equal' for equal bit patterns"""
  from pymtl3.datatypes import mk_bits, mk_bitstruct
  rng = sh.rng("structop")
  for k in range(20):
    wa, wb = rng.choice([1, 3, 4, 8]), rng.choice([1, 4, 5, 8])
    T = mk_bitstruct(f"SO_{sh.idx}_{k}", {"a": mk_bits(wa), "b": mk_bits(wb)})
    va, vb = rng.getrandbits(wa), rng.getrandbits(wb)
    s_ = T(va, vb); packed = (va << wb) | vb
    for x in (packed, packed ^ 1):
      sh.count("bits_vs_struct_comparisons")
      bx = mk_bits(wa + wb)(x)
      try: eq, ne = bx == s_, bx != s_
      except (TypeError, ValueError): sh.count("bits_vs_struct_comparisons_refused"); continue
      if bool(eq) != (x == packed) or bool(ne) != (x != packed):
        sh.violation("comparison-of-bits-with-a-bitstruct-of-the-same-width-ignores-the-value", {"bits": hex(x), "struct_packed": hex(packed),
                     "eq": repr(eq), "ne": repr(ne), "widths": [wa, wb]}, case=("structop", k)); return
      # ... and the answer does not depend on which operand stands on the left
      try: eq2, ne2 = s_ == bx, s_ != bx
      except (TypeError, ValueError): sh.count("struct_vs_bits_comparisons_refused"); continue
      sh.count("struct_vs_bits_comparisons")
      if bool(eq2) != bool(eq) or bool(ne2) != bool(ne):
        sh.violation("comparison-of-a-bitstruct-with-bits-depends-on-the-operand-order", {"bits": hex(x), "struct_packed": hex(packed),
                     "bits_eq_struct": repr(eq), "struct_eq_bits": repr(eq2), "bits_ne_struct": repr(ne), "struct_ne_bits": repr(ne2), "widths": [wa, wb]},
                     case=("structop-mirror", k)); return


def check_struct_source(sh):
  """@= / <<= from a bitstruct value: the target ends up inside [0, 2^n) - also when a field of the source was given a Bits of
  another width beforehand (fields are plain attributes): refused, or the stored value is in range ( F-B7 )"""
  from pymtl3.datatypes import mk_bits, mk_bitstruct
  rng = sh.rng("structsrc")
  for k in range(40):
    wa, wb = rng.choice([1, 3, 4, 8]), rng.choice([1, 4, 5, 8])
    T = mk_bitstruct(f"SS_{sh.idx}_{k}", {"a": mk_bits(wa), "b": mk_bits(wb)})
    va, vb = rng.getrandbits(wa), rng.getrandbits(wb)
    p_ = T(va, vb); n = wa + wb
    how = rng.choice(["legal", "wider-field", "narrower-field"])
    if how == "wider-field": p_.a = mk_bits(wa + rng.choice([1, 4]))(-1)
    elif how == "narrower-field" and wa > 1: p_.a = mk_bits(wa - 1)(0)
    elif how == "narrower-field": how = "legal"
    for op in ("@=", "<<="):
      x = mk_bits(n)(0)
      sh.count("struct_source_assignments")
      try:
        if op == "@=": x @= p_
        else: x <<= p_; x._flip()
      except (ValueError, TypeError):
        if how == "legal": sh.violation("legal-struct-assignment-refused", {"widths": [wa, wb], "operator": op}, case=("structsrc", k, op)); return
        sh.count("struct_source_assignments_refused"); continue
      v = x._uint
      if not 0 <= v < (1 << n) or (how == "legal" and v != ((va << wb) | vb)):
        sh.violation("stored-value-outside-the-width-after-assignment-from-a-bitstruct", {"target_nbits": n, "operator": op, "source": repr(p_), "how": how,
                     "stored": hex(v)}, case=("structsrc", k, op)); return


def check_rejected_assignments(sh):
  """an assignment that is REFUSED (int out of range, Bits of another width) leaves the object as it was: the value, and the pending
  value of an earlier legal <<= that the next flip commits"""
  from pymtl3.datatypes import mk_bits
  rng = sh.rng("rejected")
  for k in range(60):
    n = rng.choice([1, 2, 8, 16, 64, 65, 300])
    B = mk_bits(n); a = rng.getrandbits(n); b = rng.getrandbits(n)
    bad = rng.choice([1 << n, (1 << n) + rng.getrandbits(4), -(1 << (n - 1)) - 1, mk_bits(n + 1)(1), mk_bits(max(1, n - 1))(0) if n > 1 else mk_bits(2)(1)])
    for how in ("ilshift", "imatmul"):
      x = B(a)
      x <<= b                      # a legal pending value
      raised = False
      try:
        if how == "ilshift": x <<= bad
        else: x @= bad
      except (ValueError, TypeError): raised = True
      sh.count("rejected_assignments_checked")
      if not raised:
        sh.violation("out-of-range-assignment-accepted", {"nbits": n, "operator": how, "operand": repr(bad)}, case=("rejected", k, how)); return
      now = int(x); x._flip(); after = int(x)
      if now != a or after != b:
        sh.violation("refused-assignment-changed-the-object", {"nbits": n, "operator": "<<=" if how == "ilshift" else "@=", "refused_operand": repr(bad), "value_before": hex(a), "pending_before": hex(b),
                     "value_after_the_refusal": hex(now), "value_after_the_next_flip": hex(after)}, case=("rejected", k, how)); return


def run_shard(sh):
  bitsmon.install()
  kind = sh.params["kind"]
  if sh.idx == 0: check_struct_operand(sh)
  if sh.idx == 1: check_rejected_assignments(sh)
  if sh.idx == 2: check_struct_source(sh)
  {"exh": run_exh, "rand": run_rand, "sim": run_sim}[kind](sh)
  cells = sum(1 for k in bitsmon.STATS if k.startswith("cell:"))
  bitsmon.drain(sh, mech=None)
  if kind == "exh":
    sh.count("cells_seen", cells)
