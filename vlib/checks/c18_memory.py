"""C18 - magic memories act as one in-order memory whatever the timing parameters.

History recorded at two boundaries in one global event list (execution order):
  ("acc", port, idx)                     request idx of that port accepted   (client boundary)
  ("op", kind, addr, nbytes, data, ret)  primitive processed by the backing store (instance wrappers)
  ("rsp", port, msg)                     response delivered to the client
Offline checker: every processed primitive is matched to the oldest outstanding request of some
port (in-order, exactly-once, none invented / re-executed); a byte-array model replays the
processed sequence and yields the expected response contents and final image.
"""
import sys
import traceback

PROPERTY = "C18"
LEVEL = "exploration"
RULE = ("case = one (memory model, port count, latency, stall probability, sink back-pressure pattern, request streams) "
        "configuration simulated to completion; request streams of 30-300 ops per port over 4-16 hot words: reads/writes "
        "of length 1-4 at all alignments, full-width AMOs of all 9 kinds, bursts and gaps. distinct_nontrivial = distinct "
        "(model, nports, latency, stall, backpressure class, op-mix class) tuples with >= 2 ports or >= 1 AMO")
ASSUMPTIONS = [
  "processing order is read from wrappers around the read/write/amo attributes of the MagicMemoryFL instance (one layer inside the component); contents are recomputed, never trusted from it",
  "write responses are only checked for type/opaque (the statement does not fix their len/data fields)",
  "liveness is restated as bounded progress: all responses within ops*(latency+2)*20/(1-stall)+300 cycles",
]

T_READ, T_WRITE = 0, 1
AMOS = {3: "add", 4: "and", 5: "or", 6: "swap", 7: "min", 8: "minu", 9: "max", 10: "maxu", 11: "xor"}
MEMSZ = 1 << 14
AW = 32          # width of the address field of the request type
BASE = 0x400


def plan(tier, seed):
  q = tier == "quick"
  n = 16 if q else 32
  return [{"hashseed": (seed * 13 + i) % 613, "configs": 20 if q else 150, "part": i} for i in range(n)]


def thresholds(tier):
  t = {"configs_completed": 100, "ops_replayed": 10000, "subword_ops": 500, "amo_ops": 200, "responses_checked": 10000,
       "multiport_configs": 50, "rtl_configs": 30, "cl_configs": 30, "backpressure_configs": 30, "metamorphic_pairs": 8, "configs_with_ports_of_different_data_width": 20, "cl_memory_with_rtl_masters_configs": 30, "image_api_calls": 1000, "fl_configs": 20, "fl_master_runs": 60, "configs_with_non_power_of_two_memory": 60, "configs_at_the_top_of_a_narrow_address_space": 40}
  if tier == "thorough":
    t = {k: v * 20 for k, v in t.items()}
    t["image_api_calls"] = 3000           # a fixed number of calls per shard
    t["fl_master_runs"] = 600
  return t


# ---------------------------------------------------------------------------
# reference memory
# ---------------------------------------------------------------------------

def s32(x, bits):
  return x - (1 << bits) if x >> (bits - 1) else x


class MemRef:
  def __init__(self):
    self.m = bytearray(MEMSZ)

  def read(self, addr, n):
    return int.from_bytes(self.m[addr:addr + n], "little")

  def write(self, addr, n, v):
    self.m[addr:addr + n] = (v & ((1 << (8 * n)) - 1)).to_bytes(n, "little")

  def amo(self, kind, addr, n, a):
    bits = 8 * n
    m = self.read(addr, n)
    a &= (1 << bits) - 1
    k = AMOS[kind]
    if k == "add": r = (m + a) & ((1 << bits) - 1)
    elif k == "and": r = m & a
    elif k == "or": r = m | a
    elif k == "xor": r = m ^ a
    elif k == "swap": r = a
    elif k == "min": r = m if s32(m, bits) < s32(a, bits) else a
    elif k == "max": r = m if s32(m, bits) > s32(a, bits) else a
    elif k == "minu": r = min(m, a)
    else: r = max(m, a)
    self.write(addr, n, r)
    return m


# ---------------------------------------------------------------------------
# workload
# ---------------------------------------------------------------------------

def gen_stream(rng, nops, nwords, amo_p, subword_amo, dw=32):
  """requests of one port whose data field is dw bits wide (len 0 = the full dw/8 bytes)"""
  full = dw // 8
  out = []
  for i in range(nops):
    w = rng.randrange(nwords)
    r = rng.random()
    if r < amo_p:
      ln = rng.randrange(1, full) if subword_amo and rng.random() < 0.5 and full > 1 else 0
      nb = ln or full
      out.append({"type": rng.choice(list(AMOS)), "addr": min(BASE + 4 * w, MEMSZ - nb), "len": ln, "nb": nb,
                  "data": rng.choice([rng.getrandbits(dw), (1 << dw) - 1, 1 << (dw - 1), (1 << (dw - 1)) - 1, 1, 0,
                                      1 << (8 * nb - 1), (1 << (8 * nb)) - 1])})
    else:
      ln = rng.choice([0, 0] + list(range(1, full)))
      nbytes = ln or full
      off = rng.randrange(0, 4) if nbytes < full else rng.choice([0, 0, 0, 1, 2, 3])   # unaligned words straddle
      addr = min(BASE + 4 * w + off, MEMSZ - nbytes)          # the last byte of the memory can be the last byte of an access, no more
      if r < amo_p + (1 - amo_p) * 0.5:
        out.append({"type": T_READ, "addr": addr, "len": ln, "nb": nbytes, "data": 0})
      else:
        out.append({"type": T_WRITE, "addr": addr, "len": ln, "nb": nbytes, "data": rng.getrandbits(dw)})
  return out


def gen_gaps(rng, n):
  mode = rng.choice(["none", "none", "bursty", "sparse"])
  if mode == "none":
    return [0] * n
  if mode == "sparse":
    return [rng.randrange(0, 6) for _ in range(n)]
  return [rng.choice([0, 0, 0, 0, rng.randrange(5, 25)]) for _ in range(n)]


# ---------------------------------------------------------------------------
# running the real thing
# ---------------------------------------------------------------------------

def build(model, nports, streams, gaps, ev, stall, latency, patterns, dws=None):
  from pymtl3 import Component, connect, DefaultPassGroup
  from pymtl3.stdlib.mem import mk_mem_msg
  from vlib import harness
  dws = dws or [32] * nports
  types = {dw: mk_mem_msg(8, AW, dw) for dw in set(dws)}
  ptypes = [types[dw] for dw in dws]                      # per-port (request, response) classes: ports may differ in data width
  msgs = [[ptypes[p][0](r["type"], r.get("opq", i & 0xFF), r["addr"], r["len"], r["data"]) for i, r in enumerate(st)] for p, st in enumerate(streams)]
  if model == "cl":
    from pymtl3.stdlib.mem.MagicMemoryCL import MagicMemoryCL
    SrcCL, SinkCL = harness.mk_cl()
    class Top(Component):
      def construct(s):
        s.mem = MagicMemoryCL(nports, list(ptypes), stall, latency, MEMSZ)
        s.srcs = [SrcCL(i, msgs[i], gaps[i], ev) for i in range(nports)]
        s.sinks = [SinkCL(i, ev) for i in range(nports)]
        for i in range(nports):
          connect(s.srcs[i].send, s.mem.ifc[i].req)
          connect(s.mem.ifc[i].resp, s.sinks[i].recv)
  elif model == "fl":
    # the FL memory behind a CL master: pymtl3 inserts the MemIfcCL2FLAdapter (one port, requests served at once)
    from pymtl3 import update_once
    from pymtl3.stdlib.mem import MagicMemoryFL
    from pymtl3.stdlib.mem.mem_ifcs import MemMasterIfcCL
    depth_fl = [0]
    class MemFLMon(MagicMemoryFL):          # the same memory with its three primitives recorded (the interface binds these methods)
      def _rec(s, kind, a, r):
        if depth_fl[0] == 0:
          ev.append(("port", 0))
          if kind == "read": ev.append(("op", "read", int(a[0]), int(a[1]), None, int(r)))
          elif kind == "write": ev.append(("op", "write", int(a[0]), int(a[1]), int(a[2]), None))
          else: ev.append(("op", "amo", int(a[1]), int(a[2]), int(a[3]), int(r), int(a[0])))
      def read(s, addr, nbytes):
        depth_fl[0] += 1
        try: r = MagicMemoryFL.read(s, addr, nbytes)
        finally: depth_fl[0] -= 1
        s._rec("read", (addr, nbytes), r); return r
      def write(s, addr, nbytes, data):
        depth_fl[0] += 1
        try: MagicMemoryFL.write(s, addr, nbytes, data)
        finally: depth_fl[0] -= 1
        s._rec("write", (addr, nbytes, data), None)
      def amo(s, amo, addr, nbytes, data):
        depth_fl[0] += 1
        try: r = MagicMemoryFL.amo(s, amo, addr, nbytes, data)
        finally: depth_fl[0] -= 1
        s._rec("amo", (amo, addr, nbytes, data), r); return r
    class MasterCL(Component):
      def recv(s, msg):
        msg = msg.clone(); s.got.append(msg); s.ev.append(("rsp", 0, msg))
      def recv_rdy(s): return s.now_ready
      def construct(s, msgs, gaps, ev):
        s.mem = MemMasterIfcCL(ptypes[0][0], ptypes[0][1], s.recv, s.recv_rdy)
        s.msgs, s.gaps, s.ev = msgs, gaps, ev
        s.idx = 0; s.wait = gaps[0] if gaps else 0; s.now_ready = True; s.got = []
        s.cur = ptypes[0][0]()          # ONE request object, refilled for every request (also while the previous one is in flight)
        @update_once
        def up_src():
          if s.idx < len(s.msgs) and not s.reset:
            s.cur @= s.msgs[s.idx]
            if s.wait > 0: s.wait -= 1
            elif s.mem.req.rdy():
              s.ev.append(("acc", 0, s.idx))
              s.mem.req(s.cur); s.idx += 1
              if s.idx < len(s.msgs): s.cur @= s.msgs[s.idx]
              s.wait = s.gaps[s.idx] if s.idx < len(s.gaps) else 0
      def done(s): return s.idx >= len(s.msgs)
      def line_trace(s): return ""
    class Top(Component):
      def construct(s):
        s.master = MasterCL(msgs[0], gaps[0], ev)
        s.mem = MemFLMon(MEMSZ)
        s.mem.ifc //= s.master.mem
        s.srcs = None
    top = Top()
    top.elaborate()
    top.srcs = [top.master]; top.sinks = [top.master]
    top.apply(DefaultPassGroup())
    return top
  elif model == "clrtl":
    # the CL memory driven by RTL masters: pymtl3 inserts RTL<->CL adapters, which hand the LIVE request signal object to the memory
    from pymtl3.stdlib.mem.MagicMemoryCL import MagicMemoryCL
    from pymtl3.stdlib.ifcs.send_recv_ifcs import RecvCL2SendRTL
    SrcCL, SinkCL = harness.mk_cl()
    class Top(Component):
      def construct(s):
        s.mem = MagicMemoryCL(nports, list(ptypes), stall, latency, MEMSZ)
        s.srcs = [SrcCL(i, msgs[i], gaps[i], ev) for i in range(nports)]
        s.rtl = [RecvCL2SendRTL(ptypes[i][0]) for i in range(nports)]          # an en/rdy RTL master in front of every port
        s.sinks = [SinkCL(i, ev) for i in range(nports)]
        for i in range(nports):
          connect(s.srcs[i].send, s.rtl[i].recv)
          connect(s.rtl[i].send, s.mem.ifc[i].req)
          connect(s.mem.ifc[i].resp, s.sinks[i].recv)
  else:
    from pymtl3.stdlib.stream.magic_memory import MagicMemoryRTL
    SrcRTL, SinkRTL = harness.mk_rtl()
    class Top(Component):
      def construct(s):
        s.mem = MagicMemoryRTL(nports, list(ptypes), stall, latency, MEMSZ)
        s.srcs = [SrcRTL(ptypes[i][0], i, msgs[i], gaps[i], ev) for i in range(nports)]
        s.sinks = [SinkRTL(ptypes[i][1], i, ev, patterns[i]) for i in range(nports)]
        for i in range(nports):
          connect(s.srcs[i].send, s.mem.ifc[i].req)
          connect(s.mem.ifc[i].resp, s.sinks[i].recv)
  top = Top()
  top.elaborate()
  fl = top.mem.mem
  depth = [0]
  def wrap(kind, orig):
    def w(*a):
      depth[0] += 1
      try:
        r = orig(*a)
      finally:
        depth[0] -= 1
      if depth[0] == 0:
        # which port is being served: the loop variable of the calling up_mem frame (monitor detail; falls
        # back to content matching when absent)
        f = sys._getframe(1)
        port = f.f_locals.get("i") if f.f_code.co_name == "up_mem" else None
        ev.append(("port", port))
        if kind == "read": ev.append(("op", "read", int(a[0]), int(a[1]), None, int(r)))
        elif kind == "write": ev.append(("op", "write", int(a[0]), int(a[1]), int(a[2]), None))
        else: ev.append(("op", "amo", int(a[1]), int(a[2]), int(a[3]), int(r), int(a[0])))
      return r
    return w
  fl.read, fl.write, fl.amo = wrap("read", fl.read), wrap("write", fl.write), wrap("amo", fl.amo)
  top.apply(DefaultPassGroup())
  return top


def simulate(sh, cfg, streams):
  ev = []
  n = cfg["nports"]
  top = build(cfg["model"], n, streams, cfg["gaps"], ev, cfg["stall"], cfg["latency"], cfg["patterns"], cfg.get("dws"))
  total = sum(len(s) for s in streams)
  maxops = max(len(s) for s in streams)
  bound = int(maxops * (cfg["latency"] + 2) * 20 / (1 - min(cfg["stall"], 0.95)) * cfg["bp_factor"]) + 300
  cyc = 0
  err = None
  try:
    top.sim_reset()
    while cyc < bound:
      if cfg["model"] in ("cl", "clrtl", "fl"):
        for i in range(n):
          top.sinks[i].now_ready = bool(cfg["patterns"][i][cyc % len(cfg["patterns"][i])])
      top.sim_tick()
      cyc += 1
      if all(s.done() for s in top.srcs) and sum(len(k.got) for k in top.sinks) >= total:
        # a few more cycles: nothing further may arrive
        for _ in range(cfg["latency"] + 4):
          top.sim_tick()
        break
  except Exception as e:
    err = (type(e).__name__, str(e)[:200], traceback.format_exc()[-600:])
  image = bytes(top.mem.read_mem(BASE - 8, min(4 * cfg["nwords"] + 24, MEMSZ - (BASE - 8))))
  if cfg["model"] == "cl" and err is None:
    # a consumer that KEEPS the response objects of the CL memory (a scoreboard): each still holds what it held when it arrived
    for i in range(n):
      for k, (obj, val) in enumerate(getattr(top.sinks[i], "kept", [])):
        if not (obj == val):
          err = ("ResponseObjectChangedAfterDelivery", f"port {i}, response {k}: delivered {val}, the same object later reads {obj}", "")
          break
  return ev, cyc, bound, err, image


def _same_op(e, r):
  nb = r["nb"]
  if e[2] != r["addr"] or e[3] != nb: return False
  if e[1] == "read": return r["type"] == T_READ
  if e[1] == "write": return r["type"] == T_WRITE and (r["data"] & ((1 << (8 * nb)) - 1)) == e[4]
  return r["type"] == e[6] and (r["data"] & ((1 << (8 * nb)) - 1)) == e[4]


def check_history(sh, cfg, streams, ev, cyc, bound, err, image):
  """offline checker; returns list of per-port response tuples for the metamorphic leg"""
  n = cfg["nports"]
  def V(kind, **kw):
    c = {k: cfg[k] for k in ("model", "nports", "latency", "stall", "nwords", "bp")}
    mech = None
    if kind == "simulation-raised" and cfg.get("subword_amo") and kw.get("error", [""])[0] == "ValueError":
      mech = "amo-length-differs-from-data-width"
    if kind.startswith("processed-op-is-not-the-next-request") and cfg["model"] == "rtl" and cfg["bp"] != "none" \
       and kw.get("previous_request") is not None and _same_op(kw["op"], kw["previous_request"]):
      mech = "rtl-memory-reexecutes-request-while-response-stalled"
    sh.violation(kind, dict(c, **kw), mechanism=mech, case=cfg.get("case"))
    return mech
  if err is not None:
    V("simulation-raised", error=list(err), subword_amo=cfg.get("subword_amo"))
    return None
  out = [[] for _ in range(n)]      # outstanding request indices per port
  nxt_acc = [0] * n
  exp_resp = [[] for _ in range(n)]
  ref = MemRef()
  got = [[] for _ in range(n)]
  processed = [0] * n
  nproc = [0] * n
  bad = False
  hint = None
  for e in ev:
    if e[0] == "port":
      hint = e[1]
    elif e[0] == "acc":
      _, p, idx = e
      if idx != nxt_acc[p]:
        V("source-accept-out-of-order(harness)", port=p, idx=idx); return None
      nxt_acc[p] += 1
      out[p].append(idx)
    elif e[0] == "op":
      kind, addr, nb = e[1], e[2], e[3]
      sh.count("ops_replayed")
      if nb not in (4, 8): sh.count("subword_ops")
      # match to the next unprocessed request of the served port (in-order, exactly-once)
      cand = None
      for p in (range(n) if hint is None else [hint]):
        if nproc[p] >= len(streams[p]):
          continue
        r = streams[p][nproc[p]]
        rnb = r["nb"]
        if r["addr"] != addr or rnb != nb:
          continue
        if kind == "read" and r["type"] == T_READ: cand = p; break
        if kind == "write" and r["type"] == T_WRITE and (r["data"] & ((1 << (8 * nb)) - 1)) == e[4]: cand = p; break
        if kind == "amo" and r["type"] == e[6] and (r["data"] & ((1 << (8 * nb)) - 1)) == e[4]: cand = p; break
      if cand is None:
        m = V("processed-op-is-not-the-next-request-of-its-port(re-executed/reordered/invented)", op=list(e), port=hint,
              next_requests=[(p, nproc[p], streams[p][nproc[p]]) for p in range(n) if nproc[p] < len(streams[p])],
              previous_request=None if hint is None or nproc[hint] == 0 else streams[hint][nproc[hint] - 1])
        if m is None: bad = True
        # keep the model in step with what the store really did
        if kind == "write": ref.write(addr, nb, e[4])
        elif kind == "amo": ref.amo(e[6], addr, nb, e[4])
        continue
      idx = nproc[cand]; nproc[cand] += 1
      r = streams[cand][idx]
      processed[cand] += 1
      if kind == "read":
        v = ref.read(addr, nb)
        if v != e[5]:
          V("backing-store-read-differs-from-replay", op=list(e), expected=v); bad = True
        exp_resp[cand].append((T_READ, r.get("opq", idx & 0xFF), r["len"], v))
      elif kind == "write":
        ref.write(addr, nb, e[4])
        exp_resp[cand].append((T_WRITE, r.get("opq", idx & 0xFF), None, None))
      else:
        sh.count("amo_ops")
        old = ref.amo(e[6], addr, nb, e[4])
        exp_resp[cand].append((r["type"], r.get("opq", idx & 0xFF), r["len"], old))
    else:
      _, p, m = e
      got[p].append((int(m.type_), int(m.opaque), int(m.len), int(m.data), int(m.test)))
  total = sum(len(s) for s in streams)
  for p in range(n):
    if nxt_acc[p] < len(streams[p]) or len(got[p]) < len(streams[p]):
      V("bounded-progress-missed", port=p, accepted=nxt_acc[p], responses=len(got[p]), requests=len(streams[p]),
        cycles=cyc, bound=bound)
      bad = True
    if nproc[p] != nxt_acc[p] and not bad:
      V("accepted-and-processed-counts-differ", port=p, accepted=nxt_acc[p], processed=nproc[p]); bad = True
    if len(got[p]) > len(exp_resp[p]):
      V("more-responses-than-processed-requests(invented/duplicated)", port=p, responses=len(got[p]), processed=len(exp_resp[p]))
      bad = True
    for k, g in enumerate(got[p][:len(exp_resp[p])]):
      x = exp_resp[p][k]
      sh.count("responses_checked")
      if g[0] != x[0] or g[1] != x[1]:
        V("response-out-of-order-or-wrong-type/opaque", port=p, k=k, got=g, expected=x); bad = True; break
      if x[3] is not None and (g[3] != x[3] or g[2] != x[2]):
        V("response-data-wrong", port=p, k=k, got=g, expected=x, request=streams[p][k]); bad = True; break
      if g[4] != 0:
        V("response-test-field-nonzero", port=p, k=k, got=g)
  exp_image = bytes(ref.m[BASE - 8:BASE - 8 + len(image)])
  sh.count("image_bytes_compared", len(image))
  if image != exp_image:
    diff = [(BASE - 8 + i, image[i], exp_image[i]) for i in range(len(image)) if image[i] != exp_image[i]][:6]
    V("final-image-differs-from-sequential-replay", diff=diff)
  return got


def run_config(sh, rng, case, probe=None):
  model = rng.choice(["cl", "cl", "rtl", "clrtl", "fl"])
  nports = rng.choice([1, 2, 2, 3, 4]) if model == "cl" else rng.choice([1, 2, 2])
  if model == "fl": nports = 1
  latency = rng.choice([0, 1, 1, 2, 3, 5, 8]) if model == "cl" else rng.choice([0, 0, 1, 2, 4])
  if model == "clrtl": latency = rng.choice([0, 0, 1, 2])
  stall = rng.choice([0, 0, 0.1, 0.5, 0.9])
  nwords = rng.choice([4, 4, 8, 16])
  bp = rng.choice(["none", "none", "half", "bursty", "rare"])
  subword_amo = rng.random() < 0.4
  if probe == "F-M1":
    subword_amo, model = True, rng.choice(["cl", "rtl"])
  if probe == "F-M2":
    model, bp, nports = "rtl", "half", rng.choice([1, 2])
  def pat():
    if bp == "none": return [1]
    if bp == "half": return [rng.getrandbits(1) for _ in range(64)]
    if bp == "bursty": return [0] * rng.randrange(3, 20) + [1] * rng.randrange(3, 20)
    return [1 if rng.random() < 0.15 else 0 for _ in range(64)] + [1]
  global MEMSZ, BASE, AW
  MEMSZ, BASE, AW = 1 << 14, 0x400, 32
  narrow = probe is None and rng.random() < 0.25
  if narrow:
    # a request type whose address field is exactly as wide as the memory needs, the traffic right below the top of the address
    # space: an access may end with the very last byte ( addr + len == 2**AW )
    AW = rng.choice([16, 16, 20]); MEMSZ = 1 << AW
    BASE = MEMSZ - 4 * nwords
    sh.count("configs_at_the_top_of_a_narrow_address_space")
  if probe is None and not narrow and rng.random() < 0.5:
    # memories whose size is not a power of two, the traffic anywhere in it (bottom, middle, right below the top)
    MEMSZ = rng.choice([1100, 1200, 1500, 2000, 3000, 5000, 12000, 1 << 12, 1 << 13])
    span = 4 * nwords + 24
    BASE = rng.choice([8, 0x400 if MEMSZ >= 0x400 + span else 8, MEMSZ - span + 8 - (MEMSZ - span) % 4, 4 * rng.randrange(2, (MEMSZ - span) // 4)])
    sh.count("configs_with_other_memory_size_or_base"); 
    if MEMSZ & (MEMSZ - 1): sh.count("configs_with_non_power_of_two_memory")
  amo_p = rng.choice([0, 0.1, 0.3]) if probe != "F-M2" else 0.4
  nops = rng.randrange(30, 120 if sh.tier == "quick" else 300)
  dws = [32] * nports
  if probe is None and rng.random() < 0.4:
    dws = [rng.choice([16, 32, 64]) for _ in range(nports)]          # ports of different data widths on one memory
  streams = [gen_stream(rng, nops, nwords, amo_p, subword_amo, dws[p]) for p in range(nports)]
  if probe is None and rng.random() < 0.5:
    # a master that sends the VERY SAME message again (polling a flag with a constant opaque, two identical AMOs in a row): every
    # field equal to the previous request of the port, the opaque included
    for st in streams:
      for i in range(1, len(st)):
        if rng.random() < 0.15:
          st[i] = dict(st[i - 1], opq=st[i - 1].get("opq", (i - 1) & 0xFF)); sh.count("requests_identical_to_the_previous_one")
  cfg = {"model": model, "dws": dws, "nports": nports, "latency": latency, "stall": stall, "nwords": nwords, "bp": bp,
         "patterns": [pat() for _ in range(nports)], "gaps": [gen_gaps(rng, nops) for _ in range(nports)],
         "bp_factor": {"none": 1, "half": 3, "bursty": 4, "rare": 10}[bp], "subword_amo": subword_amo, "case": case, "mem_nbytes": MEMSZ, "base": BASE, "addr_bits": AW}
  try:
    ev, cyc, bound, err, image = simulate(sh, cfg, streams)
  except Exception as e:
    sh.violation("legal-memory-system-could-not-be-built", {"model": model, "nports": nports, "dws": dws, "error": f"{type(e).__name__}: {' '.join(str(e).split())[:300]}"}, case=case)
    return
  got = check_history(sh, cfg, streams, ev, cyc, bound, err, image)
  sh.count("evaluations"); sh.count("configs_completed")
  sh.count(model + "_configs")
  if nports > 1: sh.count("multiport_configs")
  if model == "clrtl": sh.count("cl_memory_with_rtl_masters_configs")
  if len(set(cfg["dws"])) > 1: sh.count("configs_with_ports_of_different_data_width")
  if any(d != 32 for d in cfg["dws"]): sh.count("configs_with_16_or_64_bit_ports")
  if bp != "none": sh.count("backpressure_configs")
  has_amo = any(r["type"] in AMOS for s in streams for r in s)
  if nports > 1 or has_amo:
    sh.fp(model, nports, latency, stall, bp, has_amo, nwords)
  # metamorphic leg: one port => contents independent of timing
  if nports == 1 and got is not None and probe is None:
    cfg2 = dict(cfg, latency=rng.choice([0, 1, 3, 6]) if model == "cl" else rng.choice([0, 2, 5]),
                stall=rng.choice([0, 0.3, 0.8]), gaps=[gen_gaps(rng, nops)], patterns=[[1]], bp="none", bp_factor=1)
    ev2, cyc2, bound2, err2, image2 = simulate(sh, cfg2, streams)
    got2 = check_history(sh, cfg2, streams, ev2, cyc2, bound2, err2, image2)
    sh.count("metamorphic_pairs")
    if got2 is not None and (got2 != got or image2 != image):
      sh.violation("timing-parameters-changed-response-contents", {"cfg_a": {k: cfg[k] for k in ("model", "latency", "stall", "bp")},
                                                                   "cfg_b": {k: cfg2[k] for k in ("model", "latency", "stall", "bp")}}, case=case)
  if case < 1:
    sh.sample({"config": {k: cfg[k] for k in ("model", "nports", "latency", "stall", "nwords", "bp")},
               "ops_per_port": nops, "first_requests_port0": streams[0][:4], "events": len(ev), "cycles": cyc})


def run_image_api(sh, rng):
  """the image access used by test benches ( read_mem / write_mem ) over the WHOLE address range, the top of the memory included"""
  from pymtl3.stdlib.mem.MagicMemoryFL import MagicMemoryFL
  for _ in range(6):
    N = rng.choice([16, 64, 256, 1000, 4096])
    m = MagicMemoryFL(N)          # ( MagicMemoryCL / RTL forward read_mem / write_mem to their MagicMemoryFL )
    m.elaborate()
    model = bytearray(N)
    for _ in range(20):
      n = rng.choice([1, 2, 4, 8, N]) if rng.random() < 0.9 else rng.randrange(1, N + 1)
      n = min(n, N)
      a = rng.choice([0, N - n, N - n, rng.randrange(0, N - n + 1)])
      sh.count("image_api_calls"); sh.count("evaluations")
      try:
        if rng.random() < 0.5:
          data = bytearray(rng.getrandbits(8) for _ in range(n))
          m.write_mem(a, data); model[a:a + n] = data
        else:
          got = bytes(m.read_mem(a, n))
          if got != bytes(model[a:a + n]):
            sh.violation("read_mem-returns-other-bytes-than-were-written", {"addr": a, "size": n, "mem_nbytes": N}); return
      except Exception as e:
        sh.violation("in-range-image-access-raised", {"addr": a, "size": n, "mem_nbytes": N, "touches_last_byte": a + n == N,
                                                     "error": f"{type(e).__name__}: {str(e)[:100]}", "model": type(m).__name__}); return
    sh.fp("image-api", N)


FLMASTER_SRC = """
from pymtl3 import *
from pymtl3.stdlib.mem.mem_ifcs import MemMasterIfcFL
from pymtl3.stdlib.mem.MagicMemoryCL import MagicMemoryCL
from pymtl3.stdlib.mem.MagicMemoryFL import MagicMemoryFL
from pymtl3.stdlib.mem.MemMsg import mk_mem_msg
class MasterFL(Component):
  def construct(s, script):
    s.mem = MemMasterIfcFL()
    s.out = []; s.fin = False
    @update_once
    def up_master():
      if not s.fin:
        for (kind, addr, n, v, amo) in script:
          if kind == 'wr': s.mem.write(addr, n, Bits(8 * n, v))
          elif kind == 'rd': s.out.append(s.mem.read(addr, n))
          else: s.out.append(s.mem.amo(amo, addr, n, Bits(8 * n, v)))
        s.fin = True
class FLTop(Component):
  def construct(s, kind, script, lat, stall):
    s.master = MasterFL(script)
    if kind == 'fl':
      s.mem = MagicMemoryFL(1 << 12); connect(s.master.mem, s.mem.ifc)
    else:
      s.mem = MagicMemoryCL(1, [mk_mem_msg(8, 32, 32)], stall, lat, 1 << 12); connect(s.master.mem, s.mem.ifc[0])
"""


def run_flmaster(sh, case):
  """a functional-level master (blocking read / write / amo calls of 1-4 bytes) on the FL memory and - through the adapter the
  library inserts - on the CL memory with latency and stalls: every call returns the value AND the width the one in-order memory
  of the reference returns (the bytes of the access, nothing more), on both memories alike"""
  from pymtl3 import DefaultPassGroup
  from vlib import specgen as G
  rng = sh.rng("flmaster", case)
  script, ref, exp = [], {}, []
  mem = bytearray(1 << 12)
  for _ in range(rng.randrange(6, 20)):
    n = rng.choice([1, 2, 3, 4]); addr = 0x10 + rng.randrange(0, 6) * 4 + (rng.randrange(0, 4 - n + 1) if n < 4 else 0)
    kind = rng.choice(["wr", "wr", "rd", "amo"]); v = rng.getrandbits(8 * n); amo = rng.choice(sorted(AMOS))
    script.append((kind, addr, n, v, amo))
    cur = int.from_bytes(mem[addr:addr + n], "little")
    if kind == "wr": mem[addr:addr + n] = v.to_bytes(n, "little")
    elif kind == "rd": exp.append((8 * n, cur))
    else:
      bits = 8 * n; k = AMOS[amo]; a = v
      r = {"add": (cur + a) & ((1 << bits) - 1), "and": cur & a, "or": cur | a, "xor": cur ^ a, "swap": a,
           "min": cur if s32(cur, bits) < s32(a, bits) else a, "max": cur if s32(cur, bits) > s32(a, bits) else a, "minu": min(cur, a), "maxu": max(cur, a)}[k]
      mem[addr:addr + n] = r.to_bytes(n, "little"); exp.append((bits, cur))
  mod = G.load_source(FLMASTER_SRC, "c18flm")
  try:
    for kind in ("fl", "cl"):
      lat, stall = rng.choice([1, 1, 2, 5]), rng.choice([0, 0, 0.3])
      try:
        top = mod.FLTop(kind, script, lat, stall); top.apply(DefaultPassGroup()); top.sim_reset()
        while not top.master.fin and top.sim_cycle_count() < 3000: top.sim_tick()
      except Exception as e:
        sh.violation("fl-master-run-raised", {"memory": kind, "error": f"{type(e).__name__}: {str(e)[:200]}", "script": script[:12]}, case=("flmaster", case)); return
      got = [(x.nbits, int(x)) for x in top.master.out]
      sh.count("fl_master_runs"); sh.count("fl_master_returns_checked", len(got)); sh.count("responses_checked", len(got))
      if not top.master.fin: sh.inconclusive("fl-master-did-not-finish"); return
      if got != exp:
        k = next((i for i, (a, b) in enumerate(zip(got, exp)) if a != b), min(len(got), len(exp)))
        rets = [x for x in script if x[0] != "wr"]
        sh.violation("fl-master-call-returns-other-value-or-width-than-the-in-order-memory", {"memory": kind + (" (through the FL-to-CL adapter)" if kind == "cl" else ""), "call": rets[k] if k < len(rets) else None,
                     "returned(nbits, value)": got[k] if k < len(got) else None, "expected(nbits, value)": exp[k] if k < len(exp) else None, "latency": lat, "stall": stall}, case=("flmaster", case)); return
  finally:
    G.unload(mod)


def run_shard(sh):
  run_image_api(sh, sh.rng("image-api"))
  for fc in range(3 if sh.tier == "quick" else 30): run_flmaster(sh, sh.idx * 100 + fc)
  for case in range(sh.params["configs"]):
    if sh.only is not None and str(case) != str(sh.only).strip('"'):
      continue
    run_config(sh, sh.rng("cfg", case), case)
  if sh.params["part"] == 0:
    # probe stream for listed findings (directed, deterministic)
    for k in range(3):
      run_config(sh, sh.rng("probe-M1", k), 1000 + k, probe="F-M1")
      run_config(sh, sh.rng("probe-M2", k), 2000 + k, probe="F-M2")
