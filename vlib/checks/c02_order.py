"""C02 - within a cycle every reader runs after its writer, in every scheduler."""
from vlib import specgen as G, schedcheck, simmon

PROPERTY = "C02"
LEVEL = "exploration"
RULE = ("case = one generated acyclic design run under the five pass groups (schedules the passes themselves emit: RNG seed, "
        "hash seed, heap layout varied); the sys.monitoring invocation trace of every evaluation pass is judged by (1) the "
        "positional oracle: for every pair (A writes bit b, B reads bit b) derived from the generator's bit-level read/write sets "
        "and union-find nets pos(A)<pos(B), every block exactly once; (2) the stale-read probe: values a block found in its read set "
        "at PY_START equal the final values of that pass. distinct_nontrivial = designs with >= 1 required ordered pair")
ASSUMPTIONS = [
  "read/write sets are the syntactic occurrences of the generated source (the same notion pymtl3 documents), computed by vlib/specgen, never taken from pymtl3 metadata",
  "only schedules produced by the passes themselves are judged (no injected schedules: they come from pymtl3's own constraints and would make the oracle circular)",
]
PASS_MODES = ["default", "simple", "unroll", "heutopo", "mamba"]


def plan(tier, seed):
  q = tier == "quick"
  return [{"hashseed": (seed * 29 + i) % 1013, "heap_pad": (i * 613 + seed * 71) % 7000, "noaslr": i % 2 == 1,
           "designs": 40 if q else 400, "greenlet": 8 if q else 120} for i in range(16)]


def thresholds(tier):
  t = {"designs": 150, "ordered_pairs_checked": 3000, "discriminating_stale_read_comparisons": 1000, "passes_checked": 5000,
       "designs_with_pairs": 100, "rejections_checked": 16, "greenlet_orderings_checked": 2000, "greenlet_designs": 60, "explicit_constraints_checked": 2000}
  if tier == "thorough":
    t = {k: v * 15 for k, v in t.items()}
    t["rejections_checked"] = 100          # the rejection stream has a fixed size per shard
  return t


def knobs_for(rng):
  return {"depth": rng.choice([0, 1, 1, 2]), "max_children": rng.choice([1, 2, 3]), "p_ff": rng.choice([0.1, 0.3]),
          "p_split": rng.choice([0.4, 0.7]), "p_struct": 0.35, "max_sigs": rng.choice([3, 5]), "expr_depth": 2,
          "p_connect": rng.choice([0.2, 0.45]), "p_nested_field": rng.choice([0, 0.3]), "p_list_field": rng.choice([0, 0.3]), "p_constraints": 0.6}


CYCLE_SRC = '''
from pymtl3 import *
class CycTop(Component):
  def construct(s):
    s.in_ = InPort(8); s.a = Wire(8); s.b = Wire(8); s.c = Wire(8)
    @update
    def up_a(): s.a @= s.in_
    @update
    def up_b(): s.b @= s.in_ + 1
    @update
    def up_c(): s.c @= s.in_ + 2
    s.add_constraints( %s )
'''


def check_rejection(sh, rng):
  """a pure constraint cycle (no value-carrying signal involved) must be rejected by every pass group"""
  cons = rng.choice(["U(up_a) < U(up_b), U(up_b) < U(up_a)", "U(up_a) < U(up_b), U(up_b) < U(up_c), U(up_c) < U(up_a)",
                     "U(up_c) < U(up_a), U(up_a) < U(up_c)"])
  mod = G.load_source(CYCLE_SRC % cons, "c02cyc")
  try:
    for mode in PASS_MODES:
      top = mod.CycTop()
      try:
        simmon.apply_mode(top, mode, rng)
        top.in_ @= 1
        top.sim_eval_combinational()
        sh.violation("pure-constraint-cycle-was-scheduled-instead-of-rejected", {"constraints": cons, "mode": mode})
      except Exception as e:
        sh.count("rejections_checked"); sh.count("rejection:" + type(e).__name__)
  finally:
    G.unload(mod)


# ---------------------------------------------------------------------------
# FL / greenlet stream: blocks that call @blocking methods are wrapped into greenlets by WrapGreenletPass; the ordering
# constraints (through signals, overlapping slices, explicit U<U) must survive the wrapping for 0, 1 or 2 wrapped endpoints
# ---------------------------------------------------------------------------

def gen_greenlet_design(rng):
  npairs = rng.randrange(2, 7)
  L = ["from pymtl3 import *", "LOG = []", "class Chan(Component):", "  @blocking", "  def get(s):", "    s.count += 1", "    return s.base + s.count",
       "  def construct(s, base):", "    s.base = base; s.count = 0", ""]
  req = []        # (pair idx, first block, second block, kind)
  L += ["class GTop(Component):", "  def construct(s):"]
  for i in range(npairs):
    nblk = rng.randrange(2, 5)              # chain of blocks b0 -> b1 -> ... through signals
    wrap = [rng.random() < 0.7 for _ in range(nblk)]
    L.append(f"    s.ch{i} = [Chan({10 * i} + k) for k in range({nblk})]")
    for k in range(nblk):
      L.append(f"    s.w{i}_{k} = Wire(Bits16)")
    for k in range(nblk):
      L.append("    @update_once")
      L.append(f"    def p{i}_b{k}():")
      L.append(f"      LOG.append(({i}, {k}))")
      if wrap[k]:
        L.append(f"      x = s.ch{i}[{k}].get()")
      else:
        L.append(f"      x = {k + 1}")
      if k == 0:
        L.append(f"      s.w{i}_0 @= x")
      else:
        how = rng.randrange(3)
        if how == 0:   L.append(f"      s.w{i}_{k} @= s.w{i}_{k - 1} + x")
        elif how == 1: L.append(f"      s.w{i}_{k}[0:8] @= s.w{i}_{k - 1}[4:12]"); L.append(f"      s.w{i}_{k}[8:16] @= 0")
        else:          L.append(f"      s.w{i}_{k} @= zext(s.w{i}_{k - 1}[8:16], 16) + x")
        req.append((i, k - 1, k, "data"))
    # a pair ordered only by an explicit constraint
    ea, eb = rng.random() < 0.7, rng.random() < 0.7
    for nm, wr in (("ea", ea), ("eb", eb)):
      L.append("    @update_once")
      L.append(f"    def p{i}_{nm}():")
      L.append(f"      LOG.append(({i}, '{nm}'))")
      L.append(f"      x = s.ch{i}[0].get()" if wr else "      x = 0")
    first, second = ("ea", "eb") if rng.random() < 0.5 else ("eb", "ea")
    L.append(f"    s.add_constraints( U(p{i}_{first}) < U(p{i}_{second}) )")
    req.append((i, first, second, "explicit"))
  return "\n".join(L) + "\n", req, npairs


def run_greenlet_case(sh, case):
  rng = sh.rng("greenlet", case)
  src, req, npairs = gen_greenlet_design(rng)
  mod = G.load_source(src, "c02g")
  try:
    for mode in ("default", "simple", "mamba"):
      top = mod.GTop()
      try:
        simmon.apply_mode(top, mode, rng)
      except Exception as e:
        sh.violation("scheduler-raised-on-legal-FL-design", {"mode": mode, "error": repr(e)[:300], "source": src}, case=("greenlet", case)); continue
      for cyc in range(3):
        del mod.LOG[:]
        try:
          top.sim_tick()
        except Exception as e:
          sh.violation("simulation-raised-on-legal-FL-design", {"mode": mode, "error": repr(e)[:300], "source": src}, case=("greenlet", case)); break
        log = list(mod.LOG)
        pos = {}
        for idx, ent in enumerate(log):
          if ent in pos:
            sh.violation("block-executed-twice-in-a-tick", {"mode": mode, "block": ent, "source": src}, case=("greenlet", case))
          pos[ent] = idx
        for (i, a, b, kind) in req:
          sh.count("greenlet_orderings_checked")
          if (i, a) not in pos or (i, b) not in pos:
            sh.violation("block-not-executed-in-a-tick", {"mode": mode, "pair": i, "blocks": [a, b], "source": src}, case=("greenlet", case)); break
          if pos[(i, a)] > pos[(i, b)]:
            sh.violation("ordering-lost-for-blocks-that-call-blocking-methods", {"mode": mode, "pair": i, "first": a, "second": b, "kind": kind,
                         "cycle": cyc, "observed_order": [e for e in log if e[0] == i], "source": src}, case=("greenlet", case)); break
      sh.count("greenlet_mode_runs")
  finally:
    G.unload(mod)
  sh.count("greenlet_designs"); sh.fp("greenlet", src)


def run_shard(sh):
  for case in range(sh.params.get("greenlet", 6)):
    run_greenlet_case(sh, case)
  for case in range(sh.params["designs"]):
    if sh.only is not None and str(case) != str(sh.only).strip('"'):
      continue
    rng = sh.rng("design", case)
    d = G.generate(rng, knobs_for(rng))
    st = schedcheck.run_design(sh, d, rng, case, PASS_MODES, rng.randrange(5, 10), {"order", "stale"}, "c02",
                               reps={"simple": 2, "unroll": 2})
    if st is None: continue
    sh.count("designs"); sh.count("evaluations")
    for k in ("explicit_constraints_checked", "ordered_pairs_checked", "discriminating_stale_read_comparisons", "stale_read_comparisons", "passes_checked", "mode_runs"):
      sh.count(k, st[k])
    sh.count("observed_schedules_total", st["distinct_schedules"])
    if st["pairs"]:
      sh.count("designs_with_pairs"); sh.fp(G.emit(d))
    if case < 1:
      sh.sample({"design_source_head": G.emit(d)[:1200], "required_pairs": st["pairs"], "distinct_schedules_observed": st["distinct_schedules"]})
  rng = sh.rng("rej")
  for _ in range(2):
    check_rejection(sh, rng)
