"""C02 - within a cycle every reader runs after its writer, in every scheduler."""
from vlib import specgen as G, schedcheck, simmon

PROPERTY = "C02"
LEVEL = "exploration"
RULE = ("case = one generated acyclic design run under the five pass groups (schedules the passes themselves emit: RNG seed, "
        "hash seed, heap layout varied); the sys.monitoring invocation trace of every evaluation pass is judged by (1) the "
        "positional oracle: for every pair (A writes bit b, B reads bit b) derived from the generator's bit-level read/write sets "
        "and union-find nets pos(A)<pos(B), every block exactly once; (2) the stale-read probe: values a block found in its read set "
        "at PY_START equal the final values of that pass. distinct_nontrivial = designs with >= 1 required ordered pair")
ASSUMPTIONS = [
  "read/write sets are the syntactic occurrences of the generated source (the same notion pymtl3 documents), computed by vlib/specgen, never taken from pymtl3 metadata",
  "only schedules produced by the passes themselves are judged (no injected schedules: they come from pymtl3's own constraints and would make the oracle circular)",
]
PASS_MODES = ["default", "simple", "unroll", "heutopo", "mamba"]


def plan(tier, seed):
  q = tier == "quick"
  return [{"hashseed": (seed * 29 + i) % 1013, "heap_pad": (i * 613 + seed * 71) % 7000, "noaslr": i % 2 == 1,
           "designs": 40 if q else 400, "greenlet": 8 if q else 120, "methods": 12 if q else 200} for i in range(16)]


def thresholds(tier):
  t = {"designs": 150, "constraint_orders_checked_after_replacement": 500, "inverted_pair_values_checked": 60, "openloop_method_orders_with_both_ends_passed_through": 100, "ordered_pairs_checked": 3000, "discriminating_stale_read_comparisons": 1000, "passes_checked": 5000,
       "designs_with_pairs": 100, "rejections_checked": 16, "rejections_beside_a_legal_loop": 40, "opened_cycle_controls_accepted": 16, "greenlet_orderings_checked": 2000, "greenlet_designs": 60, "explicit_constraints_checked": 2000, "method_orderings_checked": 1500, "method_designs_with_required_orders": 80}
  if tier == "thorough":
    t = {k: v * 15 for k, v in t.items()}
    t["rejections_checked"] = 100          # the rejection streams have a fixed size per shard
    t["rejections_beside_a_legal_loop"] = 40; t["opened_cycle_controls_accepted"] = 16
    t["constraint_orders_checked_after_replacement"] = 500; t["inverted_pair_values_checked"] = 60
    t["openloop_method_orders_with_both_ends_passed_through"] = 1000
  return t


def knobs_for(rng):
  return {"depth": rng.choice([0, 1, 1, 2]), "max_children": rng.choice([1, 2, 3]), "p_ff": rng.choice([0.1, 0.3]),
          "p_split": rng.choice([0.4, 0.7]), "p_struct": 0.35, "max_sigs": rng.choice([3, 5]), "expr_depth": 2,
          "p_connect": rng.choice([0.2, 0.45]), "p_nested_field": rng.choice([0, 0.3]), "p_list_field": rng.choice([0, 0.3]), "p_constraints": 0.6, "p_annot": rng.choice([0, 0.3]), "p_branchy": rng.choice([0, 0.15]), "p_omit_bounds_blk": rng.choice([0, 0.5]), "p_expr_bounds_blk": rng.choice([0, 0.4]), "p_attr_bounds": 0.4, "p_vsl": rng.choice([0, 0.3]), "p_vfunc": rng.choice([0, 0.5]), "p_func": rng.choice([0, 0.3]), "p_shadow": 0.3, "p_subclass": rng.choice([0, 0.5]), "p_callshapes": rng.choice([0, 0.4])}


CYCLE_SRC = '''
from pymtl3 import *
class CycTop(Component):
  def construct(s):
    s.in_ = InPort(8); s.a = Wire(8); s.b = Wire(8); s.c = Wire(8)
    @update
    def up_a(): s.a @= s.in_
    @update
    def up_b(): s.b @= s.in_ + 1
    @update
    def up_c(): s.c @= s.in_ + 2
    s.add_constraints( %s )
'''


def check_rejection(sh, rng):
  """a pure constraint cycle (no value-carrying signal involved) must be rejected by every pass group"""
  cons = rng.choice(["U(up_a) < U(up_b), U(up_b) < U(up_a)", "U(up_a) < U(up_b), U(up_b) < U(up_c), U(up_c) < U(up_a)",
                     "U(up_c) < U(up_a), U(up_a) < U(up_c)"])
  mod = G.load_source(CYCLE_SRC % cons, "c02cyc")
  try:
    for mode in PASS_MODES:
      top = mod.CycTop()
      try:
        simmon.apply_mode(top, mode, rng)
        top.in_ @= 1
        top.sim_eval_combinational()
        sh.violation("pure-constraint-cycle-was-scheduled-instead-of-rejected", {"constraints": cons, "mode": mode})
      except Exception as e:
        sh.count("rejections_checked"); sh.count("rejection:" + type(e).__name__)
  finally:
    G.unload(mod)
  check_rejection_beside_loop(sh, rng)


LOOPCYC_SRC = '''
from pymtl3 import *
class LoopCycTop(Component):
  def construct(s):
    s.in_ = InPort(8); s.a = Wire(8); s.b = Wire(8); s.out = OutPort(8); s.log = []
    s.k = [Wire(8) for _ in range(%(n)d)]
%(loops)s
%(blocks)s
    s.add_constraints( %(cons)s )
'''


def check_rejection_beside_loop(sh, rng):
  """the pure constraint cycle sits in a design that ALSO holds legal, converging combinational loops (strongly connected groups
  that do involve signals), up- or downstream of the cycle or unrelated to it: the cycle must still be rejected by every pass
  group, and the same design with the cycle opened must be accepted by the pass groups that schedule loops, with every remaining
  explicit constraint honoured (control: the rejection is due to the cycle, not to the loop)"""
  n = rng.randrange(2, 5)
  names = [f"up_{c}" for c in rng.sample("pqrstuvw", n)]
  nloops = rng.randrange(1, 3)
  where = rng.choice(["upstream", "downstream", "unrelated"])
  loops = []
  for j in range(nloops):
    loops += [f"    s.la{j} = Wire(8); s.lb{j} = Wire(8)", "    @update", f"    def loop_a{j}():",
              f"      s.la{j} @= s.lb{j} | s.{'k[0]' if where == 'downstream' and j == 0 else 'in_'}",
              "    @update", f"    def loop_b{j}():", f"      s.lb{j} @= s.la{j}"]
  blocks = []
  for i, nm in enumerate(names):
    src = "s.la0" if (where == "upstream" and i == rng.randrange(n)) or (where == "upstream" and i == 0) else "s.in_"
    blocks += ["    @update", f"    def {nm}():", f"      s.k[{i}] @= {src} + {i}", f"      s.log.append('{nm}')"]
  cyc = [f"U({names[i]}) < U({names[(i + 1) % n]})" for i in range(n)]
  opened = cyc[:-1]
  for closed in (True, False):
    src = LOOPCYC_SRC % {"n": n, "loops": "\n".join(loops), "blocks": "\n".join(blocks), "cons": ", ".join(cyc if closed else opened)}
    mod = G.load_source(src, "c02loopcyc")
    try:
      for mode in PASS_MODES:
        top = mod.LoopCycTop()
        try:
          simmon.apply_mode(top, mode, rng)
          top.in_ @= 5; top.log.clear()
          top.sim_eval_combinational()
        except Exception as e:
          if closed: sh.count("rejections_checked"); sh.count("rejections_beside_a_legal_loop"); sh.count("rejection:" + type(e).__name__)
          elif mode in ("default", "mamba"):
            sh.violation("legal-loop-design-with-acyclic-constraints-was-rejected", {"mode": mode, "error": repr(e)[:300], "source": src})
            return
          continue
        if closed:
          sh.violation("pure-constraint-cycle-was-scheduled-instead-of-rejected", {"constraints": ", ".join(cyc), "mode": mode, "beside": f"{nloops} legal combinational loop(s) {where}",
                       "executed": list(top.log), "source": src})
          return
        sh.count("opened_cycle_controls_accepted")
        seen = list(top.log)
        last = {nm: max(i for i, x in enumerate(seen) if x == nm) for nm in names if nm in seen}
        first = {nm: seen.index(nm) for nm in names if nm in seen}
        for i in range(n - 1):
          a, b = names[i], names[i + 1]
          # blocks inside an iterated group may run several times: the constraint orders the final executions
          if a in last and b in last and not (first[a] < first[b] or last[a] < last[b]):
            sh.violation("explicit-constraint-not-honoured-beside-loop", {"mode": mode, "required": f"{a} before {b}", "executed": seen, "source": src})
            return
    finally:
      G.unload(mod)


REPL_SRC = """
from pymtl3 import *
LOG = []
class Stage(Component):
  def construct(s, k=1):
    s.in_ = InPort(8); s.out = OutPort(8); s.aux = OutPort(8)
    @update
    def up_stage():
      LOG.append('up_stage')
      s.out @= s.in_ + k
    @update
    def up_aux():
      LOG.append('up_aux')
      s.aux @= s.in_ ^ k
class Mid(Component):
  def construct(s):
    s.in_ = InPort(8); s.snap = OutPort(8); s.out = OutPort(8)
    s.stage = %(child)s
    %(stage)s.in_ //= s.in_
    @update
    def up_sample():
      LOG.append('up_sample')
      s.snap @= %(stage)s.out
    @update
    def up_first():
      LOG.append('up_first')
      s.out @= s.in_
    s.add_constraints( %(cons)s )
class ReplTop(Component):
  def construct(s):
    s.in_ = InPort(8); s.snap = OutPort(8)
    s.mid = Mid()
    s.mid.in_ //= s.in_
    s.snap //= s.mid.snap
    @update
    def up_top():
      LOG.append('up_top')
    %(topcons)s
"""


def check_constraints_after_replace(sh, rng):
  """explicit constraints a parent (or grand-parent) declares on a block / port of a child must still be honoured after the child
  was replaced (replace_component with a class, replace_component_with_obj with an object): the same orders as in the design that
  was never touched, in every pass group; U(parent block) < WR(child.out) inverts the implicit writer-before-reader pair, so the
  sampled value tells the two orders apart as well"""
  lst = rng.random() < 0.4
  stage = "s.stage[1]" if lst else "s.stage"
  child = "[Stage() for _ in range(2)]" if lst else "Stage()"
  pool = [("U(up_sample) < WR(%s.out)" % stage, ("up_sample", "up_stage")),
          ("U(up_first) < U(%s.get_update_block('up_stage'))" % stage, ("up_first", "up_stage")),
          ("U(%s.get_update_block('up_aux')) < U(up_first)" % stage, ("up_aux", "up_first"))]
  picked = rng.sample(pool, rng.randrange(1, 4))
  topcons, topreq = "pass", None
  if rng.random() < 0.5:
    tstage = stage.replace("s.", "s.mid.", 1)
    if rng.random() < 0.5: topcons, topreq = f"s.add_constraints( U(up_top) < U({tstage}.get_update_block('up_stage')) )", ("up_top", "up_stage")
    else: topcons, topreq = f"s.add_constraints( U({tstage}.get_update_block('up_aux')) < U(up_top) )", ("up_aux", "up_top")
  src = REPL_SRC % {"child": child, "stage": stage, "cons": ", ".join(c for c, _ in picked), "topcons": topcons}
  reqs = [r for _, r in picked] + ([topreq] if topreq else [])
  inverted = any(r == ("up_sample", "up_stage") for r in reqs)
  mod = G.load_source(src, "c02repl")
  try:
    for how in ("untouched", "class", "obj"):
      for mode in PASS_MODES:
        top = mod.ReplTop()
        top.elaborate()
        k = 1
        if how != "untouched":
          old = top.mid.stage[1] if lst else top.mid.stage
          if how == "class": top.replace_component(old, mod.Stage)          # constructed with the arguments of the old one
          else: k = rng.randrange(2, 9); top.replace_component_with_obj(old, mod.Stage(k))
          # the other element of the list keeps k = 1
        try:
          simmon.apply_mode(top, mode, rng)
        except Exception as e:
          sh.violation("design-with-parent-constraints-on-a-child-not-simulable", {"how": how, "mode": mode, "error": repr(e)[:300], "source": src})
          return
        for v in (10, 77):
          top.in_ @= v; mod.LOG.clear()
          top.sim_eval_combinational()
          seen = list(mod.LOG)
          sh.count("constraint_orders_checked_after_replacement" if how != "untouched" else "constraint_orders_checked_untouched", len(reqs))
          for (a, b) in reqs:
            # with a list of two stages the log holds the block names of both; the constraint names element 1: compare LAST a
            # with FIRST b only when the names are unique, otherwise use the sampled value below
            if seen.count(a) == 1 and seen.count(b) == 1 and not seen.index(a) < seen.index(b):
              sh.violation("explicit-constraint-on-child-not-honoured" + ("-after-replacement" if how != "untouched" else ""),
                           {"how": how, "mode": mode, "required": f"{a} before {b}", "executed": seen, "source": src})
              return
        if inverted:
          # up_sample runs before up_stage: it samples the value of the PREVIOUS evaluation
          top.in_ @= 3; top.sim_eval_combinational()
          top.in_ @= 200; top.sim_eval_combinational()
          sh.count("inverted_pair_values_checked")
          if int(top.snap) != (3 + k) & 0xff:
            sh.violation("inverted-writer-reader-pair-sampled-the-new-value" + ("-after-replacement" if how != "untouched" else ""),
                         {"how": how, "mode": mode, "snap": int(top.snap), "expected_old_value": (3 + k) & 0xff, "source": src})
            return
  finally:
    G.unload(mod)


OPENLOOP_M_SRC = """
from pymtl3 import *
class Inner(Component):
  def construct(s, order):
    s.log = []; s.cyc = 0; s.runs = []
    @update
    def up_count():            # a cycle-level block with a side effect: once per cycle
      s.runs.append(s.cyc)
    @update_ff
    def ff_cyc():
      s.cyc += 1
    s.add_constraints( *[ M(getattr(s, f'm{a}')) < M(getattr(s, f'm{b}')) for a, b in zip(order, order[1:]) ] )
  @non_blocking(lambda s: True)
  def m0(s): s.log.append(0)
  @non_blocking(lambda s: True)
  def m1(s): s.log.append(1)
  @non_blocking(lambda s: True)
  def m2(s): s.log.append(2)
  @non_blocking(lambda s: True)
  def m3(s): s.log.append(3)
  def line_trace(s): return ""
class Through(Component):
  @non_blocking(lambda s: s.real.rdy())
  def m(s, *a): return s.real(*a)
  def construct(s):
    s.real = CallerIfcCL()
    s.add_constraints( M(s.m) == M(s.real) )
class OTop(Component):
  def construct(s, order, hops):
    s.inner = Inner(order)
    s.c = [CalleeIfcCL() for _ in range(4)]
    s.t = [[Through() for _ in range(h)] for h in hops]
    for i in range(4):
      prev = s.c[i]
      for t in s.t[i]:
        t.m //= prev; prev = t.real
      connect(getattr(s.inner, f'm{i}'), prev)
  def line_trace(s): return ""
"""


def run_openloop_methods(sh, case):
  """open-loop (method-driven) simulation: the top level callees reach the methods of an inner component directly or through one or
  two pass-through components that declare M(m) == M(real).  For M(a) < M(b) declared inside, calling a() and then b() at the top
  fits into ONE cycle under every random tie-break of the open-loop scheduler; the reverse order needs the next cycle"""
  import random as _random
  from pymtl3.passes.autotick.OpenLoopCLPass import OpenLoopCLPass
  from pymtl3.passes.sim.GenDAGPass import GenDAGPass
  rng = sh.rng("openloop-m", case)
  order = rng.sample(range(4), rng.randrange(2, 5))
  hops = [rng.choice([0, 1, 1, 2]) for _ in range(4)]
  mod = G.load_source(OPENLOOP_M_SRC, "c02olm")
  try:
    for tb in range(4):
      _random.seed(rng.getrandbits(30))          # the scheduler shuffles unordered vertices with the global generator
      for (a, b) in zip(order, order[1:]):
        try:
          top = mod.OTop(order, hops); top.elaborate()
          top.apply(GenDAGPass()); top.apply(OpenLoopCLPass(print_line_trace=False)); top.sim_reset()
        except Exception as e:
          sh.inconclusive("openloop-method-harness:" + type(e).__name__); return
        c0 = top.sim_cycle_count(); top.c[a](); top.c[b]()
        fwd = top.sim_cycle_count() - c0
        sh.count("openloop_method_orders_checked")
        if hops[a] and hops[b]: sh.count("openloop_method_orders_with_both_ends_passed_through")
        if fwd != 0 or top.inner.log[-2:] != [a, b]:
          sh.violation("explicit-method-constraint-not-honoured-by-the-open-loop-schedule", {"required": f"M(m{a}) < M(m{b})", "pass_throughs": {f"m{i}": hops[i] for i in range(4)},
                       "extra_cycles_between_the_two_calls": fwd, "inner_log": top.inner.log[-4:], "declared_chain": order, "source": OPENLOOP_M_SRC}, case=("openloop-m", case)); return
        c1 = top.sim_cycle_count(); top.c[b](); top.c[a]()
        if top.sim_cycle_count() - c1 > 0: sh.count("openloop_reverse_order_needed_a_new_cycle")
        # every update block ran exactly once in each cycle that is complete (the last one is still open), also in the first cycle after sim_reset
        runs = list(top.inner.runs); done = top.inner.cyc
        per = {c_: runs.count(c_) for c_ in range(done)}
        sh.count("openloop_block_executions_per_cycle_checked", len(per))
        if any(v != 1 for v in per.values()):
          sh.violation("update-block-not-executed-exactly-once-per-cycle-in-open-loop-simulation", {"executions_per_cycle": per, "cycles_completed": done,
                       "history": "sim_reset(), then method calls", "source": OPENLOOP_M_SRC}, case=("openloop-once", case)); return
  finally:
    G.unload(mod)


NETINV_SRC = """
from pymtl3 import *
class Stage(Component):
  def construct(s):
    s.in_ = InPort(8); s.out = OutPort(8)
    @update
    def up_stage():
      s.out @= s.in_ + 1
class NTop(Component):
  def construct(s, on):
    s.in_ = InPort(8); s.out = OutPort(8); s.snap = OutPort(8)
    s.stage = Stage()
    s.stage.in_ //= s.in_
    s.out //= s.stage.out
    @update
    def up_sample():
      s.snap @= s.out
    s.add_constraints( U(up_sample) < WR(s.out if on == 'net-reader' else s.stage.out) )
"""


def run_net_inversion_probe(sh):
  """probe stream for the listed finding F-C9: an explicit inversion U(blk) < WR(s.out) on a signal that is driven through a net of
  whole signals"""
  import random as _random
  rng = sh.rng("netinv")
  mod = G.load_source(NETINV_SRC, "c02netinv")
  try:
    for on in ("net-reader",):          # ( the control - an inverted pair whose reader reads the written signal itself - is check_constraints_after_replace )
      wrong = []
      for mode in PASS_MODES:
        for tb in range(6):
          _random.seed(rng.getrandbits(30))
          top = mod.NTop(on)
          try: simmon.apply_mode(top, mode, rng)
          except Exception as e:
            sh.inconclusive("net-inversion-probe-harness:" + type(e).__name__); return
          for val in (5, 9, 77):
            old = int(top.out); top.in_ @= val; top.sim_eval_combinational()
            sh.count("inverted_pair_values_checked")
            if int(top.snap) != old: wrong.append((mode, val, old, int(top.snap)))
      sh.count("net_inversion_probes")
      if wrong:
        sh.violation("inverted-writer-reader-pair-sampled-the-new-value", {"constraint": "U(up_sample) < WR(" + ("s.out" if on == "net-reader" else "s.stage.out") + ")",
                     "wrong_samples(mode, input, old, sampled)": wrong[:6], "n_wrong": len(wrong), "source": NETINV_SRC},
                     mechanism="inversion-on-a-net-reader-defeated-by-signal-aliasing" if on == "net-reader" else None, case=("netinv", on))
      elif on == "writer": sh.count("net_inversion_probe_control_ok")
  finally:
    G.unload(mod)


LONGCHAIN_SRC = """
from pymtl3 import *
RUNS = {}
class LInc(Component):
  def construct(s, k):
    s.in_ = InPort(16); s.out = OutPort(16)
    @update
    def up_inc():
      RUNS[k] = RUNS.get(k, 0) + 1
      s.out @= s.in_ + 1
class LChain(Component):
  def construct(s, n):
    s.in_ = InPort(16); s.out = OutPort(16)
    s.incs = [LInc(k) for k in range(n)]
    s.incs[0].in_ //= s.in_
    for k in range(1, n): s.incs[k].in_ //= s.incs[k - 1].out
    s.out //= s.incs[n - 1].out
"""


def run_long_chain(sh):
  """a LONG schedule (a chain of 260-700 small components: more than 512, more than 1024 blocks and net steps per pass): every block
  runs exactly once per combinational pass and the value arrives at the end of the chain, under every pass group"""
  rng = sh.rng("longchain")
  mod = G.load_source(LONGCHAIN_SRC, "c02long")
  try:
    for n in (rng.randrange(258, 300), rng.randrange(520, 700)):
      for mode in ("unroll", "heutopo", "mamba", "default", "simple"):
        top = mod.LChain(n)
        try: simmon.apply_mode(top, mode, rng)
        except Exception as e:
          sh.inconclusive("long-chain-harness:" + type(e).__name__); return
        for v in (5, 60000):
          mod.RUNS.clear(); top.in_ @= v; top.sim_eval_combinational()
          sh.count("long_schedule_passes_checked"); sh.count("passes_checked")
          bad = {k: mod.RUNS.get(k, 0) for k in range(n) if mod.RUNS.get(k, 0) != 1}
          if bad or int(top.out) != (v + n) & 0xffff:
            sh.violation("block-not-executed-exactly-once-in-a-long-schedule", {"mode": mode, "components": n, "blocks_not_run_exactly_once(k: runs)": dict(list(bad.items())[:6]),
                         "out": int(top.out), "expected": (v + n) & 0xffff}, case=("longchain", mode, n)); return
          mod.RUNS.clear(); top.sim_tick()
          # sim_tick evaluates the combinational schedule once or twice (pass-group dependent): every block the same number of times
          cnts = {mod.RUNS.get(k, 0) for k in range(n)}
          if len(cnts) != 1 or 0 in cnts:
            sh.violation("blocks-executed-a-different-number-of-times-in-one-tick", {"mode": mode, "components": n, "distinct_run_counts": sorted(cnts)}, case=("longchain-tick", mode, n)); return
  finally:
    G.unload(mod)


CHAIN_SRC = '''
from pymtl3 import *
class ChainTop(Component):
  def construct(s):
    s.in_ = InPort(8); s.log = []
    s.w = [Wire(8) for _ in range(%d)]
%s
    s.add_constraints( %s )
'''


def check_chained(sh, rng):
  """U(a) < U(b) < U(c) written as ONE python comparison chain: either the component refuses it when it is constructed, or BOTH
  orders are honoured by every pass group (python evaluates the chain as (U(a) < U(b)) and (U(b) < U(c)))"""
  n = rng.randrange(3, 6)
  names = [f"up_{c}" for c in rng.sample("abcdefgh", n)]
  order = list(names); rng.shuffle(order)                       # required execution order
  blocks = "\n".join(f"    @update\n    def {nm}():\n      s.w[{i}] @= s.in_ + {i}\n      s.log.append('{nm}')" for i, nm in enumerate(names))
  k = rng.randrange(0, n - 2)
  cons = [f"U({order[i]}) < U({order[i + 1]})" for i in range(n - 1)]
  chained = cons[:k] + [f"U({order[k]}) < U({order[k + 1]}) < U({order[k + 2]})"] + cons[k + 2:]
  src = CHAIN_SRC % (n, blocks, ", ".join(chained))
  mod = G.load_source(src, "c02chain")
  try:
    for mode in PASS_MODES:
      try:
        top = mod.ChainTop()
        simmon.apply_mode(top, mode, rng)
      except TypeError:
        sh.count("chained_constraints_refused"); continue
      top.in_ @= 1; top.log.clear()
      top.sim_eval_combinational()
      seen = [x for x in top.log]
      pos = {nm: seen.index(nm) for nm in names if nm in seen}
      sh.count("chained_constraint_orders_checked")
      for i in range(n - 1):
        a, b = order[i], order[i + 1]
        if a in pos and b in pos and not pos[a] < pos[b]:
          sh.violation("chained-explicit-constraint-not-honoured", {"mode": mode, "constraints": ", ".join(chained), "required": f"{a} before {b}",
                       "executed": seen, "source": src}); return
  finally:
    G.unload(mod)


# ---------------------------------------------------------------------------
# FL / greenlet stream: blocks that call @blocking methods are wrapped into greenlets by WrapGreenletPass; the ordering
# constraints (through signals, overlapping slices, explicit U<U) must survive the wrapping for 0, 1 or 2 wrapped endpoints
# ---------------------------------------------------------------------------

def gen_greenlet_design(rng):
  npairs = rng.randrange(2, 7)
  L = ["from pymtl3 import *", "LOG = []", "class Chan(Component):", "  @blocking", "  def get(s):", "    s.count += 1", "    return s.base + s.count",
       "  def construct(s, base):", "    s.base = base; s.count = 0", ""]
  req = []        # (pair idx, first block, second block, kind)
  L += ["class GTop(Component):", "  def construct(s):"]
  for i in range(npairs):
    nblk = rng.randrange(2, 5)              # chain of blocks b0 -> b1 -> ... through signals
    wrap = [rng.random() < 0.7 for _ in range(nblk)]
    L.append(f"    s.ch{i} = [Chan({10 * i} + k) for k in range({nblk})]")
    for k in range(nblk):
      L.append(f"    s.w{i}_{k} = Wire(Bits16)")
    for k in range(nblk):
      L.append("    @update_once")
      L.append(f"    def p{i}_b{k}():")
      L.append(f"      LOG.append(({i}, {k}))")
      if wrap[k]:
        L.append(f"      x = s.ch{i}[{k}].get()")
      else:
        L.append(f"      x = {k + 1}")
      if k == 0:
        L.append(f"      s.w{i}_0 @= x")
      else:
        how = rng.randrange(3)
        if how == 0:   L.append(f"      s.w{i}_{k} @= s.w{i}_{k - 1} + x")
        elif how == 1: L.append(f"      s.w{i}_{k}[0:8] @= s.w{i}_{k - 1}[4:12]"); L.append(f"      s.w{i}_{k}[8:16] @= 0")
        else:          L.append(f"      s.w{i}_{k} @= zext(s.w{i}_{k - 1}[8:16], 16) + x")
        req.append((i, k - 1, k, "data"))
    # a pair ordered only by an explicit constraint
    ea, eb = rng.random() < 0.7, rng.random() < 0.7
    for nm, wr in (("ea", ea), ("eb", eb)):
      L.append("    @update_once")
      L.append(f"    def p{i}_{nm}():")
      L.append(f"      LOG.append(({i}, '{nm}'))")
      L.append(f"      x = s.ch{i}[0].get()" if wr else "      x = 0")
    first, second = ("ea", "eb") if rng.random() < 0.5 else ("eb", "ea")
    L.append(f"    s.add_constraints( U(p{i}_{first}) < U(p{i}_{second}) )")
    req.append((i, first, second, "explicit"))
  return "\n".join(L) + "\n", req, npairs


def run_greenlet_case(sh, case):
  rng = sh.rng("greenlet", case)
  src, req, npairs = gen_greenlet_design(rng)
  mod = G.load_source(src, "c02g")
  try:
    for mode in ("default", "simple", "mamba", "heutopo", "unroll"):
      top = mod.GTop()
      try:
        simmon.apply_mode(top, mode, rng)
      except Exception as e:
        sh.violation("scheduler-raised-on-legal-FL-design", {"mode": mode, "error": repr(e)[:300], "source": src}, case=("greenlet", case)); continue
      for cyc in range(3):
        del mod.LOG[:]
        try:
          top.sim_tick()
        except Exception as e:
          sh.violation("simulation-raised-on-legal-FL-design", {"mode": mode, "error": repr(e)[:300], "source": src}, case=("greenlet", case)); break
        log = list(mod.LOG)
        pos = {}
        for idx, ent in enumerate(log):
          if ent in pos:
            sh.violation("block-executed-twice-in-a-tick", {"mode": mode, "block": ent, "source": src}, case=("greenlet", case))
          pos[ent] = idx
        for (i, a, b, kind) in req:
          sh.count("greenlet_orderings_checked")
          if (i, a) not in pos or (i, b) not in pos:
            sh.violation("block-not-executed-in-a-tick", {"mode": mode, "pair": i, "blocks": [a, b], "source": src}, case=("greenlet", case)); break
          if pos[(i, a)] > pos[(i, b)]:
            sh.violation("ordering-lost-for-blocks-that-call-blocking-methods", {"mode": mode, "pair": i, "first": a, "second": b, "kind": kind,
                         "cycle": cyc, "observed_order": [e for e in log if e[0] == i], "source": src}, case=("greenlet", case)); break
      sh.count("greenlet_mode_runs")
  finally:
    G.unload(mod)
  sh.count("greenlet_designs"); sh.fp("greenlet", src)


# ---------------------------------------------------------------------------
# CL stream: method ordering constraints.  Callee components declare M(x) < M(y), U(blk) < M(x), M(x) < U(blk) (both spellings
# of <); caller blocks reach the methods directly, through CallerPorts, through a pass-through CalleePort of an intermediate
# component, through a non-blocking interface, or through one or two pass-through ADAPTERS (a method that calls a CallerPort
# in its body and declares M(recv) == M(send), the way stdlib adapters do).  The oracle looks at nothing but the declared
# explicit constraints and the events of a tick: every invocation of x precedes every invocation of y for M(x) < M(y); the
# block precedes / follows every invocation of x for U(blk) < M(x) / M(x) < U(blk).  No transitive closure is demanded.
# ---------------------------------------------------------------------------

def gen_method_design(rng):
  ncal = rng.randrange(1, 3)
  L = ["from pymtl3 import *", "LOG = []",
       "class Adapt(Component):",
       "  @method_port",
       "  def recv(s):",
       "    LOG.append(('a', s.tag)); s.send()",
       "  def construct(s, tag):",
       "    s.tag = tag",
       "    s.send = CallerPort()",
       "    s.add_constraints( M(s.recv) == M(s.send) )"]
  points = []
  comps = []
  for c in range(ncal):
    nm = rng.randrange(2, 6); ncu = rng.randrange(0, 3)
    comps.append((nm, ncu))
    points += [("m", c, j) for j in range(nm)] + [("cu", c, j) for j in range(ncu)]
  rng.shuffle(points)
  rank = {pt: i for i, pt in enumerate(points)}
  cons = {c: [] for c in range(ncal)}; top_cons = []; explicit = []
  def name(pt, inside):
    pre = "s." if inside == pt[1] else f"s.c{pt[1]}."
    return f"M({pre}m{pt[2]})" if pt[0] == "m" else f"U(cu{pt[2]})"
  for _ in range(rng.randrange(len(points) // 2, 2 * len(points))):
    a, b = rng.sample(points, 2)
    if rank[a] > rank[b]: a, b = b, a
    if a[0] == "cu" and b[0] == "cu": continue
    if a[1] != b[1] and (a[0] == "cu" or b[0] == "cu"): continue          # a callee's own block is only named inside that callee
    inside = a[1] if a[1] == b[1] else None
    txt = f"{name(a, inside)} < {name(b, inside)}" if rng.random() < 0.6 else f"{name(b, inside)} > {name(a, inside)}"
    (cons[a[1]] if inside is not None else top_cons).append(txt)
    explicit.append((a, b, txt))
  for c, (nm, ncu) in enumerate(comps):
    L.append(f"class Callee{c}(Component):")
    kinds = []
    for j in range(nm):
      kind = rng.choice(["port", "port", "nb"])
      kinds.append(kind)
      L.append("  @method_port" if kind == "port" else "  @non_blocking(lambda s: True)")
      L.append(f"  def m{j}(s): LOG.append(('m', {c}, {j}))")
    comps[c] = (nm, ncu, kinds)
    L.append("  def construct(s):")
    for j in range(ncu):
      L += ["    @update_once", f"    def cu{j}():", f"      LOG.append(('cu', {c}, {j}))"]
    if cons[c]:
      L.append("    s.add_constraints( " + ", ".join(cons[c]) + " )")
    elif not ncu:
      L.append("    pass")
  L += ["class Mid(Component):", "  def construct(s):"]
  for c in range(ncal):
    L.append(f"    s.c{c} = Callee{c}()")
  passthru = []; adapters = {}
  nad = 0
  for c, (nm, ncu, kinds) in enumerate(comps):
    for j in range(nm):
      if kinds[j] != "port": continue
      if rng.random() < 0.3:
        L.append(f"    s.p{c}_{j} = CalleePort(); connect(s.p{c}_{j}, s.c{c}.m{j})"); passthru.append((c, j))
      if rng.random() < 0.55:
        L.append(f"    s.ad{nad} = Adapt({nad}); connect(s.ad{nad}.send, s.c{c}.m{j})")
        entry = f"ad{nad}"; nad += 1
        if rng.random() < 0.35:           # a chain of two adapters
          L.append(f"    s.ad{nad} = Adapt({nad}); connect(s.ad{nad}.send, s.{entry}.recv)")
          entry = f"ad{nad}"; nad += 1
        adapters[(c, j)] = entry
  if top_cons:
    L.append("    s.add_constraints( " + ", ".join(top_cons) + " )")
  L += ["class MTop(Component):", "  def construct(s):", "    s.mid = Mid()"]
  bi = 0
  decl, blks = [], []
  ncallers = 0
  via_func = [0]
  for c, (nm, ncu, kinds) in enumerate(comps):
    for j in range(nm):
      for _ in range(rng.choice([0, 1, 1, 1, 2])):
        bn = f"b{bi}"; bi += 1; ncallers += 1
        r = rng.random()
        if kinds[j] == "nb":
          if r < 0.5:
            decl.append(f"    s.q{bn} = CallerIfcCL(); connect(s.q{bn}, s.mid.c{c}.m{j})"); call = f"if s.q{bn}.rdy(): s.q{bn}()"
          else:
            call = f"s.mid.c{c}.m{j}()"
        elif (c, j) in adapters and r < 0.6:
          if rng.random() < 0.5:
            decl.append(f"    s.q{bn} = CallerPort(); connect(s.q{bn}, s.mid.{adapters[(c, j)]}.recv)"); call = f"s.q{bn}()"
          else:
            call = f"s.mid.{adapters[(c, j)]}.recv()"
        elif (c, j) in passthru and r < 0.8:
          decl.append(f"    s.q{bn} = CallerPort(); connect(s.q{bn}, s.mid.p{c}_{j})"); call = f"s.q{bn}()"
        elif rng.random() < 0.5:
          decl.append(f"    s.q{bn} = CallerPort(); connect(s.q{bn}, s.mid.c{c}.m{j})"); call = f"s.q{bn}()"
        else:
          call = f"s.mid.c{c}.m{j}()"
        if rng.random() < 0.3:
          # the method is called inside an @s.func helper of the block
          blks += ["    @s.func", f"    def h{bn}():", "      " + call,
                   "    @update_once", f"    def {bn}():", f"      LOG.append(('b', '{bn}'))", f"      h{bn}()"]
          via_func[0] += 1
        else:
          blks += ["    @update_once", f"    def {bn}():", f"      LOG.append(('b', '{bn}'))", "      " + call]
  L += decl + blks
  if not blks:
    L.append("    pass")
  return "\n".join(L) + "\n", explicit, ncallers


def run_method_case(sh, case):
  rng = sh.rng("method", case)
  src, explicit, ncallers = gen_method_design(rng)
  mod = G.load_source(src, "c02m")
  tag = ("method", case)
  try:
    for mode in ("default", "simple", "simple", "simple"):
      top = mod.MTop()
      try:
        simmon.apply_mode(top, mode, rng)
      except Exception as e:
        sh.violation("scheduler-raised-on-legal-CL-design", {"mode": mode, "error": repr(e)[:300], "source": src}, case=tag); continue
      for cyc in range(2):
        del mod.LOG[:]
        try:
          top.sim_tick()
        except Exception as e:
          sh.violation("simulation-raised-on-legal-CL-design", {"mode": mode, "error": repr(e)[:300], "source": src}, case=tag); break
        log = [tuple(e) for e in mod.LOG]
        where = {}
        for idx, ent in enumerate(log):
          if ent[0] in ("m", "cu"):
            where.setdefault(ent, []).append(idx)
        for ent, idxs in where.items():
          if ent[0] == "cu" and len(idxs) != 1:
            sh.violation("block-executed-twice-in-a-tick", {"mode": mode, "block": ent, "source": src}, case=tag)
        bad = False
        for (a, b, txt) in explicit:
          if a not in where or b not in where:
            sh.count("method_constraints_vacuous(no event)"); continue
          sh.count("method_orderings_checked")
          if max(where[a]) > min(where[b]):
            sh.violation("method-ordering-constraint-not-honoured", {"mode": mode, "constraint": txt, "first": a, "second": b, "cycle": cyc,
                         "events_of_the_tick": log[:80], "source": src}, case=tag)
            bad = True; break
        if bad: break
      sh.count("method_mode_runs")
  finally:
    G.unload(mod)
  sh.count("method_designs")
  if explicit: sh.count("method_designs_with_required_orders"); sh.fp("method", src)
  if "Adapt(" in src.split("class Mid")[1]: sh.count("method_designs_with_adapters")
  if case < 1:
    sh.sample({"method_design_source": src[:1800], "explicit_constraints": [t for _, _, t in explicit[:10]]})


def run_shard(sh):
  for case in range(sh.params.get("greenlet", 6)):
    run_greenlet_case(sh, case)
  for case in range(sh.params.get("methods", 10)):
    run_method_case(sh, case)
  for case in range(sh.params["designs"]):
    if sh.only is not None and str(case) != str(sh.only).strip('"'):
      continue
    rng = sh.rng("design", case)
    d = G.generate(rng, knobs_for(rng))
    st = schedcheck.run_design(sh, d, rng, case, PASS_MODES, rng.randrange(5, 10), {"order", "stale"}, "c02",
                               reps={"simple": 2, "unroll": 2})
    if st is None: continue
    sh.count("designs"); sh.count("evaluations")
    for k in ("explicit_constraints_checked", "ordered_pairs_checked", "discriminating_stale_read_comparisons", "stale_read_comparisons", "passes_checked", "mode_runs"):
      sh.count(k, st[k])
    sh.count("observed_schedules_total", st["distinct_schedules"])
    if st["pairs"]:
      sh.count("designs_with_pairs"); sh.fp(G.emit(d))
    if case < 1:
      sh.sample({"design_source_head": G.emit(d)[:1200], "required_pairs": st["pairs"], "distinct_schedules_observed": st["distinct_schedules"]})
  rng = sh.rng("rej")
  for _ in range(2):
    check_rejection(sh, rng)
    check_chained(sh, rng)
    check_constraints_after_replace(sh, rng)
    if sh.idx == 1: run_net_inversion_probe(sh)
    if sh.idx == 2: run_long_chain(sh)
    for oc in range(3 if sh.tier == 'quick' else 30): run_openloop_methods(sh, sh.idx * 100 + oc)
