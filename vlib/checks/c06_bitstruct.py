"""C06 - bitstruct packing is a lossless, order-preserving bijection; copies do not alias."""
import copy

from vlib import bitsref as R

PROPERTY = "C06"
LEVEL = "exploration"
RULE = ("case = one (generated struct type shape, value) pair on which nbits/to_bits/from_bits/==/hash/clone/deepcopy/"
        "@=/<<= are executed and compared with the int-level layout; type shapes: depth<=4, 1-6 fields, list dims<=3, "
        "widths to 1023 bits, built through @bitstruct and mk_bitstruct. distinct_nontrivial = distinct type-shape "
        "fingerprints with >= 2 leaves (shape structure + widths)")
ASSUMPTIONS = [
  "layout = first field most significant, list element 0 least significant within its field (property text)",
  "field names colliding with generated method/helper names (clone, to_bits, _type_x ...) are a naming restriction, not generated",
  "hash is only required to agree for equal packed values when it returns; a raising hash on a comparable value is reported separately",
]

NAMES = ["a", "b", "c", "d", "x", "y", "z", "s", "self", "other", "cls", "memo", "f0", "f1", "lo", "hi", "v", "idx"]
LEAFW = [1, 1, 2, 3, 4, 7, 8, 9, 15, 16, 17, 31, 32, 33, 63, 64, 65, 100, 128, 200]


def plan(tier, seed):
  q = tier == "quick"
  return [{"hashseed": (seed * 3 + i) % 991, "types": 120 if q else 1200} for i in range(8 if q else 16)]


def thresholds(tier):
  t = {"types_built": 300, "values_checked": 5000, "layout_comparisons": 5000, "aliasing_probes": 20000,
       "types_with_list_field": 100, "types_nested": 100, "hash_comparisons": 1000, "same_name_redeclarations": 200, "hash_after_field_update_probes": 2000, "ctor_arg_aliasing_probes": 5000, "histories_checked": 1000, "history_flips_of_pending_leaves": 2000, "ragged_array_declarations_refused": 100, "list_args_given_as_ints": 60, "ctor_container_arg_aliasing_probes": 1000, "intra_instance_aliasing_probes": 1500, "falsy_struct_argument_probes": 100, "repeated_from_bits_probes": 100, "cross_class_assignments": 200}
  if tier == "thorough":
    t = {k: v * 15 for k, v in t.items()}
  return t


# ---------------------------------------------------------------------------
# shape generation
# ---------------------------------------------------------------------------

def gen_shape(rng, depth, budget, uid, top=True):
  """returns shape using at most `budget` bits, or None"""
  nf = rng.randrange(1, 7) if top else rng.randrange(1, 4)
  nf = max(1, min(nf, budget))
  fields = []
  names = rng.sample(NAMES, nf)
  used = 0
  for fn in names:
    left = budget - used - (nf - len(fields) - 1)
    if left < 1:
      break
    k = rng.random()
    if k < 0.5 or depth <= 0:
      w = min(rng.choice(LEAFW), left)
      if rng.random() < 0.3 and fields and isinstance(fields[-1][1], int) and fields[-1][1] <= left:
        w = fields[-1][1]     # equal-width neighbours
      sh = w
    elif k < 0.75:
      sh = gen_shape(rng, depth - 1, max(1, left // 2), uid, top=False)
    else:
      dims = [rng.randrange(1, 5) for _ in range(rng.choice([1, 1, 2, 3]))]
      n_el = 1
      for d in dims: n_el *= d
      per = left // n_el
      if per < 1:
        sh = min(rng.choice(LEAFW), left)
      else:
        if rng.random() < 0.4 and depth > 0 and per >= 2:
          el = gen_shape(rng, depth - 1, min(per, 40), uid, top=False)
        else:
          el = min(rng.choice(LEAFW[:12]), per)
        sh = el
        for d in reversed(dims):
          sh = ("list", d, sh)
    fields.append((fn, sh))
    used += R.shape_nbits(sh)
  uid[0] += 1
  return ("struct", f"T{uid[0]}", fields)


def shape_fp(sh):
  if isinstance(sh, int):
    return sh
  if sh[0] == "struct":
    return ("S", tuple((n, shape_fp(f)) for n, f in sh[2]))
  return ("L", sh[1], shape_fp(sh[2]))


def has(sh, kind):
  if isinstance(sh, int):
    return False
  if sh[0] == "struct":
    return any((kind == "struct" and not isinstance(f, int) and f[0] == "struct") or has(f, kind) for _, f in sh[2])
  return kind == "list" or has(sh[2], kind) or (kind == "struct" and not isinstance(sh[2], int) and sh[2][0] == "struct")


# ---------------------------------------------------------------------------
# real types / values
# ---------------------------------------------------------------------------

class Builder:
  def __init__(self, tag, use_decorator):
    self.tag, self.dec = tag, use_decorator
    self.cache = {}

  def typ(self, sh):
    from pymtl3.datatypes import mk_bits, mk_bitstruct, bitstruct
    if isinstance(sh, int):
      return mk_bits(sh)
    if sh[0] == "list":
      return [self.typ(sh[2])] * sh[1]
    key = shape_fp(sh), sh[1]
    if key in self.cache:
      return self.cache[key]
    ftypes = {fn: self.typ(f) for fn, f in sh[2]}
    name = f"{sh[1]}_{self.tag}"
    if self.dec:
      ns = {"bitstruct": bitstruct}
      lines = ["@bitstruct", f"class {name}:"]
      for i, (fn, _) in enumerate(sh[2]):
        ns[f"_ft{i}"] = ftypes[fn]
        lines.append(f"  {fn}: _ft{i}")
      exec("\n".join(lines), ns)
      cls = ns[name]
    else:
      cls = mk_bitstruct(name, ftypes)
    self.cache[key] = cls
    return cls

  def val(self, sh, v):
    if isinstance(sh, int):
      return self.typ(sh)(v)
    if sh[0] == "list":
      return [self.val(sh[2], x) for x in v]
    cls = self.typ(sh)
    return cls(**{fn: self.val(f, v[fn]) for fn, f in sh[2]})


def readback(sh, obj):
  if isinstance(sh, int):
    return int(obj.uint())
  if sh[0] == "list":
    assert isinstance(obj, list) and len(obj) == sh[1], "list length"
    return [readback(sh[2], x) for x in obj]
  return {fn: readback(f, getattr(obj, fn)) for fn, f in sh[2]}


def leaf_obj(obj, path):
  for p in path:
    obj = obj[p] if isinstance(p, int) else getattr(obj, p)
  return obj


def gen_val(rng, sh, mode, hot=None, path=()):
  if isinstance(sh, int):
    if mode == "zero": return 0
    if mode == "ones": return R.mask(sh)
    if mode == "walk": return R.mask(sh) if path == hot else 0
    return rng.getrandbits(sh)
  if sh[0] == "list":
    return [gen_val(rng, sh[2], mode, hot, path + (i,)) for i in range(sh[1])]
  return {fn: gen_val(rng, f, mode, hot, path + (fn,)) for fn, f in sh[2]}


# ---------------------------------------------------------------------------

def check_type(sh, shape, rng, case):
  from pymtl3.datatypes import Bits
  B = Builder(f"{sh.idx}_{case}", rng.random() < 0.5)
  total = R.shape_nbits(shape)
  leaves = R.leaves(shape)
  W = lambda kind, **kw: sh.violation(kind, dict(kw, shape=shape_fp(shape), decorator=B.dec),
                                      mechanism=kw.pop("mech", None) if False else kw.get("mech"), case=case)
  try:
    cls = B.typ(shape)
  except Exception as e:
    sh.inconclusive("type-construction-raised:" + type(e).__name__)
    return
  sh.count("types_built")
  if has(shape, "list"): sh.count("types_with_list_field")
  if has(shape, "struct"): sh.count("types_nested")
  if len(leaves) >= 2:
    sh.fp(shape_fp(shape))
  if cls.nbits != total:
    W("nbits-not-sum-of-leaves", got=cls.nbits, expected=total)
    return
  # default construction
  z = cls()
  if int(z.to_bits().uint()) != 0:
    W("default-not-zero", got=int(z.to_bits().uint()))
  # the leaves (and list rows) of ONE instance are separate objects, however the instance was made: default construction,
  # constructor with arguments, from_bits, clone, deepcopy
  v_ = gen_val(rng, shape, "rand")
  for how_, obj_ in (("default-constructed", cls()), ("constructed", B.val(shape, v_)), ("from_bits", cls.from_bits(Bits(total, R.pack(shape, v_)))),
                     ("clone", B.val(shape, v_).clone()), ("deepcopy", copy.deepcopy(B.val(shape, v_)))):
    sh.count("intra_instance_aliasing_probes")
    ids = {}
    dup = None
    for (pth, lo_, w_) in leaves:
      k_ = id(leaf_obj(obj_, pth))
      if k_ in ids: dup = (ids[k_], pth); break
      ids[k_] = pth
    if dup:
      W("two-leaves-of-one-instance-are-the-same-object", how=how_, leaves=[list(dup[0]), list(dup[1])]); break
    if how_ == "default-constructed":
      # ... and it takes a value like any other instance
      obj_ @= B.val(shape, v_)
      if readback(shape, obj_) != v_ or int(obj_.to_bits().uint()) != R.pack(shape, v_):
        W("imatmul-into-default-constructed-instance-differs", value=v_, got=readback(shape, obj_)); break
  vals = [gen_val(rng, shape, "zero"), gen_val(rng, shape, "ones")]
  hot = rng.sample(leaves, min(len(leaves), 6))
  vals += [gen_val(rng, shape, "walk", hot=h[0]) for h in hot]
  vals += [gen_val(rng, shape, "rand") for _ in range(4)]
  prev = None
  for v in vals:
    sh.count("values_checked"); sh.count("evaluations")
    exp = R.pack(shape, v)
    o = B.val(shape, v)
    tb = o.to_bits()
    sh.count("layout_comparisons")
    if not isinstance(tb, Bits) or tb.nbits != total or int(tb.uint()) != exp:
      W("to_bits-layout", value=v, got=(getattr(tb, "nbits", None), hex(int(tb.uint()))), expected=hex(exp))
      continue
    # the packed value is a NEW object: writing it does not write the struct (and the other way round)
    sh.count("to_bits_result_aliasing_probes")
    if any(tb is leaf_obj(o, pth) for (pth, lo, w_) in leaves):
      W("to_bits-returns-a-field-object-of-the-struct", value=v)
    else:
      tb @= exp ^ R.mask(total)
      if readback(shape, o) != v:
        W("writing-the-to_bits-result-changes-the-struct", value=v)
      tb @= exp
    # from_bits of packed
    fb = cls.from_bits(Bits(total, exp))
    sh.count("layout_comparisons")
    if readback(shape, fb) != v:
      W("from_bits-layout", packed=hex(exp), got=readback(shape, fb), expected=v)
    if int(fb.to_bits().uint()) != exp:
      W("to_bits(from_bits(b))!=b", packed=hex(exp), got=hex(int(fb.to_bits().uint())))
    if not (fb == o) or (fb != o):
      W("from_bits(to_bits(v))!=v", value=v)
    # random bit pattern b -> roundtrip
    b = rng.getrandbits(total)
    fb2 = cls.from_bits(Bits(total, b))
    sh.count("layout_comparisons")
    if readback(shape, fb2) != R.unpack(shape, b) or int(fb2.to_bits().uint()) != b:
      W("from_bits-random-roundtrip", packed=hex(b), got=readback(shape, fb2), expected=R.unpack(shape, b))
    # equality with the packed VALUE itself (a Bits of the same width): the same answer whichever operand stands on the left
    for (pv, same) in ((Bits(total, exp), True), (Bits(total, exp ^ 1), False)):
      try: r1, r2, n1, n2 = (o == pv), (pv == o), (o != pv), (pv != o)
      except (TypeError, ValueError): sh.count("eq_with_packed_value_refused"); break
      sh.count("eq_with_packed_value_comparisons")
      if not (bool(r1) == bool(r2) == same) or not (bool(n1) == bool(n2) == (not same)):
        W("eq-of-struct-and-its-packed-value-depends-on-operand-order-or-ignores-the-value", value=v, packed=hex(int(pv)), struct_eq_bits=repr(r1), bits_eq_struct=repr(r2),
          struct_ne_bits=repr(n1), bits_ne_struct=repr(n2)); break
    # equality / hash vs packed equality
    others = [(fb, exp), (fb2, b)]
    if prev is not None:
      others.append(prev)
    for (o2, p2) in others:
      eq = (o == o2)
      sh.count("eq_comparisons")
      if bool(eq) != (exp == p2) or bool(o != o2) == bool(eq):
        W("eq-disagrees-with-packed", a=hex(exp), b=hex(p2), got=bool(eq))
      try:
        h1, h2 = hash(o), hash(o2)
        sh.count("hash_comparisons")
        if exp == p2 and h1 != h2:
          W("hash-differs-for-equal-values", a=hex(exp))
      except TypeError as e:
        sh.count("hash_raised")
        W("hash-raises-on-comparable-value", error=str(e)[:80],
          mech="hash-list-field-unhashable" if has(shape, "list") and "unhashable type: 'list'" in str(e) else None)
    prev = (o, exp)
    # deepcopy of CONTAINERS that hold several distinct, equal values (a list of reset messages, a dict of defaults, an object
    # with two attributes): every entry of the copy is an object of its own, writing one leaves the others alone
    class _Holder: pass
    h_ = _Holder(); h_.p = B.val(shape, v); h_.q = B.val(shape, v)
    for cname, cont, items in (("list", [B.val(shape, v) for _ in range(3)], lambda c: list(c)), ("dict", {"lo": B.val(shape, v), "hi": B.val(shape, v)}, lambda c: [c["lo"], c["hi"]]),
                               ("tuple-in-list", [(B.val(shape, v), B.val(shape, v))], lambda c: list(c[0])), ("object", h_, lambda c: [c.p, c.q])):
      cp = items(copy.deepcopy(cont)); orig = items(cont)
      sh.count("container_deepcopies_checked")
      if len({id(x) for x in cp}) != len(cp) or any(a is b for a in cp for b in orig):
        W("deepcopy-of-a-container-shares-objects", container=cname, value=v); break
      other_ = gen_val(rng, shape, "rand")
      cp[0] @= B.val(shape, other_)
      if any(readback(shape, x) != v for x in cp[1:]) or any(readback(shape, x) != v for x in orig):
        W("writing-one-entry-of-a-deep-copied-container-changes-another", container=cname, value=v, written=other_); break
    # copies
    for how in ("clone", "deepcopy", "copy", "imatmul", "imatmul_bits", "ilshift"):
      src = B.val(shape, v)
      if how == "clone":
        dst = src.clone()
      elif how == "copy":
        dst = copy.copy(src)          # the copy module's shallow protocol: for a value type it has to be a copy all the same
      elif how == "deepcopy":
        dst = copy.deepcopy(src)
      elif how == "imatmul":
        dst = B.val(shape, gen_val(rng, shape, "rand"))
        d0 = dst
        dst @= src
        if dst is not d0: W("imatmul-returned-other-object")
      elif how == "imatmul_bits":
        dst = B.val(shape, gen_val(rng, shape, "rand"))
        dst @= Bits(total, exp)
      else:
        other = gen_val(rng, shape, "rand")
        dst = B.val(shape, other)
        # every leaf needs a _next for a later flip: that is what the simulator guarantees (value <<= value)
        dst <<= dst
        dst._flip()
        dst <<= src
        sh.count("ilshift_before_flip_checks")
        if readback(shape, dst) != other:
          W("ilshift-visible-before-flip", value=v, before=other, got=readback(shape, dst))
        dst._flip()
      if readback(shape, dst) != v or not (dst == src):
        W(how + "-value-differs", value=v, got=readback(shape, dst))
        continue
      if how == "imatmul_bits":
        continue
      # aliasing probes: identity and behaviour, both directions, every leaf
      for (path, lo, w) in leaves:
        ls, ld = leaf_obj(src, path), leaf_obj(dst, path)
        sh.count("aliasing_probes")
        if ls is ld:
          W(how + "-aliases-leaf-object", path=path)
          break
        old = int(ls.uint())
        ls @= old ^ R.mask(w)
        if int(ld.uint()) != old:
          W(how + "-source-mutation-visible-in-copy", path=path); break
        ld @= old ^ 1
        if int(ls.uint()) != old ^ R.mask(w):
          W(how + "-copy-mutation-visible-in-source", path=path); break
        ls @= old; ld @= old
      # container aliasing (lists / nested struct objects)
      def containers(sh_, o1, o2, path):
        if isinstance(sh_, int):
          return None
        if o1 is o2:
          return path
        if sh_[0] == "list":
          for i in range(sh_[1]):
            r = containers(sh_[2], o1[i], o2[i], path + (i,))
            if r is not None: return r
          return None
        for fn, f in sh_[2]:
          r = containers(f, getattr(o1, fn), getattr(o2, fn), path + (fn,))
          if r is not None: return r
        return None
      bad = containers(shape, src, dst, ())
      if bad is not None and bad != ():
        W(how + "-aliases-container", path=bad)
    # the constructor COPIES the values of its scalar (Bits) arguments: the struct must not share them with the caller (a caller
    # typically passes the value object of a live signal); arguments that already have the exact field type included
    args = {fn: B.val(f, v[fn]) for fn, f in shape[2]}
    o2 = cls(**args)
    for fn, f in shape[2]:
      if not isinstance(f, int):
        # struct- and list-typed arguments: the new struct takes their VALUE, too (a caller typically passes a field of a live
        # register); every leaf below the argument is probed in both directions
        sub = [(pth, w_) for (pth, lo_, w_) in R.leaves(f)] if not isinstance(f, int) else []
        bad = None
        for (pth, w_) in sub[:6]:
          sh.count("ctor_container_arg_aliasing_probes")
          la, ls_ = leaf_obj(args[fn], pth), leaf_obj(getattr(o2, fn), pth)
          old = int(la.uint())
          if la is ls_: bad = ("constructor-keeps-a-leaf-object-of-a-struct-or-list-argument", pth); break
          la @= old ^ R.mask(w_)
          if int(leaf_obj(getattr(o2, fn), pth).uint()) != old: bad = ("argument-mutation-visible-in-constructed-struct", pth); break
          ls_ @= old ^ 1
          if int(la.uint()) != old ^ R.mask(w_): bad = ("struct-field-mutation-visible-in-constructor-argument", pth); break
          la @= old; ls_ @= old
        if bad is None and getattr(o2, fn) is args[fn]: bad = ("constructor-keeps-the-argument-object-of-a-struct-or-list-field", ())
        if bad: W(bad[0], field=fn, path=list(bad[1])); break
        continue
      sh.count("ctor_arg_aliasing_probes")
      fld = getattr(o2, fn)
      old = int(args[fn].uint())
      if fld is args[fn]:
        W("constructor-keeps-the-argument-object-of-a-scalar-field", field=fn); break
      args[fn] @= old ^ R.mask(f)
      if int(getattr(o2, fn).uint()) != old:
        W("argument-mutation-visible-in-constructed-struct", field=fn); break
      fld @= old ^ 1
      if int(args[fn].uint()) != old ^ R.mask(f):
        W("struct-field-mutation-visible-in-constructor-argument", field=fn); break
    # hash / ==  after IN-PLACE updates of single leaves of an object that has already been hashed (a history: hash, update, hash)
    o = B.val(shape, v)
    try:
      hash(o); bag = {o}
    except TypeError:
      continue
    cur = copy.deepcopy(v)
    for (path, lo, w) in rng.sample(leaves, min(len(leaves), 3)):
      leaf = leaf_obj(o, path)
      new = int(leaf.uint()) ^ (R.mask(w) if rng.random() < 0.5 else 1)
      if rng.random() < 0.5:
        leaf @= new
      else:
        leaf <<= new; leaf._flip()
      c = cur
      for p_ in path[:-1]: c = c[p_]
      c[path[-1]] = new
      fresh = B.val(shape, cur)
      sh.count("hash_after_field_update_probes")
      try:
        if not (o == fresh) or int(o.to_bits().uint()) != R.pack(shape, cur):
          W("value-after-in-place-leaf-update-differs", path=path, value=cur); break
        if hash(o) != hash(fresh) or hash(o) != hash(o.clone()) or hash(o) != hash(copy.deepcopy(o)):
          W("hash-stale-after-in-place-leaf-update", path=path, value=cur); break
        if fresh not in {o}:
          W("equal-struct-not-found-in-set-after-in-place-leaf-update", path=path, value=cur); break
      except TypeError:
        break
  check_history(sh, shape, rng, B, cls, leaves, total, W)
  sh.sample({"shape": shape_fp(shape), "nbits": total, "leaves": len(leaves), "values": len(vals)})


def _setp(v, path, x):
  for p_ in path[:-1]: v = v[p_]
  v[path[-1]] = x


def _getp(v, path):
  for p_ in path: v = v[p_]
  return v


def check_history(sh, shape, rng, B, cls, leaves, total, W):
  """a HISTORY of @= / <<= / _flip() on one struct object (whole struct from a struct or from Bits, single leaves), judged
  after every step against a two-slot model per leaf: @= is visible at once and leaves a pending <<= alone, <<= stays invisible
  until the flip and is what the flip shows - whatever @= happened in between; the sources are overwritten afterwards.
  A flip of a leaf with no <<= since the previous flip is outside the property: the model is re-synchronised, nothing is asserted."""
  from pymtl3.datatypes import Bits
  for h in range(2):
    v0 = gen_val(rng, shape, "rand")
    o = B.val(shape, v0)
    o <<= o; o._flip()                    # every leaf owns a _next (what the simulator guarantees)
    cur = copy.deepcopy(v0); pend = {}
    trace = []
    for step in range(rng.randrange(4, 12)):
      op = rng.choice(["whole<<=", "whole<<=bits", "whole@=", "whole@=bits", "leaf@=", "leaf@=", "leaf<<=", "flip", "flip"])
      if op.startswith("whole"):
        v = gen_val(rng, shape, "rand")
        src = Bits(total, R.pack(shape, v)) if op.endswith("bits") else B.val(shape, v)
        if "<<=" in op:
          o <<= src
          for (pth, lo, w) in leaves: pend[pth] = _getp(v, pth)
        else:
          o @= src
          cur = copy.deepcopy(v)
        if rng.random() < 0.5:              # the source goes on living: overwrite it
          src @= (Bits(total, R.pack(shape, gen_val(rng, shape, "rand"))) if op.endswith("bits") else B.val(shape, gen_val(rng, shape, "rand")))
          op += ",source-overwritten"
      elif op.startswith("leaf"):
        (pth, lo, w) = rng.choice(leaves)
        x = rng.getrandbits(w)
        leaf = leaf_obj(o, pth)
        if "<<=" in op: leaf <<= x; pend[pth] = x
        else: leaf @= x; _setp(cur, pth, x)
        op += f",{'.'.join(map(str, pth))}={x:#x}"
      else:
        o._flip()
        got = readback(shape, o)
        for (pth, lo, w) in leaves:
          if pth in pend: _setp(cur, pth, pend.pop(pth)); sh.count("history_flips_of_pending_leaves")
          else: _setp(cur, pth, _getp(got, pth))
      trace.append(op)
      sh.count("history_steps_checked")
      got = readback(shape, o)
      if got != cur:
        bad = [".".join(map(str, pth)) for (pth, lo, w) in leaves if _getp(got, pth) != _getp(cur, pth)]
        W("history-of-blocking-and-non-blocking-updates-differs-from-model", history=trace, leaves=bad[:6],
          got=got, expected=cur)
        return
      if int(o.to_bits().uint()) != R.pack(shape, cur):
        W("history-packed-value-differs-from-fields", history=trace); return
    sh.count("histories_checked")


def name_variants(shape, rng):
  _, name, fields = shape
  out = []
  if len(fields) >= 2:
    f2 = list(fields); rng.shuffle(f2)
    if f2 != fields: out.append(("struct", name, f2))
    i, j = rng.sample(range(len(fields)), 2)
    if shape_fp(fields[i][1]) != shape_fp(fields[j][1]):
      f3 = list(fields); f3[i], f3[j] = (fields[i][0], fields[j][1]), (fields[j][0], fields[i][1])
      out.append(("struct", name, f3))
    out.append(("struct", name, fields[:-1]))
  out.append(("struct", name, list(fields)))
  rng.shuffle(out)
  out = out[:3]
  # the same field names and outer list lengths, ONE inner dimension of a multi-dimensional list field longer or shorter
  for i, (fn, fsh) in enumerate(fields):
    if isinstance(fsh, tuple) and fsh[0] == "list" and isinstance(fsh[2], tuple) and fsh[2][0] == "list":
      e = fsh[2][1]
      for e2 in ([e - 1] if e > 1 else []) + [e + 1]:
        f4 = list(fields); f4[i] = (fn, ("list", fsh[1], ("list", e2, fsh[2][2])))
        v = ("struct", name, f4)
        if R.shape_nbits(v) < 1024: out.append(v)
      break
  return out


def check_array_decl(sh, rng, case):
  """declarations of multi-dimensional list fields: a rectangular annotation of any depth is accepted and laid out by its full
  shape; a RAGGED one (some sub-list at some depth longer or shorter than its siblings) has no layout and is refused"""
  from pymtl3.datatypes import mk_bits, mk_bitstruct
  w = rng.choice([1, 3, 4, 8]); T = mk_bits(w)
  dims = [rng.randrange(1, 4) for _ in range(rng.randrange(2, 5))]
  def build(ds):
    return [build(ds[1:]) for _ in range(ds[0])] if ds else T
  ann = build(dims)
  nleaves = 1
  for d in dims: nleaves *= d
  ragged = rng.random() < 0.6
  where = None
  plen = rng.randrange(1, len(dims))
  if not any(d >= 2 for d in dims[:plen]): ragged = False      # the changed sub-list would have no sibling to differ from
  if ragged:
    # lengthen or shorten ONE sub-list somewhere below the first level
    path = [rng.randrange(d) for d in dims[:plen]]
    node = ann
    for i in path: node = node[i]
    if rng.random() < 0.5 or len(node) == 1: node.append(copy.deepcopy(node[0])); where = (path, "+1")
    else: node.pop(); where = (path, "-1")
  sh.count("array_field_declarations")
  try:
    cls = mk_bitstruct(f"ArrD_{sh.idx}_{case}", {"hd": mk_bits(2), "arr": ann})
  except Exception as e:
    if not ragged:
      sh.violation("rectangular-array-field-declaration-refused", {"dims": dims, "width": w, "error": f"{type(e).__name__}: {str(e)[:100]}"}, case=("arr", case))
    else: sh.count("ragged_array_declarations_refused")
    return
  if ragged:
    # equal sub-list lengths one level down can still hide a deeper difference: the declaration has to notice
    tot = sum(1 for _ in _flat(ann)) * w + 2
    sh.violation("ragged-array-field-declaration-accepted", {"dims": dims, "changed_sublist": where, "nbits": cls.nbits, "sum_of_leaf_widths": tot}, case=("arr", case))
    return
  if cls.nbits != nleaves * w + 2:
    sh.violation("nbits-not-sum-of-leaves", {"dims": dims, "got": cls.nbits, "expected": nleaves * w + 2}, case=("arr", case))
  # list arguments given as plain ints (ints are fine for scalar fields): converted element-wise
  def ints(ds, c=[0]):
    if not ds:
      c[0] += 1; return (c[0] * 5 + 1) & R.mask(w)
    return [ints(ds[1:], c) for _ in range(ds[0])]
  vals = ints(dims)
  try:
    o = cls(1, vals)
    flat = list(_flat(vals))
    exp = 1
    for v in reversed(flat): exp = (exp << w) | v
    sh.count("list_args_given_as_ints")
    if int(o.to_bits().uint()) != exp:
      sh.violation("to_bits-layout", {"dims": dims, "int_list_argument": True, "got": hex(int(o.to_bits().uint())), "expected": hex(exp)}, case=("arr", case))
  except Exception as e:
    sh.violation("list-field-argument-of-ints-not-usable", {"dims": dims, "error": f"{type(e).__name__}: {str(e)[:120]}"}, case=("arr", case))
  # a list argument of another length than the field: refused, or the value still round-trips through the packed form
  longer = copy.deepcopy(vals); longer.append(copy.deepcopy(longer[0]))
  sh.count("list_args_of_wrong_length")
  try:
    o2 = cls(1, longer)
  except Exception:
    sh.count("list_args_of_wrong_length_refused")
  else:
    try: same = (cls.from_bits(o2.to_bits()) == o2)
    except Exception: same = False
    if not same:
      sh.violation("constructor-accepts-a-list-of-the-wrong-length-and-the-value-does-not-round-trip", {"dims": dims, "given_outer_length": len(longer)}, case=("arr", case))
  # field names that are also names of generated methods: refused at declaration, or the methods still work
  nm = rng.choice(["clone", "_flip", "get_field_type", "to_bits", "from_bits", "nbits"])
  sh.count("method_named_fields")
  try:
    cls3 = mk_bitstruct(f"ArrM_{sh.idx}_{case}", {"hd": mk_bits(2), nm: mk_bits(4)})
  except Exception:
    sh.count("method_named_fields_refused")
  else:
    try:
      o3 = cls3(); o4 = o3.clone(); o3 <<= o4; o3._flip(); cls3.get_field_type("hd"); copy.deepcopy(o3); o3.to_bits(); cls3.from_bits(o3.to_bits()); cls3.nbits
    except Exception as e:
      sh.violation("field-named-like-a-generated-method-breaks-that-method", {"field": nm, "error": f"{type(e).__name__}: {str(e)[:100]}"}, case=("arr", case))


def _flat(x):
  if isinstance(x, list):
    for y in x: yield from _flat(y)
  else: yield x


def check_foreign_struct_arg(sh, rng, case):
  """a struct-typed field (alone, inside a list field) given an instance of ANOTHER bitstruct class (same field names, another
  width; the same width; a Bits value): refused - or the value still packs to exactly nbits and survives the round trip"""
  from pymtl3.datatypes import mk_bits, mk_bitstruct, Bits
  w1 = rng.choice([1, 3, 4, 8]); w2 = rng.choice([w1 + 1, w1 + 4, w1])
  tag = f"{sh.idx}_{case}"
  Hdr = mk_bitstruct(f"FHdr_{tag}", {"op": mk_bits(w1)})
  Other = mk_bitstruct(f"FWide_{tag}", {"op": mk_bits(w2)})
  Msg = mk_bitstruct(f"FMsg_{tag}", {"tag": mk_bits(4), "hdr": Hdr, "lst": [Hdr] * 2})
  total = 4 + 3 * w1
  foreign = rng.choice([Other(1), Other(0), mk_bits(w1)(1)])
  for how in ("field", "list-element", "control"):
    sh.count("foreign_struct_argument_probes")
    try:
      m = Msg(1, foreign) if how == "field" else Msg(1, Hdr(1), [foreign, Hdr(1)]) if how == "list-element" else Msg(1, Hdr(1), [Hdr(0), Hdr(1)])
    except (TypeError, ValueError, AssertionError):
      if how == "control": sh.violation("legal-constructor-arguments-refused", {"field_width": w1}, case=("foreign", case)); return
      sh.count("foreign_struct_arguments_refused"); continue
    try:
      tb = m.to_bits(); ok = tb.nbits == total == Msg.nbits and Msg.from_bits(tb) == m and int(Msg.from_bits(tb).to_bits()) == int(tb)
    except Exception: ok = False
    if not ok:
      sh.violation("struct-field-holds-a-value-of-another-class", {"how": how, "field_class": f"Hdr(op: Bits{w1})", "argument": repr(foreign), "value": repr(m),
                   "declared_nbits": Msg.nbits}, case=("foreign", case)); return


def check_falsy_struct_arg(sh, rng, case):
  """a nested struct class with __bool__ / __len__ (legal: struct classes carry methods): a FALSY argument is still the argument -
  the constructor, clone, deepcopy and from_bits keep its fields ( F-B8 )"""
  import copy
  from pymtl3.datatypes import mk_bits, mk_bitstruct
  w = rng.choice([1, 4, 8]); tag = f"{sh.idx}_{case}"
  kind = rng.choice(["bool", "len"])
  ns = {"__bool__": lambda self: bool(int(self.val))} if kind == "bool" else {"__len__": lambda self: int(self.val)}
  Opt = mk_bitstruct(f"FOpt_{tag}", {"val": mk_bits(1), "data": mk_bits(w)}, namespace=ns)
  Outer = mk_bitstruct(f"FOut_{tag}", {"x": mk_bits(4), "opt": Opt, "lst": [Opt] * 2})
  d = rng.getrandbits(w) | 1
  sh.count("falsy_struct_argument_probes")
  v = Outer(0xA, Opt(0, d), [Opt(0, d), Opt(1, d)])
  exp = (0xA << (3 * (w + 1))) | (d << (2 * (w + 1))) | (((1 << w) | d) << (w + 1)) | d
  got = {"constructor": int(v.to_bits()), "clone": int(v.clone().to_bits()), "deepcopy": int(copy.deepcopy(v).to_bits()),
         "from_bits": int(Outer.from_bits(mk_bits(Outer.nbits)(exp)).to_bits())}
  wrong = {k: hex(x) for k, x in got.items() if x != exp}
  if wrong:
    sh.violation("falsy-struct-argument-replaced-by-the-default", {"hook": kind, "expected_packed": hex(exp), "wrong": wrong, "value": repr(v)}, case=("falsy", case))


def check_unpack_fresh_and_cross_class(sh, rng, case):
  """(a) from_bits called twice with an equal packed value gives two independent objects: changing the first (field @=, list
  element, <<= + flip) leaves the second and a third, later, call alone;  (b) @= / <<= from a value of ANOTHER bitstruct class of
  the same width (same field names in another order): refused - or both operators store the assigned BIT PATTERN"""
  from pymtl3.datatypes import mk_bits, mk_bitstruct
  tag = f"{sh.idx}_{case}"
  w = rng.choice([2, 4, 8])
  Hdr = mk_bitstruct(f"UHdr_{tag}", {"src": mk_bits(w), "dst": mk_bits(w)})
  Pkt = mk_bitstruct(f"UPkt_{tag}", {"hdr": Hdr, "pay": [mk_bits(w)] * 2})
  n = Pkt.nbits; b = rng.getrandbits(n)
  first = Pkt.from_bits(mk_bits(n)(b))
  how = rng.choice(["field", "list", "ff"])
  nv = (int(first.hdr.dst) + 1) % (1 << w)
  if how == "field": first.hdr.dst @= nv
  elif how == "list": first.pay[1] @= (int(first.pay[1]) + 1) % (1 << w)
  else: first.hdr.dst <<= nv; first.hdr.dst._flip()
  second = Pkt.from_bits(mk_bits(n)(b))
  sh.count("repeated_from_bits_probes")
  if second is first or int(second.to_bits()) != b:
    sh.violation("from_bits-of-an-equal-value-returns-an-object-changed-elsewhere", {"packed": hex(b), "changed_by": how, "second_unpack_packs_to": hex(int(second.to_bits())),
                 "same_object": second is first}, case=("unpack", case)); return
  r = Pkt(); r @= mk_bits(n)(b)
  if int(r.to_bits()) != b:
    sh.violation("from_bits-of-an-equal-value-returns-an-object-changed-elsewhere", {"packed": hex(b), "how": "struct @= Bits after an earlier unpacked value was changed",
                 "got": hex(int(r.to_bits()))}, case=("unpack-imatmul", case)); return
  # (b)
  A = mk_bitstruct(f"XA_{tag}", {"tag": mk_bits(w), "len": mk_bits(w)})
  B = mk_bitstruct(f"XB_{tag}", {"len": mk_bits(w), "tag": mk_bits(w)})
  va, vb = rng.getrandbits(w), rng.getrandbits(w)
  if va == vb: vb = (va + 1) % (1 << w)
  src = B(len=va, tag=vb); exp = int(src.to_bits())
  got = {}
  for op in ("@=", "<<="):
    r = A()
    sh.count("cross_class_assignments")
    try:
      if op == "@=": r @= src
      else: r <<= src; r._flip() if hasattr(r, "_flip") else None
    except (TypeError, ValueError, AttributeError, AssertionError):
      sh.count("cross_class_assignments_refused"); continue
    got[op] = int(r.to_bits())
  if any(v != exp for v in got.values()):
    sh.violation("assignment-from-another-struct-class-does-not-store-its-bit-pattern", {"source": repr(src), "source_packed": hex(exp), "stored": {k: hex(v) for k, v in got.items()},
                 "target_class": "A(tag, len)", "source_class": "B(len, tag)", "field_width": w}, case=("crossclass", case))


def run_shard(sh):
  rng = sh.rng("types")
  uid = [0]
  for case in range(sh.params["types"] // 2):
    check_array_decl(sh, sh.rng("arr", case), case)
    check_foreign_struct_arg(sh, sh.rng("foreign", case), case)
    check_falsy_struct_arg(sh, sh.rng("falsy", case), case)
    check_unpack_fresh_and_cross_class(sh, sh.rng("unpack", case), case)
  for case in range(sh.params["types"]):
    r = sh.rng("t", case)
    if sh.only is not None and str(case) != str(sh.only).strip('"'):
      continue
    budget = r.choice([8, 16, 32, 64, 100, 200, 400, 700, 1023, 1023])
    shape = gen_shape(r, r.randrange(0, 4), budget, uid)
    if R.shape_nbits(shape) >= 1024 or not shape[2]:
      sh.inconclusive("generator-produced-oversized-shape")
      continue
    try:
      check_type(sh, shape, r, case)
      # history: other declarations under the SAME class name in this process (permuted field order, swapped field types,
      # dropped field, identical re-declaration) - each must get its own layout, and the first one must keep its own
      if r.random() < 0.4:
        for var in name_variants(shape, r):
          sh.count("same_name_redeclarations")
          check_type(sh, var, r, case)
        check_type(sh, shape, r, case)
    except Exception as e:
      import traceback
      sh.violation("api-raised-on-legal-use", {"shape": shape_fp(shape), "error": traceback.format_exc()[-800:]}, case=case)
