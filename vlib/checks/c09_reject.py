"""C09 - structurally illegal designs are always rejected at elaboration (and legal ones are accepted)."""
import copy
import json
import traceback

from vlib import specgen as G

PROPERTY = "C09"
LEVEL = "exploration"
RULE = ("case = one legal generated design L plus one knowingly injected defect (kind x overlap shape x hierarchy position), "
        "elaborated under N permutations of connect statements / block definitions / connect forms and 2+ hash seeds; the "
        "observed outcome (exception class or none) is compared with the class belonging to the injected defect; L itself must "
        "elaborate in every order. distinct_nontrivial = distinct (defect kind, sub-shape, host depth, design hash) tuples")
ASSUMPTIONS = [
  "the expected outcome is known by construction (the defect is injected on purpose); where a mutation is doubly defective (e.g. driving a child's already driven OutPort) either matching class is accepted",
  "expected class table: >=2 drivers -> MultiWriterError; headless net -> NoWriterError; connection loop -> InvalidConnectionError; "
  "port-rule violation -> SignalTypeError (or InvalidConnectionError for the loop-back rule); wrong assignment operator -> "
  "UpdateBlockWriteError / UpdateFFBlockWriteError / UpdateFFNonTopLevelSignalError",
]

MW, NW, IC, ST = "MultiWriterError", "NoWriterError", "InvalidConnectionError", "SignalTypeError"
UB, UF, UN = "UpdateBlockWriteError", "UpdateFFBlockWriteError", "UpdateFFNonTopLevelSignalError"

KINDS = ["dup-writer-same", "dup-writer-overlap-slice", "dup-writer-parent", "block-vs-net", "block-vs-net-overlap",
         "second-connect-const", "second-connect-wire", "no-writer-fresh", "loop-3", "write-own-inport", "write-child-wire",
         "read-child-wire", "write-child-outport", "op-eq-in-update", "op-ilshift-in-update", "op-imatmul-in-ff",
         "op-ilshift-slice-in-ff", "ff-and-comb-same-signal", "self-connect",
         # port-direction / hierarchy rules broken by CONNECTIONS (the target is otherwise undriven: the only defect present)
         "const-to-child-wire", "const-to-child-outport", "const-to-grandchild-inport", "wire-to-child-outport", "read-grandchild-outport",
         "own-inport-from-own-wire",
         # two update blocks reach one writing @s.func helper (directly or through intermediate helpers)
         "two-blocks-one-writing-func",
         # two overlapping slices of one wire are sinks of the SAME net (the shared bits are driven twice by one writer)
         "overlapping-sinks-in-one-net",
         # the SECOND assignment to a signal in one block uses the wrong operator (the first one is right; plain or inside an if)
         "op-wrong-on-later-assignment",
         # an augmented assignment other than @= / <<= on a signal ( += |= ^= ... ) in either kind of block
         "op-other-augassign",
         # a stepped slice of a signal in a connect statement ( s.x[0:8:2] )
         "connect-stepped-slice",
         # the wrong one of @= / <<= inside an @s.func helper that the block calls (directly or through another helper)
         "op-cross-kind-in-func",
         # a register bit selected by a SIGNAL on the left of <<= (the constant-index form is op-ilshift-slice-in-ff)
         "ff-variable-bit-index"]


def plan(tier, seed):
  q = tier == "quick"
  return [{"hashseed": (seed * 41 + i) % 1031, "heap_pad": (i * 257) % 3000, "designs": 6 if q else 100, "orders": 5 if q else 25}
          for i in range(16)]


def thresholds(tier):
  t = {"mutants_judged": 800, "legal_elaborations": 400, "kinds_with_5": len(KINDS) - 2, "elaborations": 3000, "holey_defects_judged": 80,
       "holey_list_designs_with_leading_hole": 60, "lambda_variant_designs": 200, "lambda_variant_defects_judged": 60, "split_position_designs_judged": 500}
  if tier == "thorough":
    t.update({"mutants_judged": 15000, "legal_elaborations": 8000, "elaborations": 60000})
  return t


def knobs_for(rng):
  return {"p_omit_bounds_blk": rng.choice([0, 0.5]), "p_expr_bounds_blk": rng.choice([0, 0.4]), "p_attr_bounds": 0.4, "depth": rng.choice([0, 1, 1, 2]), "max_children": rng.choice([1, 2]), "p_ff": 0.25, "p_connect": 0.45, "p_split": 0.5,
          "p_struct": 0.3, "max_sigs": 4, "expr_depth": 1, "p_if": 0.1, "p_func": rng.choice([0, 0.4]), "p_subclass": rng.choice([0, 0.5])}


def top_assigns(cls, kind):
  """(block, ref) for plain top-level assignments of blocks of that kind"""
  out = []
  for b in cls["blocks"]:
    if b["kind"] == kind:
      rd, wr = G.stmt_reads_writes(b["stmts"], [], [])
      for r in wr:
        out.append((b, r))
  return out


def sub_slice(rng, r, design):
  """a slice overlapping part r (Bits parts only) expressed on the same root; None if not sliceable"""
  if r["steps"] and r["steps"][-1][0] == "s":
    lo, hi = r["steps"][-1][1], r["steps"][-1][2]
    a = rng.randrange(lo, hi); b = rng.randrange(a + 1, hi + 1)
    steps = r["steps"][:-1] + [["s", a, b]]
    return {"path": r["path"], "steps": steps, "lo": r["lo"] + (a - lo), "w": b - a}
  if r["w"] >= 1 and (not r["steps"] or r["steps"][-1][0] == "f"):
    # whole Bits signal or a field: only sliceable if Bits (fields are Bits; whole must be Bits-typed: w known but type unknown here)
    a = rng.randrange(r["w"]); b = rng.randrange(a + 1, r["w"] + 1)
    return {"path": r["path"], "steps": r["steps"] + [["s", a, b]], "lo": r["lo"] + a, "w": b - a}
  return None


def sig_of(design, cls, path):
  """signal spec for a local path (own signal, list element, or child port)"""
  if "." in path:
    iname, rest = path.split(".", 1)
    ccn = dict(cls["children"])[iname]
    return sig_of(design, design["classes"][ccn], rest)
  base = path.split("[")[0]
  for sg in cls["signals"]:
    if sg["name"] == base:
      return sg
  return None


def is_bits_root(design, cls, r):
  sg = sig_of(design, cls, r["path"])
  return sg is not None and isinstance(sg["type"], int)


def inject(rng, design, kind):
  """returns (mutated design, expected classes, info) or None if this design offers no site"""
  d = copy.deepcopy(design)
  classes = [d["classes"][cn] for cn in d["order"]]
  rng.shuffle(classes)
  depth_of = {}
  def walk(cn, dep):
    depth_of[cn] = min(dep, depth_of.get(cn, 99))
    for _, ccn in d["classes"][cn]["children"]:
      walk(ccn, dep + 1)
  walk(d["top"], 0)
  def newblk(cls, name, kind_, stmts, op=None):
    b = {"name": name, "kind": kind_, "stmts": stmts}
    if op: b["op"] = op
    cls["blocks"].insert(rng.randrange(len(cls["blocks"]) + 1), b)
  for cls in classes:
    info = {"class": cls["name"], "depth": depth_of[cls["name"]]}
    ca = top_assigns(cls, "comb")
    if kind == "dup-writer-same" and ca:
      b, r = rng.choice(ca)
      newblk(cls, "zz_dup", "comb", [["=", r, ["c", 0, None]]])
      return d, {MW}, dict(info, target=G.ref_text(r))
    if kind == "dup-writer-overlap-slice":
      cand = [(b, r) for b, r in ca if (r["steps"] and r["steps"][-1][0] in "sf") or is_bits_root(d, cls, r)]
      if cand:
        b, r = rng.choice(cand)
        r2 = sub_slice(rng, r, d)
        if r2 is not None:
          newblk(cls, "zz_dup", "comb", [["=", r2, ["c", 0, None]]])
          return d, {MW}, dict(info, target=G.ref_text(r), second=G.ref_text(r2))
    if kind == "dup-writer-parent":
      cand = [(b, r) for b, r in ca if r["steps"]]
      if cand:
        b, r = rng.choice(cand)
        sg = sig_of(d, cls, r["path"])
        root = {"path": r["path"], "steps": [], "lo": 0, "w": G.twidth(d, sg["type"])}
        val = ["c", 0, None] if isinstance(sg["type"], int) else ["c", 0, root["w"]]
        newblk(cls, "zz_dup", "comb", [["=", root, val]])
        return d, {MW}, dict(info, target=G.ref_text(r), second=G.ref_text(root))
    if kind in ("block-vs-net", "block-vs-net-overlap", "second-connect-const", "second-connect-wire", "loop-3") and cls["connects"]:
      dst, src = rng.choice(cls["connects"])
      if kind == "block-vs-net":
        sg = sig_of(d, cls, dst["path"])
        val = ["c", 0, None] if (dst["steps"] or isinstance(sg["type"], int)) else ["c", 0, dst["w"]]
        newblk(cls, "zz_bvn", "comb", [["=", dst, val]])
        return d, {MW}, dict(info, target=G.ref_text(dst))
      if kind == "block-vs-net-overlap":
        sg = sig_of(d, cls, dst["path"])
        if dst["steps"] or isinstance(sg["type"], int):
          r2 = sub_slice(rng, dst, d)
          if r2 is not None:
            newblk(cls, "zz_bvn", "comb", [["=", r2, ["c", 0, None]]])
            return d, {MW}, dict(info, target=G.ref_text(dst), second=G.ref_text(r2))
      if kind == "second-connect-const":
        sg = sig_of(d, cls, dst["path"])
        if dst["steps"] or isinstance(sg["type"], int):
          cls["connects"].insert(rng.randrange(len(cls["connects"]) + 1), [dst, {"const": 0}])
          return d, {MW}, dict(info, target=G.ref_text(dst))
      if kind == "second-connect-wire":
        sg = sig_of(d, cls, dst["path"])
        if dst["steps"] or isinstance(sg["type"], int):
          cls["signals"].append({"name": "zz_w", "kind": "Wire", "type": dst["w"], "list": None})
          wref = {"path": "zz_w", "steps": [], "lo": 0, "w": dst["w"]}
          newblk(cls, "zz_drv", "comb", [["=", wref, ["c", 1, None]]])
          cls["connects"].insert(rng.randrange(len(cls["connects"]) + 1), [dst, wref])
          return d, {MW}, dict(info, target=G.ref_text(dst))
      if kind == "loop-3" and "const" not in src:
        w = src["w"]
        cls["signals"] += [{"name": "zz_la", "kind": "Wire", "type": w, "list": None}, {"name": "zz_lb", "kind": "Wire", "type": w, "list": None}]
        la = {"path": "zz_la", "steps": [], "lo": 0, "w": w}; lb = {"path": "zz_lb", "steps": [], "lo": 0, "w": w}
        for e in ([la, src], [lb, la], [lb, src]):
          cls["connects"].insert(rng.randrange(len(cls["connects"]) + 1), e)
        return d, {IC}, dict(info, source=G.ref_text(src))
    if kind == "no-writer-fresh":
      w = rng.choice([1, 4, 8])
      cls["signals"] += [{"name": "zz_nx", "kind": "Wire", "type": w, "list": None}, {"name": "zz_ny", "kind": rng.choice(["Wire", "OutPort"]), "type": w, "list": None}]
      cls["connects"].insert(rng.randrange(len(cls["connects"]) + 1),
                             [{"path": "zz_ny", "steps": [], "lo": 0, "w": w}, {"path": "zz_nx", "steps": [], "lo": 0, "w": w}])
      return d, {NW}, info
    if kind == "self-connect":
      w = 4
      cls["signals"].append({"name": "zz_sx", "kind": "Wire", "type": w, "list": None})
      r = {"path": "zz_sx", "steps": [], "lo": 0, "w": w}
      cls["connects"].insert(rng.randrange(len(cls["connects"]) + 1), [r, r])
      return d, {IC}, info
    if kind == "write-own-inport":
      ins = [sg for sg in cls["signals"] if sg["kind"] == "InPort" and isinstance(sg["type"], int) and not sg["list"]]
      if ins:
        sg = rng.choice(ins)
        newblk(cls, "zz_wi", "comb", [["=", {"path": sg["name"], "steps": [], "lo": 0, "w": sg["type"]}, ["c", 0, None]]])
        # a child's InPort may additionally be driven by its parent: then two defects are present
        return d, {ST, MW}, dict(info, port=sg["name"])
    if kind in ("write-child-wire", "read-child-wire", "write-child-outport") and cls["children"]:
      iname, ccn = rng.choice(cls["children"])
      cc = d["classes"][ccn]
      want = "Wire" if "wire" in kind else "OutPort"
      sgs = [sg for sg in cc["signals"] if sg["kind"] == want and isinstance(sg["type"], int) and not sg["list"]]
      if sgs:
        sg = rng.choice(sgs)
        r = {"path": f"{iname}.{sg['name']}", "steps": [], "lo": 0, "w": sg["type"]}
        if kind == "read-child-wire":
          cls["signals"].append({"name": "zz_rw", "kind": "Wire", "type": sg["type"], "list": None})
          newblk(cls, "zz_rd", "comb", [["=", {"path": "zz_rw", "steps": [], "lo": 0, "w": sg["type"]}, ["rd", r]]])
          return d, {ST}, dict(info, signal=G.ref_text(r))
        newblk(cls, "zz_wr", "comb", [["=", r, ["c", 0, None]]])
        return d, {ST, MW}, dict(info, signal=G.ref_text(r))
    if kind in ("const-to-child-wire", "const-to-child-outport", "wire-to-child-outport") and cls["children"]:
      iname, ccn = rng.choice(cls["children"])
      cc = d["classes"][ccn]
      w = rng.choice([1, 4, 8])
      nm = "zz_cw" if kind == "const-to-child-wire" else "zz_co"
      cc["signals"].append({"name": nm, "kind": "Wire" if kind == "const-to-child-wire" else "OutPort", "type": w, "list": None})   # undriven, unread: legal
      tgt = {"path": f"{iname}.{nm}", "steps": [], "lo": 0, "w": w}
      if kind == "wire-to-child-outport":
        cls["signals"].append({"name": "zz_pw", "kind": "Wire", "type": w, "list": None})
        pw = {"path": "zz_pw", "steps": [], "lo": 0, "w": w}
        newblk(cls, "zz_pwb", "comb", [["=", pw, ["c", 1, None]]])
        cls["connects"].insert(rng.randrange(len(cls["connects"]) + 1), [tgt, pw])
      else:
        cls["connects"].insert(rng.randrange(len(cls["connects"]) + 1), [tgt, {"const": rng.getrandbits(w)}])
      return d, {ST}, dict(info, target=G.ref_text(tgt))
    if kind in ("const-to-grandchild-inport", "read-grandchild-outport") and cls["children"]:
      cands = [(iname, ccn, i2, c2) for iname, ccn in cls["children"] for i2, c2 in d["classes"][ccn]["children"]]
      if cands:
        iname, ccn, i2, c2 = rng.choice(cands)
        gc = d["classes"][c2]
        w = rng.choice([1, 4, 8])
        if kind == "const-to-grandchild-inport":
          gc["signals"].append({"name": "zz_gi", "kind": "InPort", "type": w, "list": None})         # unconnected input: legal
          tgt = {"path": f"{iname}.{i2}.zz_gi", "steps": [], "lo": 0, "w": w}
          cls["connects"].insert(rng.randrange(len(cls["connects"]) + 1), [tgt, {"const": rng.getrandbits(w)}])
          return d, {ST}, dict(info, target=G.ref_text(tgt))
        gc["signals"].append({"name": "zz_go", "kind": "OutPort", "type": w, "list": None})
        newblk(gc, "zz_gob", "comb", [["=", {"path": "zz_go", "steps": [], "lo": 0, "w": w}, ["c", 1, None]]])
        cls["signals"].append({"name": "zz_rg", "kind": "Wire", "type": w, "list": None})
        cls["connects"].insert(rng.randrange(len(cls["connects"]) + 1),
                               [{"path": "zz_rg", "steps": [], "lo": 0, "w": w}, {"path": f"{iname}.{i2}.zz_go", "steps": [], "lo": 0, "w": w}])
        return d, {ST}, dict(info, source=f"s.{iname}.{i2}.zz_go")
    if kind == "own-inport-from-own-wire" and depth_of[cls["name"]] > 0:
      w = rng.choice([1, 4, 8])
      cls["signals"] += [{"name": "zz_oi", "kind": "InPort", "type": w, "list": None}, {"name": "zz_ow", "kind": "Wire", "type": w, "list": None}]
      ow = {"path": "zz_ow", "steps": [], "lo": 0, "w": w}
      newblk(cls, "zz_owb", "comb", [["=", ow, ["c", 1, None]]])
      cls["connects"].insert(rng.randrange(len(cls["connects"]) + 1), [{"path": "zz_oi", "steps": [], "lo": 0, "w": w}, ow])
      return d, {ST}, dict(info, port="zz_oi")
    if kind == "ff-variable-bit-index":
      cls["signals"] += [{"name": "zz_vr", "kind": "Wire", "type": 8, "list": None}, {"name": "zz_vi", "kind": "Wire", "type": 3, "list": None}]
      vi = {"path": "zz_vi", "steps": [], "lo": 0, "w": 3}
      newblk(cls, "zz_vib", "comb", [["=", vi, ["c", 1, None]]])
      b = {"name": "zz_vrb", "kind": "ff", "stmts": [], "emit_stmts": [["raw", rng.choice(["s.zz_vr[s.zz_vi] <<= 1", "s.zz_vr[s.zz_vi:s.zz_vi+2] <<= 1"])]]}
      cls["blocks"].insert(rng.randrange(len(cls["blocks"]) + 1), b)
      return d, {UN}, info
    if kind == "overlapping-sinks-in-one-net":
      w = rng.choice([8, 16]); k_ = rng.choice([2, 4])
      a = rng.randrange(0, w - k_ - 1); b = rng.randrange(a + 1, min(a + k_, w - k_))      # [a:a+k) and [b:b+k) overlap
      cls["signals"] += [{"name": "zz_os", "kind": "Wire", "type": k_, "list": None}, {"name": "zz_ob", "kind": "Wire", "type": w, "list": None}]
      src = {"path": "zz_os", "steps": [], "lo": 0, "w": k_}
      newblk(cls, "zz_osb", "comb", [["=", src, ["c", 1, None]]])
      for lo in (a, b):
        cls["connects"].insert(rng.randrange(len(cls["connects"]) + 1), [{"path": "zz_ob", "steps": [["s", lo, lo + k_]], "lo": lo, "w": k_}, src])
      return d, {MW}, dict(info, slices=[[a, a + k_], [b, b + k_]])
    if kind == "two-blocks-one-writing-func":
      w = rng.choice([1, 4, 8])
      cls["signals"].append({"name": "zz_fw", "kind": "Wire", "type": w, "list": None})
      tgt = {"path": "zz_fw", "steps": [], "lo": 0, "w": w}
      wr = [["=", tgt, ["c", 1, None]]]
      funcs = cls.setdefault("funcs", {})
      funcs["zz_drive"] = {"stmts": wr, "kind": "comb"}
      shapes = [rng.choice(["direct", "nested", "nested2"]) for _ in range(2)]
      for bi_, shp in enumerate(shapes):
        if shp == "direct":
          call = "zz_drive"
        else:
          call = f"zz_wrap{bi_}"
          inner = "zz_drive"
          if shp == "nested2":
            funcs[f"zz_mid{bi_}"] = {"stmts": [["call", "zz_drive"]], "kind": "comb"}; inner = f"zz_mid{bi_}"
          funcs[call] = {"stmts": [["call", inner]], "kind": "comb"}
        b = {"name": f"zz_fb{bi_}", "kind": "comb", "stmts": list(wr), "emit_stmts": [["raw", "s.reset"], ["call", call]]}
        cls["blocks"].insert(rng.randrange(len(cls["blocks"]) + 1), b)
      return d, {MW}, dict(info, shapes=shapes)
    if kind in ("op-eq-in-update", "op-ilshift-in-update"):
      blks = [b for b in cls["blocks"] if b["kind"] == "comb" and b["stmts"]]
      if blks:
        b = rng.choice(blks); b["op"] = "=" if kind == "op-eq-in-update" else "<<="
        return d, {UB}, dict(info, block=b["name"])
    if kind == "op-wrong-on-later-assignment":
      cands = [(b, j) for b in cls["blocks"] if b["kind"] in ("comb", "ff") and not b.get("lambda") and not b.get("emit_stmts")
               for j, st in enumerate(b["stmts"]) if st[0] == "=" and not st[1].get("sym")]
      if cands:
        b, j = rng.choice(cands)
        st = b["stmts"][j]
        wrong = rng.choice(["<<=", "="]) if b["kind"] == "comb" else "@="
        bad = ["=", st[1], st[2], wrong]
        shape = rng.choice(["plain", "in-if", "in-else"])
        if shape == "in-if": bad = ["if", ["cmp", "eq", ["rd", st[1]], ["c", 0, None]], [bad], []]
        elif shape == "in-else": bad = ["if", ["cmp", "eq", ["rd", st[1]], ["c", 0, None]], [["=", st[1], ["c", 1 & G.mask(st[1]["w"]), None]]], [bad]]
        b["stmts"] = b["stmts"][:j] + [["=", st[1], ["c", 0, None]], bad] + b["stmts"][j + 1:]
        return d, {UB} if b["kind"] == "comb" else {UF}, dict(info, block=b["name"], wrong=wrong, shape=shape, target=G.ref_text(st[1]))
    if kind == "op-cross-kind-in-func":
      blks = [b for b in cls["blocks"] if b["kind"] in ("comb", "ff") and b["stmts"] and not b.get("lambda") and not b.get("emit_stmts") and not b.get("op")]
      cands = [(b, j) for b in blks for j, st in enumerate(b["stmts"]) if st[0] == "=" and not st[1].get("sym")
               and not any("tmp" in r for r in G.expr_refs(st[2], [])) and "lv" not in json.dumps(st[2])]
      if cands:
        b, j = rng.choice(cands)
        wrong = "<<=" if b["kind"] == "comb" else "@="
        funcs = cls.setdefault("funcs", {})
        fn = f"zz_opf_{b['name']}"
        funcs[fn] = {"stmts": [b["stmts"][j][:3] + [wrong]], "kind": b["kind"]}
        call = fn
        if rng.random() < 0.4:
          funcs[fn + "_out"] = {"stmts": [["call", fn]], "kind": b["kind"]}; call = fn + "_out"
        b["emit_stmts"] = [["raw", "s.reset"]] + b["stmts"][:j] + [["call", call]] + b["stmts"][j + 1:]
        return d, {UB} if b["kind"] == "comb" else {UF}, dict(info, block=b["name"], wrong=wrong, nested=call != fn)
    if kind == "op-other-augassign":
      blks = [b for b in cls["blocks"] if b["kind"] in ("comb", "ff") and b["stmts"] and not b.get("lambda") and not b.get("emit_stmts")]
      cands = [(b, j) for b in blks for j, st in enumerate(b["stmts"]) if st[0] == "=" and not st[1].get("sym")]
      if cands:
        b, j = rng.choice(cands)
        opx = rng.choice(["+=", "|=", "^=", "&=", "-=", ">>="])
        b["stmts"] = b["stmts"][:j] + [b["stmts"][j][:3] + [opx]] + b["stmts"][j + 1:]
        return d, {UB} if b["kind"] == "comb" else {UF}, dict(info, block=b["name"], op=opx)
    if kind == "connect-stepped-slice":
      cands = [(i, k_) for i, con in enumerate(cls["connects"]) for k_, r in enumerate(con)
               if "const" not in r and r.get("steps") and r["steps"][-1][0] == "s" and len(r["steps"][-1]) == 3 and r["steps"][-1][2] - r["steps"][-1][1] >= 2]
      if cands:
        i, k_ = rng.choice(cands)
        r = cls["connects"][i][k_]
        r["steps"] = r["steps"][:-1] + [r["steps"][-1] + [rng.choice([1, 2, -1])]]
        return d, {"AssertionError"}, dict(info, connect=G.emit_connect(cls["connects"][i][0], cls["connects"][i][1], 0))
    if kind == "op-imatmul-in-ff":
      blks = [b for b in cls["blocks"] if b["kind"] == "ff" and b["stmts"]]
      if blks:
        b = rng.choice(blks); b["op"] = "@="
        return d, {UF}, dict(info, block=b["name"])
    if kind == "op-ilshift-slice-in-ff":
      fa = [(b, r) for b, r in top_assigns(cls, "ff") if not r["steps"] and r["w"] >= 2 and is_bits_root(d, cls, r)]
      if fa:
        b, r = rng.choice(fa)
        r2 = sub_slice(rng, r, d)
        newblk(cls, "zz_ffs", "ff", [["=", r2, ["c", 0, None]]])
        return d, {UN, MW}, dict(info, target=G.ref_text(r2))
    if kind == "ff-and-comb-same-signal":
      fa = [(b, r) for b, r in top_assigns(cls, "ff") if not r["steps"] and is_bits_root(d, cls, r)]
      if fa:
        b, r = rng.choice(fa)
        newblk(cls, "zz_fc", "comb", [["=", r, ["c", 0, None]]])
        return d, {MW}, dict(info, target=G.ref_text(r))
  return None


def outcome(design, rng, perm):
  co, cs, bo = {}, {}, {}
  for cn, c in design["classes"].items():
    n = len(c["connects"]); order = list(range(n))
    m = len(c["blocks"]); border = list(range(m))
    if perm: rng.shuffle(order); rng.shuffle(border)
    co[cn] = order; bo[cn] = border
    cs[cn] = [rng.randrange(4) if perm else 0 for _ in range(n)]
  src = G.emit(design, co, cs, bo)
  mod = G.load_source(src, "c09")
  try:
    try:
      top = getattr(mod, design["top"])()
      top.elaborate()
      return None, src, ""
    except Exception as e:
      # a history: the rejected object is elaborated AGAIN (a script that catches the error and retries, a pass group that calls
      # elaborate() itself): the design is as illegal as before and must not be accepted now
      try:
        top.elaborate()
        return type(e).__name__ + "-but-accepted-by-a-second-elaborate()", src, str(e)[:300]
      except Exception:
        pass
      # ... and a SECOND INSTANCE of the same classes (per-class caches were filled while the first one was being rejected)
      try:
        top2 = getattr(mod, design["top"])()
        top2.elaborate()
        return type(e).__name__ + "-but-accepted-for-a-second-instance-of-the-class", src, str(e)[:300]
      except Exception:
        pass
      return type(e).__name__, src, str(e)[:300]
  finally:
    G.unload(mod)


def gen_holey(rng):
  """a parent whose hardware sits in LISTS WITH HOLES ( [None, Wire(8), ...], holes first / inside / last, also nested lists and
  lists of sub-components ); one defect whose net touches only objects of such lists - or none (control).  -> source, defect"""
  n = rng.randrange(2, 5)
  holes = rng.choice([[0], [0], [n], [1], [0, n + 1], [0, 1]])
  def with_holes(items):
    out = list(items)
    for h in sorted(holes): out.insert(min(h, len(out)), "None")
    return out
  idx = [i for i, x in enumerate(with_holes(["x"] * n)) if x != "None"]       # positions of the real elements
  a, b = rng.sample(idx, 2) if len(idx) >= 2 else (idx[0], idx[0])
  c = next((i for i in idx if i not in (a, b)), None)
  comp = rng.random() < 0.4
  defect = rng.choice(["none", "none", "no-writer", "loop", "two-blocks", "block-and-net", "two-nets"] if not comp else
                      ["none", "outport-to-sibling-outport", "two-parents-drive-child-input", "child-input-undriven-net"])
  L = ["from pymtl3 import *", "class HSrc(Component):", "  def construct(s):", "    s.i = InPort(8); s.out = OutPort(8)", "    @update", "    def up_src():", "      s.out @= s.i + 1"]
  L += ["class HTop(Component):", "  def construct(s):", "    s.in_ = InPort(8); s.o = OutPort(8)"]
  if not comp:
    el = with_holes(["Wire(8)"] * n)
    L.append("    s.w = [" + ", ".join(el) + "]" if rng.random() < 0.7 else "    s.w = [" + ", ".join(el) + "]; s.w2 = [None, s.w]" if False else "    s.w = [" + ", ".join(el) + "]")
    others = [i for i in idx if i not in (a, b)]
    def drive(i): return ["    @update", f"    def up_w{i}():", f"      s.w[{i}] @= s.in_ + {i}"]
    if defect == "none":
      L += drive(a) + [f"    s.w[{b}] //= s.w[{a}]", f"    s.o //= s.w[{b}]"]
      for i in others: L += drive(i)
      exp = None
    elif defect == "no-writer":
      L += [f"    s.w[{a}] //= s.w[{b}]", "    s.o //= s.in_"]; exp = {"NoWriterError"}
      for i in others: L += drive(i)
    elif defect == "loop":
      if c is None: L += [f"    s.w[{a}] //= s.w[{b}]", f"    s.w[{b}] //= s.w[{a}]"]
      else: L += [f"    s.w[{a}] //= s.w[{b}]", f"    s.w[{b}] //= s.w[{c}]", f"    s.w[{c}] //= s.w[{a}]"]
      L += ["    s.o //= s.in_"]; exp = {"InvalidConnectionError", "NoWriterError"}
    elif defect == "two-blocks":
      L += drive(a) + ["    @update", "    def up_again():", f"      s.w[{a}] @= s.in_"] + [f"    s.o //= s.w[{a}]"]; exp = {"MultiWriterError"}
      for i in [b] + others: L += drive(i)
    elif defect == "block-and-net":
      L += drive(a) + drive(b) + [f"    s.w[{a}] //= s.w[{b}]", "    s.o //= s.in_"]; exp = {"MultiWriterError"}
      for i in others: L += drive(i)
    else:
      if c is None: return gen_holey(rng)
      L += drive(a) + drive(b) + [f"    s.w[{c}] //= s.w[{a}]", f"    s.w[{c}] //= s.w[{b}]", "    s.o //= s.in_"]; exp = {"MultiWriterError"}
  else:
    el = with_holes(["HSrc()"] * n)
    L.append("    s.c = [" + ", ".join(el) + "]")
    if defect == "none":
      L += [f"    s.c[{i}].i //= s.in_" for i in idx] + [f"    s.o //= s.c[{a}].out"]; exp = None
    elif defect == "outport-to-sibling-outport":
      L += [f"    s.c[{i}].i //= s.in_" for i in idx] + [f"    s.c[{a}].out //= s.c[{b}].out", "    s.o //= s.in_"]; exp = {"MultiWriterError", "SignalTypeError"}
    elif defect == "two-parents-drive-child-input":
      L += [f"    s.c[{i}].i //= s.in_" for i in idx if i != a] + ["    @update", "    def up_p():", f"      s.c[{a}].i @= s.in_", "    @update", "    def up_q():", f"      s.c[{a}].i @= s.in_ + 1",
                                                              "    s.o //= s.in_"]; exp = {"MultiWriterError"}
    else:
      L += [f"    s.c[{i}].i //= s.in_" for i in idx if i not in (a, b)] + [f"    s.c[{a}].i //= s.c[{b}].i", "    s.o //= s.in_"]; exp = {"NoWriterError"}
  return "\n".join(L) + "\n", defect, exp, {"holes_at": holes, "elements": n, "components": comp}


def run_holey(sh, case):
  from pymtl3 import DefaultPassGroup
  rng = sh.rng("holey", case)
  src, defect, exp, info = gen_holey(rng)
  mod = G.load_source(src, "c09h")
  try:
    try:
      top = mod.HTop(); top.elaborate(); oc = None; msg = ""
    except Exception as e:
      oc, msg = type(e).__name__, str(e)[:200]
    sh.count("elaborations"); sh.count("holey_list_designs"); sh.count("holey:" + defect)
    if info["holes_at"][0] == 0: sh.count("holey_list_designs_with_leading_hole")
    ctx = dict(info, defect=defect, design_source=src)
    if exp is None:
      if oc is not None:
        sh.violation("defect-free-design-rejected", dict(ctx, outcome=oc, message=msg), case=("holey", case)); return
      # the legal control also has to WORK: the value travels through the objects of the holey list
      top.apply(DefaultPassGroup()); top.sim_reset(); top.in_ @= 9; top.sim_eval_combinational()
      want = {False: None, True: 10}[info["components"]]
      got = int(top.o)
      if info["components"] and got != 10 or (not info["components"] and not (9 <= got <= 9 + 12)):
        sh.violation("legal-holey-list-design-computes-a-wrong-value", dict(ctx, got=got), case=("holey", case))
      return
    sh.count("holey_defects_judged")
    if oc is None:
      sh.violation("defective-design-elaborated-without-error", dict(ctx, expected=sorted(exp)), case=("holey", case))
    elif oc not in exp:
      sh.violation("defective-design-rejected-with-unrelated-error", dict(ctx, expected=sorted(exp), got=oc, message=msg), case=("holey", case))
  finally:
    G.unload(mod)


LAMBDA_VAR_SRC = """
from pymtl3 import *
class LLeaf(Component):
  def construct(s):
    s.in_ = InPort(8); s.out = OutPort(8); s.w = Wire(8)
    @update
    def up_leaf():
      s.w @= s.in_ + 1
      s.out @= s.w
class LStage(Component):
  # the expression of the lambda connection is chosen by a construct parameter
  def construct(s, variant):
    s.in_ = InPort(8); s.out = OutPort(8); s.leaf = LLeaf()
    s.leaf.in_ //= s.in_
    if variant == "plain":           # ( a lambda connection has to stand on a line of its own )
      s.out //= lambda: s.leaf.out + 1
    elif variant == "biased":
      s.bias = Wire(8)
      @update
      def up_bias(): s.bias @= 3
      s.out //= lambda: s.leaf.out + s.bias
    elif variant == "input":
      s.out //= lambda: s.in_ ^ 0x55
    elif variant == "peek":          # ILLEGAL: reads a wire of a child
      s.out //= lambda: s.leaf.w + 1
class LTop(Component):
  def construct(s, variants):
    s.in_ = InPort(8); s.o = [OutPort(8) for _ in variants]
    s.st = [LStage(v) for v in variants]
    for k in range(len(variants)):
      s.st[k].in_ //= s.in_; s.o[k] //= s.st[k].out
"""


def run_lambda_variants(sh, case):
  """several instances of ONE class whose lambda connection differs with a construct parameter (lambda blocks are per instance):
  a design holding an illegal variant is rejected whatever position the offending instance has, a design of legal variants
  elaborates in every order and computes each instance's own expression"""
  from pymtl3 import DefaultPassGroup
  rng = sh.rng("lambdavar", case)
  n = rng.randrange(2, 5)
  legal = [rng.choice(["plain", "biased", "input"]) for _ in range(n)]
  if len(set(legal)) == 1: legal[rng.randrange(n)] = rng.choice([v for v in ("plain", "biased", "input") if v != legal[0]])
  bad = rng.random() < 0.5
  variants = list(legal)
  if bad: variants[rng.randrange(n)] = "peek"
  mod = G.load_source(LAMBDA_VAR_SRC, "c09lv")
  try:
    orders = [list(variants), list(reversed(variants))] + [rng.sample(variants, n) for _ in range(2)]
    for vs in orders:
      sh.count("elaborations"); sh.count("lambda_variant_designs")
      try:
        top = mod.LTop(vs); top.elaborate(); oc = None
      except Exception as e:
        oc = type(e).__name__; msg = str(e)[:200]
      ctx = {"variants_in_construction_order": vs, "design_source": LAMBDA_VAR_SRC}
      if bad:
        sh.count("lambda_variant_defects_judged")
        if oc is None:
          sh.violation("defective-design-elaborated-without-error", dict(ctx, defect="lambda reads a wire of a child component", expected=["SignalTypeError"]), case=("lambdavar", case)); return
        if oc != "SignalTypeError":
          sh.violation("defective-design-rejected-with-unrelated-error", dict(ctx, expected=["SignalTypeError"], got=oc, message=msg), case=("lambdavar", case)); return
      else:
        if oc is not None:
          sh.violation("defect-free-design-rejected", dict(ctx, outcome=oc, message=msg), case=("lambdavar", case)); return
        top.apply(DefaultPassGroup()); top.sim_reset()
        x = rng.getrandbits(8); top.in_ @= x; top.sim_eval_combinational()
        want = {"plain": (x + 2) & 255, "biased": (x + 1 + 3) & 255, "input": x ^ 0x55}
        got = [int(o) for o in top.o]
        if got != [want[v] for v in vs]:
          sh.violation("legal-lambda-variant-design-computes-a-wrong-value", dict(ctx, input=x, got=got, expected=[want[v] for v in vs]), case=("lambdavar", case)); return
  finally:
    G.unload(mod)


TWICE_SRC = """
from pymtl3 import *
class TTop(Component):
  def construct(s):
    s.in_ = InPort(16); s.w = Wire(16); s.out = OutPort(1); s.o4 = OutPort(4)
    @update
    def wr(): s.w @= s.in_
    @update
    def rd():
      s.out @= {read1}
      s.o4 @= {read4}
"""


def run_twice_probe(sh, case):
  """a class whose update block uses a form the read / write analysis refuses: EVERY instance of the class built in this process
  is refused alike (the first refusal must not leave per-class results behind that let the next instance through); a class
  with supported forms is accepted every time and computes the right values"""
  from pymtl3 import DefaultPassGroup
  rng = sh.rng("twice", case)
  a = rng.randrange(0, 8); b = rng.randrange(a + 4, 17)
  forms1 = [(f"s.w[{a}:{b}][1]", False), (f"s.w[{a + 1}]", True), (f"s.w[{a}:{b}][0:2][0]", False)]
  forms4 = [(f"s.w[{a}:{b}][0:4]", None), (f"s.w[{a}:{a + 4}]", True)]
  (r1, ok1), (r4, ok4) = rng.choice(forms1), rng.choice(forms4)
  src = TWICE_SRC.format(read1=r1, read4=r4)
  mod = G.load_source(src, "c09twice")
  try:
    outs = []
    for k in range(3):
      try:
        top = mod.TTop(); top.elaborate(); outs.append(None)
      except Exception as e:
        outs.append(type(e).__name__)
    sh.count("elaborations", 3); sh.count("same_class_built_three_times")
    if len(set(outs)) != 1:
      sh.violation("instances-of-one-class-judged-differently-in-one-process", {"outcomes": outs, "reads": [r1, r4], "design_source": src}, case=("twice", case)); return
    if outs[0] is None:
      top.apply(DefaultPassGroup()); top.sim_reset()
      x = rng.getrandbits(16); top.in_ @= x; top.sim_eval_combinational()
      e1 = (x >> (a + 1)) & 1
      e4 = (x >> a) & 15
      if int(top.out) != e1 or int(top.o4) != e4:
        sh.violation("legal-design-computes-a-wrong-value", {"reads": [r1, r4], "in_": hex(x), "got": [int(top.out), int(top.o4)], "expected": [e1, e4], "design_source": src}, case=("twice", case))
    else: sh.count("refused_forms_refused_every_time")
  finally:
    G.unload(mod)


LOOPRANGE_SRC = """
from pymtl3 import *
class LSink(Component):
  def construct(s):
    s.in_ = InPort(8)
class Undriven(Component):          # s.ws[{n}] is never written, but feeds s.k.in_
  def construct(s):
    s.ws = [Wire(8) for _ in range({n} + 1)]
    s.k = LSink()
    s.k.in_ //= s.ws[{n}]
    @update
    def up():
      for i in range({n}):
        s.ws[i] @= 1
class Halves(Component):            # no element has two drivers
  def construct(s):
    s.out = [OutPort(8) for _ in range({m} * 2)]
    @update
    def lo():
      for i in range(0, {m}): s.out[i] @= 1
    @update
    def hi():
      for i in range({m}, {m} * 2): s.out[i] @= 2
class Control(Component):           # the same halves written element by element: accepted
  def construct(s):
    s.out = [OutPort(8) for _ in range(2)]
    @update
    def lo(): s.out[0] @= 1
    @update
    def hi(): s.out[1] @= 2
"""


def run_looprange_probe(sh):
  """probe stream for the listed finding F-S22: a list index that is a loop variable counts as EVERY element, whatever the range of
  the loop - a net fed by an element the loop never reaches has no driver yet elaborates, two blocks writing disjoint halves with
  two loops are refused as a double driver"""
  rng = sh.rng("looprange")
  n, m = rng.randrange(1, 4), rng.randrange(1, 4)
  mod = G.load_source(LOOPRANGE_SRC.format(n=n, m=m), "c09loop")
  mech = "loop-variable-index-counts-as-every-element"
  try:
    res = {}
    for nm in ("Undriven", "Halves", "Control"):
      try: getattr(mod, nm)().elaborate(); res[nm] = None
      except Exception as e: res[nm] = type(e).__name__
      sh.count("elaborations")
    sh.count("loop_range_probes")
    if res["Control"] is not None:
      sh.violation("defect-free-design-rejected", {"design": "Control", "outcome": res["Control"], "design_source": LOOPRANGE_SRC.format(n=n, m=m)}, case=("looprange", "control")); return
    if res["Undriven"] is None:
      sh.violation("defective-design-elaborated-without-error", {"defect": "net-without-driver (the loop stops before the element that feeds the net)", "expected": ["NoWriterError"],
                   "design": "Undriven", "n": n}, mechanism=mech, case=("looprange", "undriven"))
    if res["Halves"] is not None:
      sh.violation("defect-free-design-rejected", {"design": "Halves (two loops over disjoint index ranges)", "outcome": res["Halves"], "m": m}, mechanism=mech, case=("looprange", "halves"))
  finally:
    G.unload(mod)


def run_slicepair_case(sh, case):
  """two update blocks that EACH write two mutually overlapping slices of one wire (legal inside one block: the later statement
  wins), plus blocks that only read some of the slices - declared in every order, so that the slice objects are created in every
  order.  When a slice of one block overlaps a slice of the other, every order is refused with MultiWriterError; when the two
  blocks keep to disjoint bit ranges, every order elaborates"""
  import itertools
  rng = sh.rng("slicepair", case)
  W = 16
  cross = rng.random() < 0.6
  a0 = rng.randrange(0, 2); a1 = a0 + rng.randrange(3, 5); a2 = a1 - rng.randrange(1, 3); a3 = a2 + rng.randrange(3, 5)      # A: [a0:a1], [a2:a3] overlap
  b0 = (a3 - rng.randrange(1, 3)) if cross else a3 + rng.randrange(0, 2)                                                 # B starts inside / behind A's second slice
  b1 = b0 + rng.randrange(3, 5); b2 = b1 - rng.randrange(1, 3); b3 = min(W, b2 + rng.randrange(3, 5))
  if not (b2 < b3): return
  A = [(a0, a1), (a2, a3)]; B = [(b0, b1), (b2, b3)]
  if rng.random() < 0.5: A.reverse()
  if rng.random() < 0.5: B.reverse()
  readers = rng.sample(A + B, rng.randrange(1, 3))
  blocks = {"wa": ["    @update", "    def wa():"] + [f"      s.x[{l}:{h}] @= s.in_[0:{h - l}]" for l, h in A],
            "wb": ["    @update", "    def wb():"] + [f"      s.x[{l}:{h}] @= s.in_[1:{h - l + 1}]" for l, h in B]}
  for i, (l, h) in enumerate(readers):
    blocks[f"rd{i}"] = ["    @update", f"    def rd{i}():", f"      s.o[{i}] @= zext(s.x[{l}:{h}], {W})"]
  names = sorted(blocks)
  perms = list(itertools.permutations(names))
  rng.shuffle(perms)
  seen = {}
  for perm in perms[:12]:
    src = "\n".join(["from pymtl3 import *", "class SPTop(Component):", "  def construct(s):",
                     f"    s.in_ = InPort({W}); s.x = Wire({W}); s.o = [OutPort({W}) for _ in range({len(readers)})]"] + [l for nm in perm for l in blocks[nm]]) + "\n"
    mod = G.load_source(src, "c09sp")
    try:
      try: mod.SPTop().elaborate(); oc = None
      except Exception as e: oc = type(e).__name__
    finally:
      G.unload(mod)
    sh.count("elaborations"); sh.count("slice_pair_orders_judged")
    seen[perm] = oc
    if cross and oc is None:
      sh.violation("defective-design-elaborated-without-error", {"defect": "two blocks write overlapping slices of one wire", "block_order": list(perm), "block_A_slices": A, "block_B_slices": B,
                   "expected": ["MultiWriterError"], "design_source": src}, case=("slicepair", case)); return
    if cross and oc != "MultiWriterError":
      sh.violation("defective-design-rejected-with-unrelated-error", {"defect": "two blocks write overlapping slices of one wire", "got": oc, "block_order": list(perm), "design_source": src}, case=("slicepair", case)); return
    if not cross and oc is not None:
      sh.violation("defect-free-design-rejected", {"outcome": oc, "block_order": list(perm), "block_A_slices": A, "block_B_slices": B, "design_source": src},
                   case=("slicepair", case)); return
  sh.count("slice_pair_designs_with_cross_overlap" if cross else "slice_pair_designs_disjoint")


LOOPBACK_SRC = """
from pymtl3 import *
class LChild(Component):
  def construct(s, n, inner):
    s.in_ = [InPort(8) for _ in range(n)]; s.out = [OutPort(8) for _ in range(n)]; s.res = OutPort(8)
    s.src = InPort(8)
    @update
    def up_first():
      s.out[0] @= s.src + 1
    for i in range(1, n):
      s.out[i] //= s.in_[i - 1]                # a pass-through stage
    for i in inner:
      s.in_[i] //= s.out[i]                    # ILLEGAL: the child drives its own input port from its own output
    @update
    def up_res():
      s.res @= s.in_[n - 1]
class LTop(Component):
  def construct(s, n, inner, order):
    s.src = InPort(8); s.res = OutPort(8)
    s.c = LChild(n, inner)
    stmts = [(s.c.src, s.src), (s.res, s.c.res)] + [(s.c.in_[i], s.c.out[i]) for i in range(n) if i not in inner]   # loopbacks made by the PARENT: legal
    for k in order:
      if k < len(stmts): connect(*stmts[k])
"""


def run_loopback_case(sh, case):
  """a chain out[0] -> in[0] -> out[1] -> in[1] ... through ONE child whose out -> in loopbacks are made by the parent (legal) except
  for a random subset that the child closes itself (illegal: a component driving its own InPort), at any position of the chain and
  with the parent's statements in any order: refused iff the subset is not empty, and simulating the legal ones gives src + 1"""
  from pymtl3 import DefaultPassGroup
  rng = sh.rng("loopback", case)
  n = rng.randrange(2, 6)
  inner = sorted(rng.sample(range(n), rng.choice([0, 0, 1, 1, 2]))) if n > 2 else rng.choice([[], [rng.randrange(n)]])
  order = list(range(n + 2)); rng.shuffle(order)
  mod = G.load_source(LOOPBACK_SRC, "c09loopback")
  try:
    try:
      top = mod.LTop(n, inner, order); top.elaborate(); oc = None
    except Exception as e: oc = type(e).__name__
    sh.count("elaborations"); sh.count("loopback_designs_judged")
    info = {"stages": n, "loopbacks_closed_by_the_child_itself": inner, "parent_statement_order": order}
    if inner and oc is None:
      sh.violation("defective-design-elaborated-without-error", dict(info, defect="a component connects its own OutPort to its own InPort", expected=["InvalidConnectionError", "SignalTypeError"],
                   design_source=LOOPBACK_SRC), case=("loopback", case)); return
    if not inner:
      if oc is not None:
        sh.violation("defect-free-design-rejected", dict(info, outcome=oc, design_source=LOOPBACK_SRC), case=("loopback", case)); return
      top.apply(DefaultPassGroup()); top.sim_reset()
      x = rng.getrandbits(8); top.src @= x; top.sim_eval_combinational()
      if int(top.res) != (x + 1) & 255:
        sh.violation("legal-design-computes-a-wrong-value", dict(info, src=x, res=int(top.res)), case=("loopback", case)); return
      sh.count("legal_loopback_chains_simulated")
    else: sh.count("loopback_rejection:" + str(oc))
  finally:
    G.unload(mod)


def run_constnet_overlap_case(sh, case):
  """ONE net whose readers include two slices of the same wire: overlapping slices give the shared bits two drivers (refused with
  MultiWriterError, whatever drives the net: a constant, a top-level input, an update block), disjoint slices are fine - for every
  order of the connect statements"""
  import itertools
  rng = sh.rng("constnet", case)
  drv = rng.choice(["const", "const", "input", "block"])
  overlap = rng.random() < 0.6
  a = rng.randrange(0, 3); w = rng.randrange(2, 5); b = a + w
  c = (b - rng.randrange(1, w)) if overlap else b + rng.randrange(0, 2)
  stmts = [f"s.x[{a}:{b}] //= s.k", f"s.x[{c}:{c + w}] //= s.k"]
  if drv == "const": stmts.append(f"s.k //= {rng.randrange(1 << w)}")
  elif drv == "input": stmts.append("s.k //= s.kin")
  perms = list(itertools.permutations(range(len(stmts))))
  for perm in perms:
    src = "\n".join(["from pymtl3 import *", "class CNTop(Component):", "  def construct(s):",
                     f"    s.kin = InPort({w}); s.k = Wire({w}); s.x = Wire(16); s.o = OutPort(16)"] + ["    " + stmts[i] for i in perm] +
                    (["    @update", "    def up_k():", "      s.k @= s.kin"] if drv == "block" else []) + ["    @update", "    def up_o():", "      s.o @= s.x"]) + "\n"
    mod = G.load_source(src, "c09cn")
    try:
      try: mod.CNTop().elaborate(); oc = None
      except Exception as e: oc = type(e).__name__
    finally:
      G.unload(mod)
    sh.count("elaborations"); sh.count("one_net_two_slices_orders_judged")
    if overlap and oc is None:
      sh.violation("defective-design-elaborated-without-error", {"defect": "two overlapping slices of one wire read the same net: the shared bits have two drivers", "net_driven_by": drv,
                   "slices": [[a, b], [c, c + w]], "expected": ["MultiWriterError"], "design_source": src}, case=("constnet", case)); return
    if not overlap and oc is not None:
      sh.violation("defect-free-design-rejected", {"outcome": oc, "net_driven_by": drv, "slices": [[a, b], [c, c + w]], "design_source": src}, case=("constnet", case)); return
  sh.count("one_net_two_slices:" + drv + (":overlap" if overlap else ":disjoint"))


def run_ff_fullslice_case(sh, case):
  """<<= on a part select inside update_ff is refused (python would assign a temporary copy of the bits) - also when the part
  select happens to span the WHOLE register: s.cnt[0:W] with W the register's width, s.flag[0] on a 1-bit register.  If such a
  design is accepted all the same, the register at least takes the values assigned to it"""
  from pymtl3 import DefaultPassGroup
  rng = sh.rng("fullslice", case)
  W = rng.choice([1, 1, 4, 8, 33])
  tgt = rng.choice(["whole", "full-slice", "full-slice", "partial"] if W > 1 else ["whole", "bit0", "bit0", "full-slice"])
  lhs = {"whole": "s.r", "full-slice": f"s.r[0:{W}]", "bit0": "s.r[0]", "partial": f"s.r[0:{W - 1}]"}[tgt]
  rhs = "s.in_" if tgt != "partial" else f"s.in_[0:{W - 1}]"
  src = f"from pymtl3 import *\nclass FSTop(Component):\n  def construct(s):\n    s.in_ = InPort({W}); s.r = OutPort({W})\n    @update_ff\n    def ff():\n      {lhs} <<= {rhs}\n"
  mod = G.load_source(src, "c09fs")
  try:
    try: top = mod.FSTop(); top.elaborate(); oc = None
    except Exception as e: oc = type(e).__name__
    sh.count("elaborations"); sh.count("ff_part_select_designs_judged"); sh.count("ff_target:" + tgt + (":accepted" if oc is None else ":refused"))
    if tgt == "whole":
      if oc is not None: sh.violation("defect-free-design-rejected", {"outcome": oc, "design_source": src}, case=("fullslice", case))
      return
    if oc is None:
      # accepted: then it has to work
      top.apply(DefaultPassGroup()); top.sim_reset(); bad = None
      for _ in range(4):
        v = rng.getrandbits(W) | 1; top.in_ @= v; top.sim_tick()
        if int(top.r) != (v if tgt != "partial" else v & ((1 << (W - 1)) - 1)): bad = (v, int(top.r)); break
      if bad is not None:
        sh.violation("defective-design-elaborated-without-error", {"defect": "<<= on a part select in update_ff (the pending value lands in a temporary)", "target": lhs, "width": W,
                     "expected": ["UpdateFFNonTopLevelSignalError"], "assigned_then_read_after_the_edge": list(bad), "design_source": src}, case=("fullslice", case))
  finally:
    G.unload(mod)


SPLITPOS_SRC = """
from pymtl3 import *
class SPChild(Component):
  def construct(s, own_part, self_write):
    s.in_ = InPort(8); s.out = OutPort(8); s.k = InPort(4)
    if own_part == "slice":
      @update
      def up_lo(): s.out[0:4] @= s.k
    elif own_part == "whole":
      @update
      def up_all(): s.out @= s.in_
    if self_write:                      # forbidden: a component writes its own InPort
      @update
      def up_self(): s.in_[0:4] @= 5
class SPTop(Component):
  def construct(s, shape):
    s.k = InPort(4); s.o = OutPort(8)
    if shape == "parent-writes-other-half-of-child-outport":       # forbidden position for the parent's block
      s.c = SPChild("slice", False); s.c.k //= s.k; s.c.in_ //= 0
      @update
      def up_hi(): s.c.out[4:8] @= s.k
    elif shape == "child-writes-half-of-own-inport":               # forbidden position for the child's block
      s.c = SPChild("whole", True); s.c.k //= s.k
      @update
      def up_p(): s.c.in_[4:8] @= s.k
    elif shape == "control-parent-writes-halves-of-child-inport":
      s.c = SPChild("whole", False); s.c.k //= s.k
      @update
      def up_a(): s.c.in_[4:8] @= s.k
      @update
      def up_b(): s.c.in_[0:4] @= s.k
    else:                                                          # control: the child drives both halves of its own port
      s.c = SPChild("slice", False); s.c.k //= s.k; s.c.in_ //= 0
      s.d = SPChild("whole", False); s.d.k //= s.k; s.d.in_ //= s.c.out
    s.o //= s.c.out
"""


def run_split_position_case(sh, case):
  """two blocks of two DIFFERENT components write disjoint halves of one port, one from a legal hierarchical position, one from a
  forbidden one (parent writing the child's OutPort, child writing its own InPort): refused, in whatever order blocks and
  components are visited (several instances are built and kept alive: the visiting order follows their addresses)"""
  rng = sh.rng("splitpos", case)
  mod = G.load_source(SPLITPOS_SRC, "c09sp")
  keep = []
  try:
    for shape in ("parent-writes-other-half-of-child-outport", "child-writes-half-of-own-inport", "control-parent-writes-halves-of-child-inport", "control-two-children"):
      for rep in range(4):
        keep.append([object() for _ in range(rng.randrange(1, 40))])     # moves the addresses
        top = mod.SPTop(shape); keep.append(top)
        try: top.elaborate(); oc = None
        except Exception as e: oc = type(e).__name__
        sh.count("elaborations"); sh.count("split_position_designs_judged")
        if shape.startswith("control"):
          if oc is not None: sh.violation("defect-free-design-rejected", {"outcome": oc, "shape": shape, "design_source": SPLITPOS_SRC}, case=("splitpos", case, shape)); return
        elif oc is None:
          sh.violation("defective-design-elaborated-without-error", {"defect": "a port written from a forbidden hierarchical position next to a legal write of its other half", "shape": shape,
                       "expected": ["SignalTypeError"], "instance_no": rep, "design_source": SPLITPOS_SRC}, case=("splitpos", case, shape)); return
  finally:
    G.unload(mod)


def run_shard(sh):
  if sh.idx == 0: run_looprange_probe(sh)
  for case in range(6 if sh.tier == "quick" else 60):
    run_twice_probe(sh, sh.idx * 1000 + case)
    run_slicepair_case(sh, sh.idx * 1000 + case)
    run_loopback_case(sh, sh.idx * 1000 + case)
    run_constnet_overlap_case(sh, sh.idx * 1000 + case)
    run_ff_fullslice_case(sh, sh.idx * 1000 + case)
    run_split_position_case(sh, sh.idx * 1000 + case)
  for case in range(12 if sh.tier == "quick" else 200):
    run_holey(sh, sh.idx * 1000 + case)
  for case in range(6 if sh.tier == "quick" else 60):
    run_lambda_variants(sh, sh.idx * 1000 + case)
  per_kind = {}
  for case in range(sh.params["designs"]):
    rng = sh.rng("design", case)
    base = G.generate(rng, knobs_for(rng))
    if rng.random() < 0.5:
      # still defect-free: one block writing two overlapping slices of a fresh wire (single driver per bit)
      cls = base["classes"][rng.choice(base["order"])]
      w = rng.choice([4, 8, 16]); a = rng.randrange(1, w - 1); b = rng.randrange(a + 1, w)
      cls["signals"].append({"name": "zz_ov", "kind": "Wire", "type": w, "list": None})
      whole = {"path": "zz_ov", "steps": [], "lo": 0, "w": w}
      variant = rng.randrange(3)
      if variant == 0:
        stmts = [["=", {"path": "zz_ov", "steps": [["s", 0, b]], "lo": 0, "w": b}, ["c", 0, None]],
                 ["=", {"path": "zz_ov", "steps": [["s", a, w]], "lo": a, "w": w - a}, ["c", 1, None]]]
      else:
        # the whole signal (a default) and one of its slices written by the same block, in either order
        stmts = [["=", whole, ["c", 0, None]], ["=", {"path": "zz_ov", "steps": [["s", a, b]], "lo": a, "w": b - a}, ["c", 1, None]]]
        if variant == 2: stmts.reverse()
      blk_ = {"name": "zz_ovb", "kind": "comb", "stmts": stmts}
      if rng.random() < 0.5:
        # a local name that begins with a python keyword of the block header ( def... ) at the start of a body line
        blk_["emit_stmts"] = [["raw", rng.choice(["default_v = 1", "defer = 0", "define_x = 2", "deflt = 3"])]] + stmts
        if rng.random() < 0.5:
          # a helper function defined INSIDE the block (plain python; its def line is indented deeper than the block's own)
          blk_["emit_stmts"] = [["raw", "def local_helper(v):"], ["raw", "  return v + 1"], ["raw", "@staticmethod" if False else "unused_ = local_helper(1)"]] + blk_["emit_stmts"]
          sh.count("legal_blocks_with_nested_def")
      cls["blocks"].append(blk_)
      if rng.random() < 0.6:
        # a net reads some slice of it (inside, outside or across the slice written separately)
        c = rng.randrange(w - 1); e = rng.randrange(c + 1, w + 1)
        cls["signals"].append({"name": "zz_ovr", "kind": "Wire", "type": e - c, "list": None})
        cls["connects"].insert(rng.randrange(len(cls["connects"]) + 1),
                               [{"path": "zz_ovr", "steps": [], "lo": 0, "w": e - c}, {"path": "zz_ov", "steps": [["s", c, e]], "lo": c, "w": e - c}])
        sh.count("legal_same_block_overlap_read_by_net")
      sh.count("legal_same_block_overlap"); sh.count("legal_same_block_overlap_variant%d" % variant)
    if rng.random() < 0.4:
      # still defect-free: one block writes a whole struct wire and then overrides a part TWO levels below it (a field of a
      # nested struct, or a slice of a field); a net reads a sibling part under the same intermediate node
      cls = base["classes"][rng.choice(base["order"])]
      base["types"].setdefault("ZZI", [["f", 4], ["g", 4]])
      base["types"].setdefault("ZZO", [["inner", ["struct", "ZZI"]], ["a", 8]])
      ZZO = ["struct", "ZZO"]
      cls["signals"] += [{"name": "zz_ssrc", "kind": "InPort" if cls["name"] != base["top"] else "Wire", "type": ZZO, "list": None},
                         {"name": "zz_sw", "kind": "Wire", "type": ZZO, "list": None}, {"name": "zz_sr", "kind": "Wire", "type": 4, "list": None}]
      whole = {"path": "zz_sw", "steps": [], "lo": 0, "w": 16}
      srcw = {"path": "zz_ssrc", "steps": [], "lo": 0, "w": 16}
      if rng.random() < 0.5:
        part = {"path": "zz_sw", "steps": [["f", "inner"], ["f", "f"]], "lo": 12, "w": 4}
        rd = {"path": "zz_sw", "steps": [["f", "inner"], ["f", "g"]], "lo": 8, "w": 4}
      else:
        part = {"path": "zz_sw", "steps": [["f", "a"], ["s", 0, 2]], "lo": 0, "w": 2}
        rd = {"path": "zz_sw", "steps": [["f", "a"], ["s", 2, 6]], "lo": 2, "w": 4}
      stmts = [["=", whole, ["rd", srcw]], ["=", part, ["c", 1, None]]]
      cls["blocks"].append({"name": "zz_swb", "kind": "comb", "stmts": stmts})
      if cls["name"] == base["top"]:
        cls["blocks"].append({"name": "zz_ssb", "kind": "comb", "stmts": [["=", srcw, ["rd", srcw]]]})   # the top has no free inputs to spare: hold
      cls["connects"].insert(rng.randrange(len(cls["connects"]) + 1), [{"path": "zz_sr", "steps": [], "lo": 0, "w": 4}, rd])
      sh.count("legal_whole_struct_plus_deep_part")
    # legal base: must elaborate in every order
    for perm in range(sh.params["orders"]):
      oc, src, msg = outcome(base, rng, perm)
      sh.count("elaborations"); sh.count("legal_elaborations")
      if oc is not None:
        sh.violation("defect-free-design-rejected", {"outcome": oc, "message": msg, "perm": perm, "design_source": src}, case=case,
                     mechanism="same-block-overlapping-slices-rejected" if "zz_ovb" in msg and "sibling slices" in msg else None)
        break
    kinds = list(KINDS)
    rng.shuffle(kinds)
    for kind in kinds:
      r = inject(rng, base, kind)
      if r is None:
        sh.count("no-site:" + kind); continue
      d2, expected, info = r
      seen = set()
      for perm in range(sh.params["orders"]):
        oc, src, msg = outcome(d2, rng, perm)
        sh.count("elaborations")
        seen.add(oc)
        if oc is None:
          sh.violation("defective-design-elaborated-without-error", {"defect": kind, "info": info, "expected": sorted(expected),
                                                                     "perm": perm, "design_source": src}, case=(case, kind))
          break
        if oc not in expected:
          mech = "self-connect-raises-keyerror" if kind == "self-connect" and oc == "KeyError" else None
          sh.violation("defective-design-rejected-with-unrelated-error", {"defect": kind, "info": info, "expected": sorted(expected),
                       "got": oc, "message": msg, "perm": perm, "design_source": src}, mechanism=mech, case=(case, kind))
          break
      sh.count("mutants_judged"); sh.count("evaluations")
      sh.count("kind:" + kind)
      per_kind[kind] = per_kind.get(kind, 0) + 1
      sh.fp(kind, info.get("depth"), tuple(sorted(x for x in seen if x)), case, sh.idx)
      if len(seen) > 1:
        sh.count("order_dependent_error_class(both accepted)")
    if case < 1:
      sh.sample({"base_design_head": G.emit(base)[:700], "defect_kinds_injected": sorted(per_kind)})
  # per-kind coverage is judged on the merged counters (kind:*), see thresholds


def post_merge(counters):
  counters["kinds_with_5"] = sum(1 for k in KINDS if counters.get("kind:" + k, 0) >= 5)
