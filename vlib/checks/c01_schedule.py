"""C01 - simulation results do not depend on the schedule chosen (and equal the dataflow equations' solution)."""
from vlib import specgen as G, schedcheck, simmon

PROPERTY = "C01"
LEVEL = "exploration"
RULE = ("case = one generated acyclic design (hierarchy depth<=2, several instances per class, slices/fields/struct signals/"
        "lists, nets, registers) simulated for 6-14 cycles under DefaultPassGroup(Dynamic), SimpleSim, UnrollSim, HeuTopoUnrollSim, "
        "Mamba2020 and K injected random linear extensions x ff permutations; every signal after every eval and every tick is "
        "compared with the bit-level reference fixed point / next state, and every comb block is re-run after each evaluation. "
        "distinct_nontrivial = designs with >= 2 distinct block orders actually observed by the invocation tracer")
ASSUMPTIONS = [
  "reference model = vlib/specgen.Ref (bit cells, union-find nets, int-level block interpreter); independent of pymtl3",
  "clk is constant 0 in the Python simulator; reset is driven as an ordinary input for the first 2 cycles",
  "injected schedules are random linear extensions of pymtl3's own constraint set (legal schedules by definition)",
]


def plan(tier, seed):
  q = tier == "quick"
  return [{"hashseed": (seed * 23 + i) % 1009, "heap_pad": (i * 977 + seed * 131) % 5000, "noaslr": i % 2 == 0,
           "designs": 40 if q else 400} for i in range(16)]


def thresholds(tier):
  t = {"designs": 150, "designs_with_2_schedules": 100, "value_comparisons": 100000, "rerun_invocations": 10000, "mode_runs": 1000}
  if tier == "thorough":
    t = {k: v * 15 for k, v in t.items()}
  return t


def knobs_for(rng):
  return {"depth": rng.choice([0, 1, 1, 2, 2]), "max_children": rng.choice([1, 2, 3]), "p_ff": rng.choice([0.1, 0.25, 0.4]),
          "p_split": rng.choice([0.2, 0.5]), "max_sigs": rng.choice([3, 4, 6]), "expr_depth": rng.choice([2, 3]),
          "p_nested_field": rng.choice([0, 0.25]), "p_list_field": rng.choice([0, 0.25]), "p_for": rng.choice([0, 0.6]), "p_annot": rng.choice([0, 0.3]), "p_branchy": rng.choice([0, 0.15]), "p_const": rng.choice([0, 0.1]), "p_const_generic": 0.5, "p_omit_bounds_blk": rng.choice([0, 0.5]), "p_expr_bounds_blk": rng.choice([0, 0.4]), "p_attr_bounds": 0.4, "p_for_mixed": 0.5, "p_tmp_loopname": 0.8, "p_list": 0.3, "p_freevar": 0.2, "p_tmp": 0.25, "p_const_struct": rng.choice([0, 0.3]), "p_nested_slice": rng.choice([0, 0.3]), "p_vfunc": rng.choice([0, 0.5]), "p_tmp_chain": 0.3, "p_vsl": rng.choice([0, 0.25]), "p_lambda": rng.choice([0, 0.3]), "p_lambda_part": rng.choice([0, 0.4]), "p_func": rng.choice([0, 0.3]), "p_shadow": 0.3, "p_digit_names": rng.choice([0, 0.5]), "p_subclass": rng.choice([0, 0.5]), "p_callshapes": rng.choice([0, 0.4])}


ALIAS_SRC = """from pymtl3 import *
class Child(Component):
  def construct(s):
    s.in_ = InPort({w}); s.out = OutPort({w})
    @update
    def up_c(): s.out @= s.in_ + 1
class Top(Component):
  def construct(s):
    s.in_ = InPort({w}); s.out = OutPort({w})
    s.c = [Child() for _ in range({n})]
    for i in range({n}): s.c[i].in_ //= s.in_
    @update
    def up_sum():
      t = Bits{w}(0)
      for c in s.c:
        t = t + c.out
      s.out @= t
"""


def run_alias_probe(sh, k):
  """probe stream of the listed finding F-S9: a block reads ports of sub-components through a LOCAL name (loop variable over a
  list of components); the ports are missing from its read set, so it is not ordered after the children's blocks"""
  import random as _r
  from pymtl3 import DefaultPassGroup
  from pymtl3.passes.PassGroups import SimpleSimPass
  rng = sh.rng("alias", k)
  w, n = rng.choice([4, 8, 16]), rng.randrange(2, 5)
  src = ALIAS_SRC.format(w=w, n=n)
  mod = G.load_source(src, "c01alias")
  try:
    for seed in range(12):
      _r.seed(seed)                      # SimpleSchedulePass breaks ties with random.shuffle
      top = mod.Top(); top.elaborate(); top.apply(SimpleSimPass() if seed else DefaultPassGroup())
      for _ in range(3):
        v = rng.getrandbits(w)
        top.in_ @= v
        top.sim_eval_combinational()
        sh.count("alias_probe_evaluations")
        exp = (n * (v + 1)) & ((1 << w) - 1)
        if int(top.out) != exp:
          rd = sorted(repr(x) for b, xs in top.get_all_upblk_metadata()[0].items() if b.__name__ == "up_sum" for x in xs)
          sh.violation("signal-values-differ-from-the-dataflow-equations", {"probe": "reads through a local alias of a sub-component",
                       "in_": v, "out": int(top.out), "expected": exp, "read_set_of_up_sum": rd, "schedule": [b.__name__ for b in top._sched.update_schedule],
                       "source": src}, mechanism="reads-through-local-alias-of-subcomponent-missing-from-read-set", case=("alias", k))
          return
  finally:
    G.unload(mod)


TWONAMES_SRC = """from pymtl3 import *
class Top(Component):
  def construct(s):
    s.in_ = InPort({w}); s.out = OutPort({w})
    s.w = {kind}({w})
    s.{alias} = s.w             # a second attribute name for the same signal
    @update
    def up_a(): s.w @= s.in_ + 1
    @update
    def up_b(): s.out @= s.{alias} + 1
"""


POLARITY_SRC = """
from pymtl3 import *
class PChild(Component):
  def construct(s):
    s.in_ = InPort(8); s.out = OutPort(8)
    @update_ff
    def ff():
      if ~s.reset: s.out <<= 3
      else: s.out <<= s.out + s.in_
class PTop(Component):
  def construct(s):
    s.in_ = InPort(8); s.cnt = OutPort(8); s.sum = OutPort(8)
    s.c = PChild(); s.c.in_ //= s.in_
    @update_ff
    def ff_cnt():
      if ~s.reset: s.cnt <<= 0
      else: s.cnt <<= s.cnt + 1
    @update
    def up_sum():
      s.sum @= s.cnt + s.c.out
"""


def run_reset_polarity_probe(sh, k):
  """an ACTIVE-LOW reset (the pass-group option reset_active_high=False): sim_reset() holds reset at 0 and releases it to 1; the
  registers start from their reset values and count from there - the same trace under every pass group that takes the option"""
  from pymtl3 import DefaultPassGroup
  from pymtl3.passes.mamba.PassGroups import UnrollSim, HeuTopoUnrollSim, Mamba2020
  rng = sh.rng("polarity", k)
  mod = G.load_source(POLARITY_SRC, "c01pol")
  try:
    ins = [rng.getrandbits(8) for _ in range(6)]
    for nm, pg in (("default", lambda: DefaultPassGroup(reset_active_high=False)), ("unroll", lambda: UnrollSim(print_line_trace=False, reset_active_high=False)),
                   ("heutopo", lambda: HeuTopoUnrollSim(print_line_trace=False, reset_active_high=False)), ("mamba", lambda: Mamba2020(print_line_trace=False, reset_active_high=False))):
      top = mod.PTop(); top.elaborate(); top.apply(pg()); top.sim_reset()
      cnt, acc, got, want = 0, 3, [], []
      for v in ins:
        top.in_ @= v; top.sim_eval_combinational()
        got.append((int(top.cnt), int(top.c.out), int(top.sum), int(top.reset))); want.append((cnt, acc, (cnt + acc) & 255, 1))
        top.sim_tick(); cnt = (cnt + 1) & 255; acc = (acc + v) & 255
      sh.count("active_low_reset_traces_checked")
      if got != want:
        sh.violation("active-low-reset-trace-differs-from-the-dataflow-equations", {"pass_group": nm, "option": "reset_active_high=False", "inputs": ins,
                     "got(cnt, c.out, sum, reset)": got, "expected": want}, case=("polarity", nm)); return
  finally:
    G.unload(mod)


def run_two_names_probe(sh, k):
  """one signal object under two attribute names of its component: the design is refused, or both names denote one value under
  every pass group (out = in_ + 2)"""
  rng = sh.rng("twonames", k)
  w = rng.choice([1, 4, 8, 33]); src = TWONAMES_SRC.format(w=w, kind="Wire", alias=rng.choice(["alias", "dbg", "a", "z_w"]))
  mod = G.load_source(src, "c01two")
  try:
    for mode in simmon.MODES[:5]:
      try:
        top = mod.Top(); simmon.apply_mode(top, mode, rng)
      except Exception as e:
        sh.count("two_names_designs_refused"); continue
      for _ in range(3):
        v = rng.getrandbits(w); top.in_ @= v; top.sim_eval_combinational()
        sh.count("two_names_evaluations")
        if int(top.out) != (v + 2) & ((1 << w) - 1):
          sh.violation("signal-values-differ-from-the-dataflow-equations", {"probe": "one signal under two attribute names", "mode": mode, "in_": v,
                       "out": int(top.out), "expected": (v + 2) & ((1 << w) - 1), "source": src}, case=("twonames", k)); return
        top.sim_tick()
  finally:
    G.unload(mod)


def run_shard(sh):
  q = sh.tier == "quick"
  run_two_names_probe(sh, sh.idx)
  if sh.idx % 4 == 0: run_reset_polarity_probe(sh, sh.idx)
  if sh.idx == 0:
    for k in range(3): run_alias_probe(sh, k)
  for case in range(sh.params["designs"]):
    if sh.only is not None and str(case) != str(sh.only).strip('"'):
      continue
    rng = sh.rng("design", case)
    d = G.generate(rng, knobs_for(rng))
    for sk, sv in d.get("stats", {}).items(): sh.count(sk, sv)
    st = schedcheck.run_design(sh, d, rng, case, simmon.MODES, rng.randrange(6, 15), {"values", "rerun", "order_stats"},
                               "c01", reps={"inject": 3 if q else 10, "simple": 2 if q else 4})
    if st is None: continue
    sh.count("designs"); sh.count("evaluations")
    for k in ("value_comparisons", "rerun_invocations", "mode_runs", "snapshots", "runs_started_with_sim_reset"):
      sh.count(k, st[k])
    sh.count("observed_schedules_total", st["distinct_schedules"])
    if st["distinct_schedules"] >= 2:
      sh.count("designs_with_2_schedules"); sh.fp(G.emit(d))
    if case < 1:
      sh.sample({"design_source_head": G.emit(d)[:1200], "comb_blocks": st["comb_blocks"], "ff_blocks": st["ff_blocks"],
                 "distinct_schedules_observed": st["distinct_schedules"], "mode_runs": st["mode_runs"]})
