"""C05 - slices, concat, extension, reduce operators and clog2 address exactly the named bits.

Deciding monitors: the __getitem__/__setitem__ contracts of vlib.bitsmon (result,
exception class, frame condition on all untouched bits, no mutation on failure)
and direct post-condition checks at the call boundary of concat / zext / sext /
trunc / reduce_* / clog2, all against vlib.bitsref.
"""
from vlib import bitsmon
from vlib import bitsref as R

PROPERTY = "C05"
LEVEL = "exploration"
RULE = ("cases = executed get/set-item operations judged by the contract wrapper + helper calls compared with the "
        "bit-level definition; exhaustive (n,lo,hi,step,value) for n<=8 (thorough n<=11) with int/Bits/None bounds; "
        "boundary random up to 1023 bits; clog2 for all N<=2^16 and 2^k-1,2^k,2^k+1 for k<=1100. "
        "distinct_nontrivial = distinct (operation, validity class, width class, outcome) tuples observed")
ASSUMPTIONS = [
  "helper misuse the statement does not mention (non-Bits arguments) is not asserted; zext/sext to a narrower target must raise for int and BitsN-type targets alike, trunc to a wider int width must raise (trunc to a wider TYPE is used by the repository as 'fit into' and is not asserted)",
  "an operation with both an invalid index and an invalid value may raise either IndexError or ValueError",
  "bounds given as Bits are read as their unsigned value",
]
EXHAUSTIVE_NOTE = "exhaustive sub-space: all (n, lo, hi) in widths 1..8 x [-2,n+2]^2 (+None) x step in {None,0,1,2,-1,False} x get/set with int and Bits values; clog2 for all N <= 65536"

STEPS = [None, None, None, 0, 1, 2, -1, False]


def plan(tier, seed):
  q = tier == "quick"
  p = [{"kind": "exh", "hashseed": seed % 997, "maxw": 8 if q else 11}]
  p += [{"kind": "rand", "hashseed": (seed * 5 + i) % 997, "cases": 20000 if q else 400000} for i in range(4 if q else 10)]
  p += [{"kind": "helpers", "hashseed": (seed + i) % 997, "cases": 15000 if q else 300000, "part": i} for i in range(2 if q else 4)]
  p += [{"kind": "clog2", "hashseed": 0}]
  return p


def thresholds(tier):
  t = {"contract_evaluations": 200000, "helper_checks": 50000, "clog2_checks": 60000,
       "cell:__getitem__:slice:ok": 1000, "cell:__getitem__:slice:IndexError": 1000,
       "cell:__setitem__:slice:ok": 1000, "cell:__setitem__:slice:IndexError": 1000,
       "cell:__setitem__:slice:ValueError": 1000, "cell:__getitem__:bit:IndexError": 100,
       "cell:__setitem__:bit:ValueError": 100}
  if tier == "thorough":
    t["contract_evaluations"] = 4000000
    t["helper_checks"] = 1000000
  return t


def exhaustive(tier, counters):
  return counters.get("exhaustive_complete", 0) >= 1 and counters.get("clog2_small_complete", 0) >= 1


def _try(f, *a):
  try:
    return f(*a)
  except (ValueError, IndexError, TypeError, AssertionError, ZeroDivisionError, OverflowError):
    return None


def _get(x, sl):
  return x[sl]


def _set(x, sl, v):
  x[sl] = v


def run_exh(sh):
  from pymtl3.datatypes import Bits
  maxw = sh.params["maxw"]
  cases = 0
  for n in range(1, maxw + 1):
    bounds = [None] + list(range(-2, n + 3))
    xs = sorted({0, (1 << n) - 1, 0x5A5A5A5A & ((1 << n) - 1), 0xA5A5A5A5 & ((1 << n) - 1), 1, 1 << (n - 1)})
    for lo in bounds:
      for hi in bounds:
        for st in (None, 0, 1, 2, -1, False):
          if st is not None and (lo is not None and lo > 3) and n > 4:
            continue   # stepped slices: thin out, validity does not depend on lo
          w = None
          if R.slice_valid(n, lo, hi, st):
            w = (n if hi is None else hi) - (0 if lo is None else lo)
          forms = [(lo, hi)]
          if lo is not None and 0 <= lo < 1 << 8 and hi is not None and 0 <= hi < 1 << 8:
            forms.append((Bits(8, lo), Bits(8, hi)))
          for (l, h) in forms:
            sl = slice(l, h, st)
            for xv in xs:
              x = Bits(n, xv)
              _try(_get, x, sl); cases += 1
              ww = w if w is not None else 2
              for v in (0, (1 << ww) - 1, 1 << ww, -(1 << (ww - 1)), -(1 << (ww - 1)) - 1, 1):
                _try(_set, Bits(n, xv), sl, v); cases += 1
              for (vn, vv) in ((ww, (1 << ww) - 1), (ww, 0), (ww + 1, 1), (max(1, ww - 1), 0)):
                if vn != ww or w is not None or True:
                  _try(_set, Bits(n, xv), sl, Bits(vn, vv)); cases += 1
    for i in list(range(-3, n + 3)):
      for xv in xs:
        _try(_get, Bits(n, xv), i); cases += 1
        if 0 <= i < 256:
          _try(_get, Bits(n, xv), Bits(8, i)); cases += 1
        for v in (0, 1, -1, 2, -2, True, Bits(1, 1), Bits(1, 0), Bits(2, 1), Bits(2, 0)):
          _try(_set, Bits(n, xv), i, v); cases += 1
  sh.count("evaluations", cases)
  sh.count("exhaustive_cases", cases)
  sh.count("exhaustive_complete")
  sh.sample({"stream": "exhaustive", "widths": [1, maxw], "bounds": "None and -2..n+2 as int and Bits",
             "steps": "None,0,1,2,-1,False", "cases": cases})


def run_rand(sh):
  from pymtl3.datatypes import Bits
  rng = sh.rng("rand")
  W = [1, 2, 31, 32, 33, 63, 64, 65, 127, 128, 129, 255, 256, 257, 511, 512, 513, 1022, 1023]
  for c in range(sh.params["cases"]):
    n = rng.choice(W) if rng.random() < 0.6 else rng.randrange(1, 1024)
    xv = rng.choice([0, (1 << n) - 1, rng.getrandbits(n), rng.getrandbits(n)])
    cand = [None, 0, 1, n - 1, n, n + 1, -1, n // 2, rng.randrange(-2, n + 3), rng.randrange(0, n + 1), 32, 64]
    lo, hi = rng.choice(cand), rng.choice(cand)
    if rng.random() < 0.5:   # bias towards valid
      a, b = sorted((rng.randrange(0, n + 1), rng.randrange(0, n + 1)))
      lo, hi = (a, b) if a != b else (a, min(n, a + 1))
      if rng.random() < 0.15: lo = None if lo == 0 else lo
      if rng.random() < 0.15: hi = None if hi == n else hi
    st = rng.choice(STEPS)
    asb = rng.random() < 0.2 and all(b is None or 0 <= b < 1024 for b in (lo, hi))
    l = Bits(10, lo) if asb and lo is not None else lo
    h = Bits(10, hi) if asb and hi is not None else hi
    sl = slice(l, h, st)
    _try(_get, Bits(n, xv), sl)
    valid = R.slice_valid(n, lo, hi, st)
    w = ((n if hi is None else hi) - (0 if lo is None else lo)) if valid else rng.randrange(1, 64)
    vk = rng.randrange(5)
    if vk == 0: v = Bits(w, rng.getrandbits(w))
    elif vk == 1: v = Bits(min(1023, w + 1), 1) if rng.random() < 0.5 else Bits(max(1, w - 1), 0)
    elif vk == 2: v = rng.choice([(1 << w) - 1, 0, -(1 << (w - 1)), rng.getrandbits(w)])
    elif vk == 3: v = rng.choice([1 << w, -(1 << (w - 1)) - 1, (1 << w) + 5])
    else: v = rng.getrandbits(w)
    _try(_set, Bits(n, xv), sl, v)
    i = rng.choice([0, n - 1, n, -1, rng.randrange(n), n + 7])
    _try(_get, Bits(n, xv), i)
    _try(_set, Bits(n, xv), i, rng.choice([0, 1, -1, 2, Bits(1, 1), Bits(2, 1), Bits(1, 0)]))
    sh.fp("slice", valid, st is None, lo is None, hi is None, n in W, vk, asb)
    if c < 2:
      sh.sample({"stream": "random", "n": n, "x": hex(xv), "lo": lo, "hi": hi, "step": repr(st), "value": repr(v)})
  sh.count("evaluations", sh.params["cases"] * 4)


def _chk(sh, what, ok, **w):
  sh.count("helper_checks")
  sh.count("helper:" + what)
  if not ok:
    sh.violation("helper-" + what, w, mechanism=None)


def _bv(b):
  return (b.nbits, int(b.uint()))


def run_helpers(sh):
  from pymtl3.datatypes import Bits, mk_bits, concat, zext, sext, trunc, reduce_and, reduce_or, reduce_xor
  rng = sh.rng("helpers", sh.params["part"])
  # all width pairs <= 16 exhaustively for ext/trunc (part 0 only)
  if sh.params["part"] == 0:
    for n in range(1, 17):
      for m in range(1, 17):
        for xv in {0, 1, (1 << n) - 1, 1 << (n - 1), (1 << (n - 1)) - 1, 0x5555 & ((1 << n) - 1)}:
          x = Bits(n, xv)
          for tgt in (m, mk_bits(m)):
            if m >= n:
              r = _try(zext, x, tgt)
              _chk(sh, "zext", r is not None and _bv(r) == (m, xv), n=n, m=m, x=xv, got=r)
              r = _try(sext, x, tgt)
              _chk(sh, "sext", r is not None and _bv(r) == (m, R.to_signed(n, xv) & R.mask(m)), n=n, m=m, x=xv, got=r)
            if m <= n:
              r = _try(trunc, x, tgt)
              _chk(sh, "trunc", r is not None and _bv(r) == (m, xv & R.mask(m)), n=n, m=m, x=xv, got=r)
            if m < n:
              _chk(sh, "zext-narrower-rejected", _try(zext, x, tgt) is None, n=n, m=m, x=xv)
              _chk(sh, "sext-narrower-rejected", _try(sext, x, tgt) is None, n=n, m=m, x=xv)
            if m > n and isinstance(tgt, int):      # trunc( x, WiderType ) is the repository's 'fit x into that type' idiom
              _chk(sh, "trunc-wider-rejected", _try(trunc, x, tgt) is None, n=n, m=m, x=xv)
  # a width given as a Bits value denotes the same class as the integer, and asking for it leaves the table of classes alone
  for n in (1, 2, 4, 7, 8, 9, 16, 20, 33, 64, 100, 200):
    before = mk_bits(n)
    holder = Bits(max(8, n.bit_length() + 1), n)
    try: r = mk_bits(holder)
    except Exception as e: r = f"raised {type(e).__name__}"
    sh.count("mk_bits_with_bits_width_probes")
    _chk(sh, "mk_bits-of-a-Bits-width-is-the-class-of-that-width", r is before and mk_bits(n) is before and Bits(n, 0).__class__ is not None, n=n, got=str(r))
  for c in range(sh.params["cases"]):
    k = rng.randrange(4)
    if k == 0:
      parts = []
      total = 0
      for _ in range(rng.randrange(1, 9)):
        w = rng.choice([1, 2, 7, 8, 31, 32, 33, 64, 100, 255, rng.randrange(1, 300)])
        parts.append((w, rng.choice([0, (1 << w) - 1, rng.getrandbits(w)])))
        total += w
      exp = 0
      for w, v in parts:
        exp = (exp << w) | v
      r = _try(concat, *[Bits(w, v) for w, v in parts])
      if total < 1024:
        _chk(sh, "concat", r is not None and _bv(r) == (total, exp), parts=parts, got=r)
      else:
        _chk(sh, "concat-too-wide-rejected", r is None, parts=parts, got=r)
      sh.fp("concat", len(parts), total >= 1024, total > 512)
    elif k == 1:
      n = rng.choice([1, 2, 31, 32, 33, 63, 64, 65, 255, 511, 1000, rng.randrange(1, 1023)])
      m = min(1023, n + rng.choice([0, 1, 2, 31, 32, 33, rng.randrange(0, 512)]))
      xv = rng.choice([0, (1 << n) - 1, 1 << (n - 1), (1 << (n - 1)) - 1, rng.getrandbits(n)])
      x = Bits(n, xv)
      tgt = m if rng.random() < 0.5 else mk_bits(m)
      r = _try(zext, x, tgt); _chk(sh, "zext", r is not None and _bv(r) == (m, xv), n=n, m=m, x=xv, got=r)
      _fresh(sh, "zext", x, xv, r, n=n, m=m)
      r = _try(sext, x, tgt)
      _chk(sh, "sext", r is not None and _bv(r) == (m, R.to_signed(n, xv) & R.mask(m)), n=n, m=m, x=xv, got=r)
      _fresh(sh, "sext", x, xv, r, n=n, m=m)
      xm = Bits(m, xv)
      r = _try(trunc, xm, n if isinstance(tgt, int) else mk_bits(n))
      _chk(sh, "trunc", r is not None and _bv(r) == (n, xv), n=n, m=m, x=xv, got=r)
      _fresh(sh, "trunc", xm, xv, r, n=n, m=m)
      lo_ = rng.randrange(n); hi_ = rng.randrange(lo_ + 1, n + 1)
      _fresh(sh, "getslice", x, xv, _try(lambda: x[lo_:hi_]), n=n, lo=lo_, hi=hi_)
      _fresh(sh, "concat-of-one", x, xv, _try(concat, x), n=n)
      sh.fp("ext", n == m, xv >> (n - 1), isinstance(tgt, int), n > 64)
    elif k == 2:
      n = rng.choice([1, 2, 3, 8, 31, 32, 33, 64, 65, 255, 1023, rng.randrange(1, 1024)])
      xv = rng.choice([0, (1 << n) - 1, ((1 << n) - 1) ^ (1 << rng.randrange(n)), 1 << rng.randrange(n), rng.getrandbits(n)])
      x = Bits(n, xv)
      r = _try(reduce_and, x); _chk(sh, "reduce_and", r is not None and _bv(r) == (1, int(xv == R.mask(n))), n=n, x=xv, got=r)
      r = _try(reduce_or, x); _chk(sh, "reduce_or", r is not None and _bv(r) == (1, int(xv != 0)), n=n, x=xv, got=r)
      r = _try(reduce_xor, x); _chk(sh, "reduce_xor", r is not None and _bv(r) == (1, R.parity(xv)), n=n, x=xv, got=r)
      sh.fp("reduce", xv == 0, xv == R.mask(n), R.parity(xv), n > 64)
    else:
      # frame condition through a different path: write every valid slice of a random x one by one
      n = rng.randrange(1, 40)
      xv = rng.getrandbits(n)
      x = Bits(n, xv)
      lo = rng.randrange(n); hi = rng.randrange(lo + 1, n + 1)
      v = rng.getrandbits(hi - lo)
      x[lo:hi] = v
      exp = (xv & ~(R.mask(hi - lo) << lo)) | (v << lo)
      _chk(sh, "setslice-then-read", int(x) == exp and int(x[lo:hi]) == v, n=n, x=xv, lo=lo, hi=hi, v=v, got=int(x))
    if c < 1:
      sh.sample({"stream": "helpers", "first_kind": k})
  sh.count("evaluations", sh.counters["helper_checks"])


def _fresh(sh, what, x, xv, r, **kw):
  """the result of a helper / a slice read is a value of its own: writing into it in place leaves the operand alone and vice versa"""
  if r is None: return
  sh.count("result_aliasing_probes")
  rv, rn = int(r), r.nbits
  try:
    r[0] = 1 - (rv & 1)
    ok1 = int(x) == xv
    x @= xv ^ ((1 << x.nbits) - 1)
    ok2 = int(r) == (rv ^ 1)
    x @= xv
  except Exception as e:
    _chk(sh, what + "-result-in-place-update-raised", False, error=repr(e)[:120], **kw); return
  _chk(sh, what + "-result-is-independent-of-its-operand", ok1 and ok2 and r is not x, same_object=r is x, operand_changed=not ok1, result_changed=not ok2, **kw)


def run_clog2(sh):
  from pymtl3.datatypes import clog2
  def one(N):
    try:
      got = clog2(N)
    except Exception as e:
      got = "raise " + type(e).__name__
    sh.count("clog2_checks")
    exp = R.clog2(N)
    if got != exp:
      mech = "clog2-float-log" if N >= (1 << 29) else None
      sh.violation("clog2-wrong", {"N": hex(N), "N_is": f"2**{N.bit_length()-1}+{N - (1 << (N.bit_length()-1))}",
                                   "got": got, "expected": exp}, mechanism=mech)
  for N in range(1, (1 << 16) + 2):
    one(N)
  sh.count("clog2_small_complete")
  for k in range(1, 1101):
    for N in ((1 << k) - 1, 1 << k, (1 << k) + 1):
      one(N)
  # N given as a Bits object (a width computed from a parameter that is a Bits constant)
  from pymtl3.datatypes import Bits
  for k in range(1, 1000, 7):
    for N in ((1 << k) - 1, 1 << k, (1 << k) + 1):
      if N < 1 or N.bit_length() > 1023: continue
      try: got = clog2(Bits(N.bit_length(), N))
      except Exception as e: got = "raise " + type(e).__name__
      sh.count("clog2_checks"); sh.count("clog2_bits_operand_checks")
      if got != R.clog2(N):
        sh.violation("clog2-wrong", {"N": hex(N), "operand": f"Bits{N.bit_length()}", "got": got, "expected": R.clog2(N)})
  # real N >= 1 (python true division gives them: clog2( nbits / 8 )): min{k : 2^k >= N} with exactly representable values
  from fractions import Fraction
  for k in range(0, 50):
    for frac in (Fraction(1, 2), Fraction(1, 4), Fraction(3, 4), Fraction(1, 1024)):
      for base in ((1 << k), (1 << k) + 1, max(1, (1 << k) - 1)):
        N = float(base + frac)
        if Fraction(N) != base + frac: continue           # not exactly representable: skip
        exp, p2 = 0, Fraction(1)
        while p2 < base + frac: p2 *= 2; exp += 1
        try: got = clog2(N)
        except Exception as e: got = "raise " + type(e).__name__
        sh.count("clog2_checks"); sh.count("clog2_noninteger_checks")
        if got != exp:
          sh.violation("clog2-wrong", {"N": repr(N), "got": got, "expected": exp, "non_integer": True})
  for bad in (0, -1, -8):
    try:
      clog2(bad)
      sh.violation("clog2-accepted-nonpositive", {"N": bad})
    except Exception:
      pass
    sh.count("clog2_checks")
  sh.count("evaluations", sh.counters["clog2_checks"])
  sh.fp("clog2-small"); sh.fp("clog2-pow2-boundaries")
  sh.sample({"stream": "clog2", "range": "1..65537 and 2^k-1,2^k,2^k+1 for k<=1100"})


def mech(v):
  """known-finding predicate over a contract witness"""
  idx = v.get("idx")
  if idx and idx[0] == "slice":
    lo, hi, st = idx[1], idx[2], idx[3]
    if hi == 0 or st in ("0", "False"):
      return "falsy-stop-or-step-treated-as-absent"
  return None


def run_shard(sh):
  bitsmon.install()
  kind = sh.params["kind"]
  {"exh": run_exh, "rand": run_rand, "helpers": run_helpers, "clog2": run_clog2}[kind](sh)
  bitsmon.drain(sh, mech=mech)
