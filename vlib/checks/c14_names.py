"""C14 - hierarchical names are unique and evaluate back to their objects."""
from vlib import bitsref as R
from vlib.checks import c06_bitstruct as S

PROPERTY = "C14"
LEVEL = "exploration"
RULE = ("case = one generated hierarchy (nested lists of components 1-3 dims, interfaces in lists and nested interfaces, "
        "method ports, struct signals with nested/list fields, touched field signals, slices, slices of slices, bit "
        "indices, slices of fields) elaborated twice; every object of get_all_object_filter is round-tripped through "
        "eval(repr(o)) and its parent/host/level/top-level-signal/field-name APIs are compared with the generator's name "
        "table. distinct_nontrivial = distinct hierarchy fingerprints (multiset of object kinds per depth) with >= 10 objects")
ASSUMPTIONS = [
  "expected names come from the generator's own table: every object it creates or touches, plus the implicit clk/reset ports of each component",
  "slices are expected under their normalised absolute name x[lo:hi] with the unsliced signal as parent",
]


def plan(tier, seed):
  q = tier == "quick"
  return [{"hashseed": (seed * 19 + i) % 877, "cases": 40 if q else 700} for i in range(16)]


def thresholds(tier):
  t = {"objects_roundtripped": 20000, "hierarchies": 400, "slice_objects": 500, "held_slice_handles_checked": 2000, "field_objects": 1000,
       "list_element_objects": 3000, "method_port_objects": 200, "interface_objects": 500, "reelaborations": 400, "lock_unlock_histories": 300, "list_construction_designs": 30, "fieldname_designs": 60}
  if tier == "thorough":
    t = {k: v * 12 for k, v in t.items()}
    t["list_construction_designs"] = 150; t["fieldname_designs"] = 300
  return t


# ---------------------------------------------------------------------------
# spec generation
# ---------------------------------------------------------------------------
NAMEPOOL = ["a", "b", "c", "in_", "out", "w", "x", "y", "q", "sub", "ifc", "data", "ctl", "m0", "m1", "arr", "r", "t"]


def gen_sig(rng, uid):
  kind = rng.choice(["InPort", "OutPort", "Wire"])
  if rng.random() < 0.4:
    shape = S.gen_shape(rng, rng.randrange(0, 3), rng.choice([16, 40, 100]), uid)
    return ("sig", kind, shape)
  return ("sig", kind, rng.choice([1, 2, 4, 8, 16, 32, 33]))


def gen_items(rng, depth, uid, in_ifc=False):
  n = rng.randrange(1, 6)
  names = rng.sample(NAMEPOOL, n)
  items = []
  for nm in names:
    r = rng.random()
    if r < 0.45 or depth <= 0:
      it = gen_sig(rng, uid)
    elif r < 0.6 and not in_ifc:
      it = ("comp", gen_items(rng, depth - 1, uid))
    elif r < 0.75:
      it = ("ifc", gen_items(rng, depth - 1, uid, in_ifc=True))
    elif r < 0.85 and not in_ifc:
      it = (rng.choice(["callee", "caller", "calleeifc", "callerifc"]),)
    else:
      base = rng.random()
      if base < 0.4: el = gen_sig(rng, uid)
      elif base < 0.7 and not in_ifc: el = ("comp", gen_items(rng, depth - 1, uid))
      else: el = ("ifc", gen_items(rng, max(0, depth - 1), uid, in_ifc=True))
      dims = [rng.randrange(1, 4) for _ in range(rng.choice([1, 1, 2, 3]))]
      holes = []
      if rng.random() < 0.2:
        # a sparse list: some positions (possibly the first) hold None instead of a hardware object
        import itertools
        allidx = list(itertools.product(*[range(d) for d in dims]))
        if len(allidx) >= 2:
          holes = [list(x) for x in rng.sample(allidx, rng.randrange(1, len(allidx)))]
          if rng.random() < 0.6 and list(allidx[0]) not in holes: holes.append(list(allidx[0]))
          if len(holes) >= len(allidx): holes = holes[:len(allidx) - 1]
      it = ("list", dims, el, holes)
    items.append((nm, it))
  return items


# ---------------------------------------------------------------------------
# building the real hierarchy + the expected name table
# ---------------------------------------------------------------------------

class Table:
  def __init__(self):
    self.t = {}    # name -> dict(kind, parent, host, top_sig, level, field)
    self.held = []  # (slice object the design was handed at construction time, its expected name)

  def add(self, name, kind, parent, host, top_sig=None, level=None, field=None):
    self.t[name] = {"kind": kind, "parent": parent, "host": host, "top_sig": top_sig, "level": level, "field": field}


BB_COUNT = [0, 0]


def touch_signal(rng, sig, name, shape, host, tab, B):
  """touch sub-objects the way connections / update blocks would; record their expected names"""
  def rec(obj, nm, sh, top_name, budget):
    if isinstance(sh, int):
      n = sh
      for _ in range(rng.randrange(0, 3)):
        lo = rng.randrange(n); hi = rng.randrange(lo + 1, n + 1)
        k = rng.random()
        # an index / a bound may be given as a Bits constant (s.x[LO:HI] with LO = Bits8(4)): same object, same name as with ints
        bb = rng.random() < 0.3
        from pymtl3 import Bits as _Bits
        mkb = (lambda v: _Bits(max(8, int(v).bit_length() + 1), v)) if bb else (lambda v: v)
        if bb: BB_COUNT[0] += 1
        elif rng.random() < 0.15:
          # ... or as another kind of int: an IntEnum member ( s.x[Pos.LO:Pos.HI] ), a bool ( s.x[True] )
          import enum
          mkb = lambda v: bool(v) if v in (0, 1) and rng.random() < 0.5 else enum.IntEnum("Pos", {f"P{v}": v})[f"P{v}"]
          BB_COUNT[1] += 1
        if k < 0.3:
          sl = obj[mkb(lo)]; snm = f"{nm}[{lo}:{lo + 1}]"
        else:
          sl = obj[mkb(lo):mkb(hi)] if rng.random() < 0.6 else (obj[lo:mkb(hi)] if rng.random() < 0.5 else obj[mkb(lo):hi]); snm = f"{nm}[{lo}:{hi}]"
          if k > 0.6 and hi - lo >= 2:     # slice of slice -> normalised, parent is the unsliced signal
            a = rng.randrange(hi - lo); b = rng.randrange(a + 1, hi - lo + 1)
            tab.add(snm, "slice", nm, host, top_name, field=snm[len(nm.rsplit('.', 1)[0]) + 1:])
            outer = sl
            sl = sl[a:b]; snm = f"{nm}[{lo + a}:{lo + b}]"
            tab.held.append((sl, snm))
            # the same bits reached once more: directly, through the same outer slice, or through another enclosing slice
            r2 = rng.random()
            if r2 < 0.25: tab.held.append((obj[lo + a:lo + b], snm))
            elif r2 < 0.5: tab.held.append((outer[a:b], snm))
            elif r2 < 0.7:
              lo2 = rng.randrange(0, lo + a + 1); hi2 = rng.randrange(lo + b, n + 1)
              if (lo2, hi2) != (lo + a, lo + b):
                tab.add(f"{nm}[{lo2}:{hi2}]", "slice", nm, host, top_name, field=f"{nm}[{lo2}:{hi2}]"[len(nm.rsplit('.', 1)[0]) + 1:])
                tab.held.append((obj[lo2:hi2][lo + a - lo2:lo + b - lo2], snm))
        tab.held.append((sl, snm))
        tab.add(snm, "slice", nm, host, top_name, field=snm[len(nm.rsplit('.', 1)[0]) + 1:])
      return
    # struct: touch some fields
    for fn, fsh in sh[2]:
      if rng.random() < 0.6 and budget[0] > 0:
        budget[0] -= 1
        fo = getattr(obj, fn)
        if isinstance(fsh, tuple) and fsh[0] == "list":
          def lrec(lobj, lsh, idxs):
            if isinstance(lsh, tuple) and lsh[0] == "list":
              for i in range(lsh[1]):
                lrec(lobj[i], lsh[2], idxs + [i])
            else:
              en = f"{nm}.{fn}" + "".join(f"[{i}]" for i in idxs)
              tab.add(en, "field", nm, host, top_name, field=fn + "".join(f"[{i}]" for i in idxs))
              if rng.random() < 0.5:
                rec(lobj, en, lsh, top_name, budget)
          lrec(fo, fsh, [])
        else:
          en = f"{nm}.{fn}"
          tab.add(en, "field", nm, host, top_name, field=fn)
          rec(fo, en, fsh, top_name, budget)
  rec(sig, name, shape, name, [6])


def make_classes():
  from pymtl3 import Component, Interface, InPort, OutPort, Wire, CalleePort, CallerPort, CalleeIfcCL, CallerIfcCL
  SIG = {"InPort": InPort, "OutPort": OutPort, "Wire": Wire}

  def build(rng, host_obj, host_name, holder, holder_name, nm, it, tab, B, level):
    """create item `it` as attribute nm of holder; host = enclosing component"""
    full = f"{holder_name}.{nm}"
    def mk(it, name, field):
      k = it[0]
      if k == "sig":
        T = B.typ(it[2])
        return SIG[it[1]](T), (lambda o: (tab.add(name, "signal", holder_name, host_name, name, level + 1, field),
                                          touch_signal(rng, o, name, it[2], host_name, tab, B)))
      if k == "comp":
        return GC(rng, it[1], name, tab, B, level + 1), (lambda o: tab.add(name, "component", holder_name, name, None, level + 1, field))
      if k == "ifc":
        return GI(rng, it[1], name, host_name, tab, B, level + 1), (lambda o: tab.add(name, "interface", holder_name, host_name, None, level + 1, field))
      if k == "callee":
        return CalleePort(method=lambda: 0), (lambda o: tab.add(name, "method", holder_name, host_name, None, level + 1, field))
      if k == "caller":
        return CallerPort(), (lambda o: tab.add(name, "method", holder_name, host_name, None, level + 1, field))
      if k in ("calleeifc", "callerifc"):
        o = CalleeIfcCL(method=lambda: 0, rdy=lambda: True) if k == "calleeifc" else CallerIfcCL()
        def post(o):
          tab.add(name, "interface", holder_name, host_name, None, level + 1, field)
          tab.add(name + ".method", "method", name, host_name, None, level + 2, "method")
          tab.add(name + ".rdy", "method", name, host_name, None, level + 2, "rdy")
        return o, post
      raise KeyError(k)
    if it[0] != "list":
      obj, post = mk(it, full, nm)
      setattr(holder, nm, obj)
      post(getattr(holder, nm))
      return
    dims, el = it[1], it[2]
    holes = it[3] if len(it) > 3 else []
    posts = []
    def mkl(d, idxs):
      if d == len(dims) and idxs in holes:
        return None
      if d == len(dims):
        suffix = "".join(f"[{i}]" for i in idxs)
        o, post = mk(el, full + suffix, nm + suffix)
        posts.append((o, post))
        return o
      return [mkl(d + 1, idxs + [i]) for i in range(dims[d])]
    lst = mkl(0, [])
    setattr(holder, nm, lst)
    for o, post in posts:
      post(o)

  class GC(Component):
    def construct(s, rng, items, name, tab, B, level):
      tab.add(name + ".clk", "signal", name, name, name + ".clk", level + 1, "clk")
      tab.add(name + ".reset", "signal", name, name, name + ".reset", level + 1, "reset")
      for nm, it in items:
        build(rng, s, name, s, name, nm, it, tab, B, level)

  class GI(Interface):
    def construct(s, rng, items, name, host_name, tab, B, level):
      for nm, it in items:
        build(rng, None, host_name, s, name, nm, it, tab, B, level)

  return GC, GI


def fingerprint(tab):
  from collections import Counter
  c = Counter((v["kind"], k.count(".")) for k, v in tab.t.items())
  return tuple(sorted(c.items()))


def run_case(sh, case):
  from vlib.common import mkrng
  from pymtl3.dsl.Connectable import Signal
  seedkey = (sh.prop, sh.seed, sh.idx, "case", case)
  rng0 = mkrng(*seedkey)
  uid = [0]
  items = gen_items(rng0, rng0.randrange(1, 4), uid)
  GC, GI = make_classes()
  results = []
  for rep in range(2):
    tab = Table()
    B = S.Builder(f"n{sh.idx}_{case}", True)
    rng = mkrng(*seedkey, "build")       # identical touches in both elaborations
    top = GC(rng, items, "s", tab, B, 0)
    sh.count("bits_typed_slice_bounds", BB_COUNT[0]); BB_COUNT[0] = 0
    sh.count("enum_or_bool_slice_bounds", BB_COUNT[1]); BB_COUNT[1] = 0
    tab.add("s", "component", None, "s", None, 0, "s")
    try:
      top.elaborate()
    except Exception as e:
      import traceback
      sh.violation("elaborate-raised-on-legal-hierarchy", {"error": traceback.format_exc()[-700:]}, case=case)
      return
    objs = list(top.get_all_object_filter(lambda x: True))
    names = {}
    W = lambda kind, **kw: sh.violation(kind, dict(kw, items=repr(items)[:1500]), case=case)
    for o in objs:
      r = repr(o)
      if r in names and names[r] is not o:
        W("two-objects-share-a-name", name=r)
      names[r] = o
    for r, o in names.items():
      sh.count("objects_roundtripped"); sh.count("evaluations")
      try:
        back = eval(r, {"s": top})
      except Exception as e:
        W("eval-of-name-raised", name=r, error=repr(e)[:200]); continue
      if back is not o:
        W("eval-of-name-yields-other-object", name=r, got=repr(back)[:80]); continue
      exp = tab.t.get(r)
      if exp is None:
        W("object-name-not-in-generator-table", name=r); continue
      kind = exp["kind"]
      sh.count({"slice": "slice_objects", "field": "field_objects", "method": "method_port_objects",
                "interface": "interface_objects"}.get(kind, "other_objects"))
      if "[" in r.rsplit(".", 1)[-1] and kind != "slice": sh.count("list_element_objects")
      # parent
      par = o.get_parent_object()
      if exp["parent"] is None:
        if par is not None: W("top-has-parent", name=r)
      elif par is not names.get(exp["parent"]):
        W("parent-inconsistent-with-name", name=r, got=repr(par), expected=exp["parent"])
      # field name
      if exp["field"] is not None and o.get_field_name() != exp["field"]:
        W("field-name-inconsistent-with-name", name=r, got=o.get_field_name(), expected=exp["field"])
      # host
      if kind != "component":
        try:
          h = o.get_host_component()
          if h is not names.get(exp["host"]):
            W("host-component-inconsistent-with-name", name=r, got=repr(h), expected=exp["host"])
        except Exception as e:
          W("get_host_component-raised", name=r, error=repr(e)[:100])
      else:
        if o.get_component_level() != exp["level"]:
          W("component-level-inconsistent-with-name", name=r, got=o.get_component_level(), expected=exp["level"])
      if isinstance(o, Signal):
        ts = o.get_top_level_signal()
        if ts is not names.get(exp["top_sig"]) or o.is_top_level_signal() != (exp["top_sig"] == r):
          W("top-level-signal-inconsistent-with-name", name=r, got=repr(ts), expected=exp["top_sig"])
        if kind == "slice":
          sl = o._dsl.slice
          if f"[{sl.start}:{sl.stop}]" != r[r.rindex("["):]:
            W("slice-name-not-normalised", name=r, slice=[sl.start, sl.stop])
    # every handle the construction code was given (and may have connected, or kept in a list) is THE object of its name
    for (ho, hn) in tab.held:
      sh.count("held_slice_handles_checked")
      if names.get(hn) is not ho or repr(ho) != hn:
        W("slice-handle-obtained-at-construction-is-not-the-object-its-name-evaluates-to", name=hn, handle_repr=repr(ho), name_in_hierarchy=hn in names); break
    missing = set(tab.t) - set(names)
    if missing:
      W("generator-object-missing-from-get_all_object_filter", names=sorted(missing)[:6])
    results.append(set(names))
    if rep == 1:
      # a history: simulate the design for a moment, then unlock it again (what the closed-loop test utilities do before
      # translating a component they have just simulated): every name must evaluate to the same object as before
      from pymtl3 import DefaultPassGroup
      try:
        top.apply(DefaultPassGroup()); top.sim_reset(); top.sim_tick()
        locked = True
      except Exception:
        locked = False; sh.count("hierarchies_not_simulatable")
      if locked:
        try:
          top.unlock_simulation()
        except Exception as e:
          W("unlock_simulation-raised", error=repr(e)[:200])
        sh.count("lock_unlock_histories")
        for r, o in names.items():
          try: back = eval(r, {"s": top})
          except Exception as e:
            W("eval-of-name-raised-after-unlock_simulation", name=r, error=repr(e)[:200]); break
          if back is not o:
            W("eval-of-name-yields-other-object-after-unlock_simulation", name=r, got=repr(back)[:80], got_type=type(back).__name__); break
  sh.count("hierarchies"); sh.count("reelaborations")
  if results[0] != results[1]:
    sh.violation("re-elaboration-gives-different-names", {"only_first": sorted(results[0] - results[1])[:5],
                                                          "only_second": sorted(results[1] - results[0])[:5]}, case=case)
  if len(results[0]) >= 10:
    sh.fp(fingerprint(tab))
  if case < 1:
    sh.sample({"objects": len(results[0]), "names_head": sorted(results[0])[:25]})


def run_adapter_case(sh, case):
  """hierarchies in which the LIBRARY adds components of its own: connecting an RTL send interface to a CL method (or a CL caller
  to an RTL queue) inserts an adapter component into the parent.  Their names obey the same rules: unique, evaluate back, and
  the same construction code elaborated again - in this process, after other designs - gives the same set of names"""
  from vlib import specgen as G
  from vlib.checks.c17_queues import MIXED_SRC
  rng = sh.rng("adapters", case)
  mod = G.load_source(MIXED_SRC + """
class Many(Component):
  def construct(s, shapes):
    s.go = InPort(1)
    s.sys = [TopRTL2CL(Q, n, [False]) if shape == "rtl2cl" else TopCL2RTL(Q, n, [True], [False]) for (shape, Q, n) in shapes]
    for k, (shape, Q, n) in enumerate(shapes):
      if shape == "rtl2cl": s.sys[k].go //= s.go
""", "c14ad")
  try:
    shapes = [(sh_, getattr(mod, rng.choice(["Normal", "Pipe", "Bypass"]) + ("QueueCL" if sh_ == "rtl2cl" else "QueueRTL")), rng.randrange(1, 4))
              for sh_ in [rng.choice(["rtl2cl", "cl2rtl"]) for _ in range(rng.randrange(1, 4))]]
    results = []
    for rep in range(2):
      top = mod.Many(shapes); top.elaborate()
      names = {}
      for o in top.get_all_object_filter(lambda x: True):
        r = repr(o)
        if r in names and names[r] is not o:
          sh.violation("two-objects-share-a-name", {"name": r, "stream": "adapters"}, case=("adapters", case)); return
        names[r] = o
      for r, o in names.items():
        sh.count("objects_roundtripped"); sh.count("adapter_hierarchy_objects")
        try: back = eval(r, {"s": top})
        except Exception as e:
          sh.violation("eval-of-name-raised", {"name": r, "error": repr(e)[:200], "stream": "adapters"}, case=("adapters", case)); return
        if back is not o:
          sh.violation("eval-of-name-yields-other-object", {"name": r, "stream": "adapters"}, case=("adapters", case)); return
      results.append(set(names))
    sh.count("reelaborations"); sh.count("adapter_hierarchies"); sh.count("evaluations")
    if results[0] != results[1]:
      sh.violation("re-elaboration-gives-different-names", {"only_first": sorted(results[0] - results[1])[:5], "only_second": sorted(results[1] - results[0])[:5],
                   "stream": "adapters", "shapes": [(a, q.__name__, n) for a, q, n in shapes]}, case=("adapters", case))
    sh.fp("adapters", tuple((a, q.__name__, n) for a, q, n in shapes))
  finally:
    G.unload(mod)


LISTBUILD_SRC = """
from pymtl3 import *
class LReg(Component):
  def construct(s):
    s.in_ = InPort(8); s.out = OutPort(8)
    @update_ff
    def ff(): s.out <<= s.in_
class LTop(Component):
  def construct(s, how, n):
    s.in_ = InPort(8); s.out = OutPort(8)
    if how == "assign-complete":
      s.regs = [LReg() for _ in range(n)]
    elif how == "plus-equal":
      s.regs = []
      for i in range(n): s.regs += [LReg()]
    elif how == "plus-equal-wires":
      s.regs = [LReg() for _ in range(n)]
      s.ws = [Wire(8)]
      for i in range(n): s.ws += [Wire(8)]
    elif how == "append-after":
      s.regs = [LReg()]
      for i in range(n - 1): s.regs.append(LReg())
    elif how == "setitem-after":
      s.regs = [LReg()] + [None] * (n - 1)
      for i in range(1, n): s.regs[i] = LReg()
    elif how == "overwrite-with-int":
      s.regs = [LReg() for _ in range(n)]
      s.w = Wire(8); s.w //= s.in_
      s.w = 0                       # a typo for  s.w //= 0
    elif how in ("list-overwritten-with-wire", "wire-overwritten-with-list", "list-overwritten-with-list", "wire-overwritten-with-wire"):
      # a field that holds hardware (in use: connected) is assigned a SECOND time, with hardware of another shape
      s.regs = [LReg() for _ in range(n)]
      if how.startswith("list"): s.tmp = [Wire(8) for _ in range(1 + n % 2)]; s.tmp[0] //= s.in_
      else: s.tmp = Wire(8); s.tmp //= s.in_
      if how.endswith("wire"): s.tmp = Wire(8)
      else: s.tmp = [Wire(8) for _ in range(2)]
    elif how in ("insert-then-plus-equal", "reverse-then-plus-equal", "pop-then-plus-equal"):
      # the list is changed IN PLACE after it was assigned, then handed over again with +=
      s.regs = [LReg() for _ in range(n)]
      s.ws = [Wire(8) for _ in range(3)]
      if how[0] == "i": s.ws.insert(0, Wire(8))
      elif how[0] == "r": s.ws.reverse()
      else: s.ws.pop(0)
      s.ws += [Wire(8)]
    elif how in ("reverse-only", "del-first-only", "swap-only"):
      # the list is changed IN PLACE after it was assigned and never handed over again
      s.regs = [LReg() for _ in range(n)]
      s.ws = [Wire(8) for _ in range(3)]
      if how[0] == "r": s.ws.reverse()
      elif how[0] == "d": del s.ws[0]
      else: s.ws[0], s.ws[2] = s.ws[2], s.ws[0]
    elif how in ("grid-reverse-row1", "grid-swap-rows", "grid-reverse-last-row-3d", "grid-untouched"):
      # a list of LISTS changed in place below the first row / plane
      s.regs = [LReg() for _ in range(n)]
      if how.endswith("3d"):
        s.grid = [[[Wire(8) for _ in range(2)] for _ in range(2)] for _ in range(2)]; s.grid[1][1].reverse()
      else:
        s.grid = [[Wire(8) for _ in range(3)] for _ in range(2)]
        if how == "grid-reverse-row1": s.grid[1].reverse()
        elif how == "grid-swap-rows": s.grid[0], s.grid[1] = s.grid[1], s.grid[0]
    elif how == "append-spare":
      # the late elements are not touched again by construct()
      s.regs = [LReg() for _ in range(n)]
      s.spare = [LReg()]
      s.spare.append(LReg())
    elif how == "setitem-spare":
      s.regs = [LReg() for _ in range(n)]
      s.spare = [Wire(8), None]
      s.spare[1] = Wire(8)
    s.regs[0].in_ //= s.in_
    for i in range(1, n): s.regs[i].in_ //= s.regs[i - 1].out
    s.out //= s.regs[n - 1].out
"""


def run_listbuild_case(sh, case):
  """lists of hardware objects built up in several statements: with s.x += [obj] (the field is assigned again and again) every
  element is named; elements slipped into an already assigned list (append, item assignment) can not be seen by the naming
  hook - the design is refused, or every object still has a name that evaluates back"""
  from vlib import specgen as G
  rng = sh.rng("listbuild", case)
  how = rng.choice(["assign-complete", "plus-equal", "plus-equal", "plus-equal-wires", "append-after", "setitem-after", "append-spare", "setitem-spare", "overwrite-with-int",
                    "insert-then-plus-equal", "reverse-then-plus-equal", "pop-then-plus-equal",
                    "reverse-only", "del-first-only", "swap-only",
                    "grid-reverse-row1", "grid-swap-rows", "grid-reverse-last-row-3d", "grid-untouched",
                    "list-overwritten-with-wire", "wire-overwritten-with-list", "list-overwritten-with-list", "wire-overwritten-with-wire"])
  n = rng.randrange(2, 6)
  mod = G.load_source(LISTBUILD_SRC, "c14lb")
  try:
    try:
      top = mod.LTop(how, n); top.elaborate()
    except Exception as e:
      sh.count("listbuild:" + how + ":refused")
      if how in ("assign-complete", "plus-equal", "plus-equal-wires", "grid-untouched"):
        sh.violation("legal-list-construction-refused", {"how": how, "n": n, "error": f"{type(e).__name__}: {str(e)[:200]}"}, case=("listbuild", case))
      return
    sh.count("listbuild:" + how + ":elaborated"); sh.count("list_construction_designs")
    objs = top.get_all_object_filter(lambda x: True)
    comps = [o for o in objs if type(o).__name__ == "LReg"]
    if len(comps) != n and "spare" not in how:
      sh.violation("hardware-object-of-a-list-is-missing-from-the-hierarchy", {"how": how, "n": n, "components_found": len(comps)}, case=("listbuild", case)); return
    if hasattr(top, "grid"):
      def walk_(x, idx):
        if isinstance(x, list):
          for i_, y_ in enumerate(x): yield from walk_(y_, idx + [i_])
        else: yield x, idx
      for w_, idx_ in walk_(top.grid, []):
        want_ = "s.grid" + "".join(f"[{i_}]" for i_ in idx_)
        if w_ not in objs or repr(w_) != want_:
          sh.violation("list-element-name-does-not-say-where-it-is", {"how": how, "position": idx_, "name": repr(w_), "in_hierarchy": w_ in objs}, case=("listbuild", case)); return
    if hasattr(top, "ws"):
      # the wires really in the list are objects of the design, each under its own name
      for i_, w_ in enumerate(top.ws):
        if w_ not in objs or repr(w_) != f"s.ws[{i_}]":
          sh.violation("list-element-name-does-not-say-where-it-is", {"how": how, "position": i_, "name": repr(w_), "in_hierarchy": w_ in objs}, case=("listbuild", case)); return
    for o in objs:
      r = repr(o); sh.count("objects_roundtripped")
      try: back = eval(r, {"s": top})
      except Exception as e:
        sh.violation("eval-of-name-raised", {"name": r[:120], "error": repr(e)[:120], "stream": "listbuild", "how": how}, case=("listbuild", case)); return
      if back is not o:
        sh.violation("eval-of-name-yields-other-object", {"name": r, "stream": "listbuild", "how": how}, case=("listbuild", case)); return
    # every member of every net is a named object of the design, too (a field overwritten with a plain value would leave one behind)
    for wr_, net_ in top.get_all_value_nets():
      for x in net_:
        if type(x).__name__ == "Const": continue
        try: back = eval(repr(x), {"s": top})
        except Exception as e: back = e
        if back is not x:
          sh.violation("eval-of-name-yields-other-object", {"name": repr(x), "got": repr(back)[:80], "stream": "listbuild", "how": how, "object": "net member"}, case=("listbuild", case)); return
    for c_ in comps:
      if not hasattr(c_, "in_"):
        sh.violation("component-of-a-list-was-never-constructed", {"how": how, "component": repr(c_)[:100]}, case=("listbuild", case)); return
  finally:
    G.unload(mod)


FOREIGN_SRC = """
from pymtl3 import *
class FIfc(Interface):
  def construct(s):
    s.d = InPort(4)
class FMon(Component):
  def construct(s):
    s.x = Wire(4)
class FInner(Component):
  def construct(s):
    s.w = Wire(8)
class FDut(Component):
  def construct(s):
    s.in_ = InPort(8); s.inner = FInner()
    s.many = [FInner() for _ in range(2)]
class FTop(Component):
  def construct(s, what):
    s.dut = FDut()
    # a test harness hangs probes and monitors onto the component it wraps
    if 'port' in what:  s.dut.probe = OutPort(8)
    if 'comp' in what:  s.dut.mon = FMon()
    if 'ifc' in what:   s.dut.mon_ifc = FIfc()
    if 'deep' in what:  s.dut.inner.probe2 = Wire(4)
    if 'list' in what:  s.dut.many[1].taps = [Wire(2) for _ in range(2)]
"""


def run_foreign_assign_case(sh, case):
  """hardware assigned to an attribute of ANOTHER object than the one whose construct() is running (a harness hanging a probe port,
  a monitor component, an interface, a list of wires onto the component it wraps, one or two levels down): the design is refused,
  or every object's parent is the object its name's prefix evaluates to, the host component and the level follow from the name"""
  from vlib import specgen as G
  from pymtl3.dsl.Connectable import Signal
  rng = sh.rng("foreign", case)
  what = [k for k in ("port", "comp", "ifc", "deep", "list") if rng.random() < 0.5] or ["port"]
  mod = G.load_source(FOREIGN_SRC, "c14foreign")
  try:
    try:
      top = mod.FTop(what); top.elaborate()
    except Exception as e:
      sh.count("foreign_assignment_designs_refused"); return
    sh.count("foreign_assignment_designs")
    for o in top.get_all_object_filter(lambda x: True):
      r = repr(o)
      if r == "s": continue
      sh.count("objects_roundtripped")
      try: back = eval(r, {"s": top})
      except Exception as e: back = e
      if back is not o:
        sh.violation("eval-of-name-yields-other-object", {"name": r, "stream": "foreign-assignment", "assigned": what}, case=("foreign", case)); return
      if isinstance(o, Signal) and o._dsl.slice is not None: continue
      prefix = r[:r.rindex(".")]
      exp_parent = eval(prefix, {"s": top})
      if o.get_parent_object() is not exp_parent:
        sh.violation("parent-inconsistent-with-name", {"name": r, "got": repr(o.get_parent_object()), "expected": prefix, "stream": "foreign-assignment", "assigned": what}, case=("foreign", case)); return
      # host: the nearest component on the way up the NAME
      host = exp_parent
      while not host.is_component(): host = host.get_parent_object()
      if not o.is_component():
        if o.get_host_component() is not host:
          sh.violation("host-component-inconsistent-with-name", {"name": r, "got": repr(o.get_host_component()), "expected": repr(host), "stream": "foreign-assignment"}, case=("foreign", case)); return
      else:
        lvl = r.count(".")
        if o.get_component_level() != lvl:
          sh.violation("component-level-inconsistent-with-name", {"name": r, "got": o.get_component_level(), "expected": lvl, "stream": "foreign-assignment"}, case=("foreign", case)); return
  finally:
    G.unload(mod)


GRID_SRC = """
from pymtl3 import *
class GLeaf(Component):
  def construct(s):
    s.in_ = InPort(8); s.out = OutPort(8); s.w = [Wire(4) for _ in range(2)]
    s.out //= s.in_
class GLeaf2(GLeaf):
  pass
class GTop(Component):
  def construct(s, dims):
    s.in_ = InPort(8)
    def mk(d): return GLeaf() if not d else [mk(d[1:]) for _ in range(d[0])]
    s.g = mk(dims)
    def each(x, f):
      if isinstance(x, list):
        for y in x: each(y, f)
      else: f(x)
    each(s.g, lambda c: connect(c.in_, s.in_))
"""


def run_replace_names_case(sh, case):
  """names after replace_component / replace_component_with_obj on an element of a 1-, 2- or 3-dimensional list of components (once,
  or two elements one after the other): every object still has a name of its own that evaluates back to it, and the set of
  names is the one of the untouched design"""
  from vlib import specgen as G
  rng = sh.rng("replnames", case)
  dims = [rng.randrange(1, 4) for _ in range(rng.choice([1, 2, 2, 3]))]
  mod = G.load_source(GRID_SRC, "c14grid")
  try:
    ref = mod.GTop(dims); ref.elaborate()
    want = sorted(repr(o) for o in ref.get_all_object_filter(lambda x: True))
    top = mod.GTop(dims); top.elaborate()
    hist = []
    for _ in range(rng.randrange(1, 3)):
      idx = [rng.randrange(d) for d in dims]
      tgt = top.g
      for i in idx: tgt = tgt[i]
      how = rng.choice(["class", "obj"])
      try:
        if how == "class": top.replace_component(tgt, mod.GLeaf2)
        else: top.replace_component_with_obj(tgt, mod.GLeaf2())
      except Exception as e:
        sh.violation("replace-of-a-list-element-raised", {"dims": dims, "index": idx, "how": how, "error": f"{type(e).__name__}: {str(e)[:200]}"}, case=("replnames", case)); return
      hist.append((idx, how))
    sh.count("list_element_replacements_named")
    objs = list(top.get_all_object_filter(lambda x: True))
    names = {}
    for o in objs:
      r = repr(o); sh.count("objects_roundtripped")
      if r in names and names[r] is not o:
        sh.violation("two-objects-share-a-name", {"name": r, "after": hist, "dims": dims}, case=("replnames", case)); return
      names[r] = o
      try: back = eval(r, {"s": top})
      except Exception as e: back = e
      if back is not o:
        sh.violation("eval-of-name-yields-other-object", {"name": r, "got": repr(back)[:80], "after": hist, "dims": dims, "stream": "replacement in a list of lists"}, case=("replnames", case)); return
    if sorted(names) != want:
      sh.violation("names-after-replacement-differ-from-the-untouched-design", {"after": hist, "dims": dims, "only_after": sorted(set(names) - set(want))[:5], "missing": sorted(set(want) - set(names))[:5]}, case=("replnames", case))
  finally:
    G.unload(mod)


def run_fieldname_case(sh, case):
  """bitstruct fields named like attributes of the signal classes ( inverse, get_type, elaborate ... ): the field signal s.x.<f>
  exists, is named and evaluates back - or the signal of that struct type is refused when it is created"""
  from pymtl3 import Component, InPort, OutPort, Wire, mk_bits, mk_bitstruct, update
  from pymtl3.dsl.Connectable import Signal
  rng = sh.rng("fieldname", case)
  pool = ["inverse", "get_type", "default_value", "elaborate", "construct", "is_signal", "get_field_name", "get_host_component", "apply", "_pad", "_rsvd", "_x",
          "data", "val", "rdy", "msg", "opaque", "type_", "addr", "len"]
  fields = rng.sample(pool, rng.randrange(2, 5))
  T = mk_bitstruct(f"FN_{sh.idx}_{case}", {f: mk_bits(rng.choice([1, 4, 8])) for f in fields})
  kind = rng.choice([InPort, OutPort, Wire])
  class FTop(Component):
    def construct(s):
      s.x = kind(T); s.y = Wire(T)
  top = FTop()
  try:
    top.elaborate()
  except Exception as e:
    sh.count("fieldname_designs_refused"); sh.count("fieldname_designs"); return
  sh.count("fieldname_designs")
  for f in fields:
    sh.count("fieldname_fields_checked")
    try: o = getattr(top.x, f)
    except AttributeError as e:
      sh.violation("struct-field-of-a-signal-is-not-a-signal", {"field": f, "got": "AttributeError: " + str(e)[:80], "fields": fields, "signal_kind": kind.__name__}, case=("fieldname", case)); return
    if not isinstance(o, Signal):
      sh.violation("struct-field-of-a-signal-is-not-a-signal", {"field": f, "got": type(o).__name__, "fields": fields, "signal_kind": kind.__name__}, case=("fieldname", case)); return
    try: back = eval(repr(o), {"s": top})
    except Exception as e:
      sh.violation("eval-of-name-raised", {"name": repr(o)[:100], "error": repr(e)[:100], "stream": "fieldname"}, case=("fieldname", case)); return
    if back is not o:
      sh.violation("eval-of-name-yields-other-object", {"name": repr(o), "stream": "fieldname"}, case=("fieldname", case)); return


def run_shard(sh):
  for case in range(6 if sh.tier == "quick" else 40):
    if sh.only is None: run_fieldname_case(sh, sh.idx * 100 + case)
    if sh.only is None: run_foreign_assign_case(sh, sh.idx * 100 + case)
    if sh.only is None: run_replace_names_case(sh, sh.idx * 100 + case)
  for case in range(4):
    if sh.only is None: run_adapter_case(sh, case)
  for case in range(12 if sh.tier == "quick" else 60):
    if sh.only is None: run_listbuild_case(sh, sh.idx * 100 + case)
  for case in range(sh.params["cases"]):
    if sh.only is not None and str(case) != str(sh.only).strip('"'):
      continue
    run_case(sh, case)
