"""C03 - translated SystemVerilog behaves exactly like the PyMTL simulation."""
import ast
import re

from vlib.checks import trcommon as T

PROPERTY = "C03"
LEVEL = "translation_validation"
RULE = ("program = one component hierarchy accepted by VerilogTranslationPass: (a) every translatable case of pymtl3/passes/testcases "
        "with the authors' vectors + random vectors, (b) stdlib components at several parameterisations (queues of every kind, "
        "arbiters, register files, muxes, crossbar, encoder, ChecksumRTL), (c) generated designs (operators with literals in every "
        "operand position, sext/zext/trunc of slices / fields / array elements, nested slices, struct ports and wires, lists, "
        "several instances per class, registers, connections to constants). Each emitted text is parsed, elaborated, driver-"
        "analysed and executed by vlib/svsim and compared on every output port every cycle with the PyMTL simulation of the same "
        "object. distinct_nontrivial = distinct design sources co-simulated to the last cycle")
ASSUMPTIONS = [
  "vlib/svsim (hand-written IEEE 1800-2017 subset interpreter, two-state, all-unsigned) is the trusted base; it is validated in every run on LRM-derived sizing examples and, through this very check, on the repo's own test vectors",
  "designs the translator rejects are outside the premise: counted, not judged",
  "X-propagation is not modelled (the property asks for two-state semantics); division by zero / out-of-range selects are flagged events",
]


def plan(tier, seed):
  q = tier == "quick"
  return [{"hashseed": (seed * 59 + i) % 1051, "part": i, "nparts": 16, "designs": 16 if q else 300, "params": 6 if q else 60, "ifcs": 4 if q else 40} for i in range(16)]


def thresholds(tier):
  t = {"programs": 250, "cycles_cosimulated": 5000, "driver_sets_analysed": 3000, "corpus_cases_cosimulated": 55,
       "stdlib_components_cosimulated": 60, "generated_designs_cosimulated": 150, "param_designs_cosimulated": 60, "svsim_lrm_examples_ok": 24, "struct_constants_evaluated_in_text": 40, "hetero_list_designs": 16, "localname_designs_cosimulated": 30, "constant_use_designs_cosimulated": 30, "descending_loop_designs_cosimulated": 30, "descending_loops_with_positive_end_and_step_2plus": 8, "nested_ifc_array_designs_cosimulated": 20, "child_port_list_designs_cosimulated": 20,
       "form:always_ff": 50, "form:for": 5, "form:size cast N'(e)": 20, "form:replication": 50, "form:typedef struct packed": 50,
       "form:module instance": 50, "form:localparam": 1, "form:indexed part select +:": 1, "form:?:": 50}
  if tier == "thorough":
    t.update({"programs": 2400, "generated_designs_cosimulated": 2200, "cycles_cosimulated": 50000})
  return t


def knobs(rng):
  return {"depth": rng.choice([0, 1, 1, 2]), "max_children": rng.choice([1, 2]), "p_struct": rng.choice([0.2, 0.5]), "p_list": 0.4,
          "p_ff": 0.25, "max_sigs": rng.choice([3, 4]), "expr_depth": rng.choice([2, 3]),
          "p_nested_field": rng.choice([0, 0.3]), "p_list_field": rng.choice([0, 0.35]), "p_const_struct": rng.choice([0.2, 0.7]), "avoid_const_ops": rng.random() < 0.5, "p_const_expr": 0.15, "for_full_desc": rng.random() < 0.6}


# ---- known-finding predicates over the witness --------------------------------------------------------------------

def const_only_nonring_subexpr(src):
  """source contains a sub-expression made only of int constants / closure names that uses >> % // (F-T1 shape)"""
  try:
    tree = ast.parse(src)
  except SyntaxError:
    return False
  def is_const(n):
    if isinstance(n, ast.Constant) and isinstance(n.value, int): return True
    if isinstance(n, ast.Name) and n.id != "s": return True
    if isinstance(n, ast.BinOp): return is_const(n.left) and is_const(n.right)
    return False
  for n in ast.walk(tree):
    if isinstance(n, ast.BinOp) and isinstance(n.op, (ast.RShift, ast.Mod, ast.FloorDiv)) and is_const(n.left) and is_const(n.right):
      return True
  return False


def duplicate_class_names(src):
  """two component classes with one __name__: defined twice, or defined inside a factory function (one definition,
  several class objects that differ in their closure)"""
  names = re.findall(r"^\s*class (\w+)\(\s*Component\s*\)", src, re.M)
  if len(names) != len(set(names)):
    return True
  try:
    tree = ast.parse(src)
  except SyntaxError:
    return False
  for f in ast.walk(tree):
    if isinstance(f, ast.FunctionDef):
      for n in f.body:
        if isinstance(n, ast.ClassDef) and any(getattr(b, "id", None) == "Component" for b in n.bases):
          return True
  return False


def literal_branch_ifexp_meets_int_semantics(src):
  """source contains an if-expression with an integer-literal (or closure constant) branch and a signal branch that is the
  operand of unary ~ / - or of a binary operator whose other operand is again an integer constant: when the literal branch
  is selected python computes on plain ints there, the emitted code on sized vectors (F-T6 / F-W6 shape)"""
  try:
    tree = ast.parse(src)
  except SyntaxError:
    return False
  def is_const(n):
    return (isinstance(n, ast.Constant) and isinstance(n.value, int)) or (isinstance(n, ast.Name) and n.id != "s")
  def int_branch_ifexp(n):
    if not isinstance(n, ast.IfExp): return False
    kinds = [is_const(b) or int_branch_ifexp(b) for b in (n.body, n.orelse)]
    return any(kinds) and not all(is_const(b) for b in (n.body, n.orelse))
  for n in ast.walk(tree):
    if isinstance(n, ast.UnaryOp) and isinstance(n.op, (ast.Invert, ast.USub)) and int_branch_ifexp(n.operand): return True
    if isinstance(n, ast.BinOp) and ((is_const(n.left) and int_branch_ifexp(n.right)) or (is_const(n.right) and int_branch_ifexp(n.left))): return True
  return False


def mech(kind, w, design=None):
  src = w.get("source", "")
  if kind == "emitted-text-does-not-parse-or-elaborate" and re.search(r"\d+ ' d - \d+", w.get("error", "")):
    return "negative-free-variable-emitted-as-unsigned-literal"
  if kind == "emitted-text-does-not-parse-or-elaborate" and re.search(r"instantiated module \w+ is not defined", w.get("error", "")) \
     and "explicit_module_name" in src:
    return "explicit-module-name-on-one-of-two-identical-instances-leaves-a-module-undefined"
  if kind == "output-differs-from-pymtl-simulation":
    if literal_branch_ifexp_meets_int_semantics(src): return "ifexp-with-literal-branch-evaluates-to-python-int-in-simulation"
    if loopvar_modulo_index(src): return "loop-variable-arithmetic-in-index-evaluated-at-index-width"
    if const_only_nonring_subexpr(src): return "const-subexpression-narrowed-before-nonring-operator"
    if duplicate_class_names(src): return "same-class-name-and-params-share-one-module"
  return None


def loopvar_modulo_index(src):
  """the design indexes with ( <loop variable> +|-|* <number> ) % <number> inside a for loop: python computes it on unbounded ints,
  the emitted text at the width of the index (the rotate / permute idiom of F-T19)"""
  for m in re.finditer(r"for (\w+) in range\(", src):
    if re.search(r"\[\s*\(\s*%s\s*[-+*]\s*\d+\s*\)\s*%%\s*\d+\s*\]" % re.escape(m.group(1)), src):
      return True
  return False


PROBES = {
 "F-T1": ("""from pymtl3 import *
class Top(Component):
  def construct(s):
    N = 4
    s.in_ = InPort(2); s.out = OutPort(2); s.o2 = OutPort(1)
    @update
    def up():
      s.out @= s.in_ + (N >> 1)
      s.o2 @= s.in_ < (N % 3)
""", "Top"),
 "F-T19": ("""from pymtl3 import *
class Top(Component):
  def construct(s):
    s.in_ = [InPort(8) for _ in range(6)]; s.o = [OutPort(8) for _ in range(6)]
    @update
    def up():
      for i in range(6):
        s.o[i] @= s.in_[(i + 4) % 6]
""", "Top"),
 "F-T6": ("""from pymtl3 import *
class Top(Component):
  def construct(s):
    K = 1
    s.a = InPort(4); s.c = InPort(1); s.o = OutPort(4)
    @update
    def up():
      s.o @= (K + (s.a if s.c else 15)) >> 1
""", "Top"),
 "F-T7": ("""from pymtl3 import *
NEG = -3
class Top(Component):
  def construct(s):
    s.a = InPort(4); s.c = InPort(1); s.o = OutPort(4)
    @update
    def up():
      s.o @= s.a if s.c else NEG
""", "Top"),
 "F-T8": ("""from pymtl3 import *
from pymtl3.passes.backends.verilog import VerilogTranslationPass
class Leaf(Component):
  def construct(s):
    s.in_ = InPort(8); s.out = OutPort(8)
    s.out //= s.in_
class Top(Component):
  def construct(s):
    s.in_ = InPort(8); s.o1 = OutPort(8); s.o2 = OutPort(8)
    s.a = Leaf(); s.b = Leaf()
    s.a.in_ //= s.in_; s.b.in_ //= s.in_
    s.a.out //= s.o1; s.b.out //= s.o2
    s.b.set_metadata(VerilogTranslationPass.explicit_module_name, 'MyLeaf')
""", "Top"),
 "F-T3": ("""from pymtl3 import *
def mk(k):
  class Inner(Component):
    def construct(s):
      s.i = InPort(8); s.o = OutPort(8)
      @update
      def up(): s.o @= s.i + k
  return Inner
class Top(Component):
  def construct(s):
    s.x = InPort(8); s.a = OutPort(8); s.b = OutPort(8)
    s.c1 = mk(1)(); s.c2 = mk(2)()
    s.c1.i //= s.x; s.c2.i //= s.x
    s.a //= s.c1.o; s.b //= s.c2.o
""", "Top"),
}


def run_shard(sh):
  part, nparts = sh.params["part"], sh.params["nparts"]
  if not T.selfcheck(sh):
    return
  T.corpus_stream(sh, "sv", part, nparts, mech)
  T.stdlib_stream(sh, "sv", part, nparts, mech)
  T.param_stream(sh, "sv", sh.params.get("params", 6), mech)
  T.ifc_stream(sh, "sv", sh.params.get("ifcs", 4), mech)
  T.hetero_stream(sh, "sv", 2, mech)
  T.descloop_stream(sh, "sv", 4 if sh.tier == "quick" else 40, mech)
  T.castuse_stream(sh, "sv", 6 if sh.tier == "quick" else 50, mech)
  T.feedback_stream(sh, "sv", 4 if sh.tier == "quick" else 40, mech)
  T.consttbl_stream(sh, "sv", 4 if sh.tier == "quick" else 40, mech)
  T.ifcportlist_stream(sh, "sv", 3 if sh.tier == "quick" else 30, mech)
  T.childportlist_stream(sh, "sv", 3 if sh.tier == "quick" else 30, mech)
  T.structtmp_stream(sh, "sv", 2 if sh.tier == "quick" else 20, mech)
  T.wrapstruct_stream(sh, "sv", 3 if sh.tier == "quick" else 30, mech)
  T.constuse_stream(sh, "sv", 4 if sh.tier == "quick" else 40, mech)
  T.localname_stream(sh, "sv", 4 if sh.tier == "quick" else 40, mech)
  T.nested_ifc_stream(sh, "sv", 3, mech)
  T.specgen_stream(sh, "sv", sh.params["designs"], knobs, mech, "gen")
  if part == 0:
    for name, (src, top) in PROBES.items():
      T.directed(sh, "sv", name, src, top, mech)
