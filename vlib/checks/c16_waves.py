"""C16 - waveform dumps replay the simulation exactly."""
import keyword
import os
import shutil
import tempfile
import traceback

from vlib import specgen as G, simmon as M, vcdparse

PROPERTY = "C16"
LEVEL = "exploration"
RULE = ("case = one generated design (heavy net sharing, struct signals, lists, never-changing signals, constants, mid-run reset "
        "phases) simulated 20-60 cycles with vcdwave and textwave enabled; ground truth = all-signal snapshots taken by a wrapper "
        "around the stored dump function itself; the .vcd file is read back by vlib/vcdparse and every (signal, cycle) value at time "
        "100*t, every $var width, the clock toggle pattern and the text-wave record are compared with the snapshots. "
        "distinct_nontrivial = designs whose VCD has >= 1 symbol shared by several signals")
ASSUMPTIONS = [
  "scope/var names follow the documented mangling ([ -> (, ] -> ), : -> __, top component = 'top')",
  "signals in the clock net are checked for the 1 at 100t / 0 at 100t+50 pattern instead of a value (clk is constant 0 inside the Python simulator)",
]


def plan(tier, seed):
  q = tier == "quick"
  return [{"hashseed": (seed * 47 + i) % 1039, "designs": 12 if q else 200} for i in range(16)]


def thresholds(tier):
  t = {"designs": 150, "signal_cycle_comparisons": 20000, "shared_symbols": 50, "textwave_comparisons": 10000, "change_records_parsed": 5000, "designs_with_inputs_echoing_tied_constants": 30, "big_designs": 1, "ifc_designs": 60, "openloop_designs": 40}
  if tier == "thorough":
    t = {k: v * 15 for k, v in t.items()}
    t["big_designs"] = 1                      # one per run (shard 0)
    t["openloop_designs"] = 400               # 30 per shard
  return t


def knobs_for(rng):
  return {"depth": rng.choice([0, 1, 1, 2]), "max_children": rng.choice([1, 2, 3]), "p_ff": 0.3, "p_connect": rng.choice([0.4, 0.7]), "p_connect_reset": rng.choice([0, 0.4]), "p_const_generic": rng.choice([0, 0.5]),
          "p_split": 0.3, "p_struct": 0.35, "p_list": 0.3, "max_sigs": rng.choice([3, 5]), "expr_depth": 2, "p_nested_field": rng.choice([0, 0.3]), "p_list_field": rng.choice([0, 0.3]),
          "p_const": rng.choice([0, 0.15, 0.3]), "p_struct_init": rng.choice([0, 0.6]), **({"widths": rng.choice([[1, 2], [1, 2, 3, 4], [2], [8]])} if rng.random() < 0.5 else {})}


def mangle(n):
  return n.replace("[", "(").replace("]", ")").replace(":", "__")


def run_case(sh, case):
  from pymtl3.passes.tracing.VcdGenerationPass import VcdGenerationPass
  from pymtl3.passes.tracing.PrintTextWavePass import PrintTextWavePass
  from pymtl3.passes.tracing.LineTraceParamPass import LineTraceParamPass
  from pymtl3.passes.tracing.CLLineTracePass import CLLineTracePass
  from pymtl3.passes.sim.GenDAGPass import GenDAGPass
  from pymtl3.passes.sim.WrapGreenletPass import WrapGreenletPass
  from pymtl3.passes.sim.DynamicSchedulePass import DynamicSchedulePass
  from pymtl3.passes.sim.PrepareSimPass import PrepareSimPass
  rng = sh.rng("design", case)
  d = G.generate(rng, knobs_for(rng))
  ref = G.Ref(d)
  src = G.emit(d)
  mod = G.load_source(src, "c16")
  fname = os.path.join(os.getcwd(), f"wave_{sh.idx}_{case}")
  try:
    top = getattr(mod, d["top"])()
    top.elaborate()
    # DefaultPassGroup(vcdwave=..., textwave=True) applied step by step, with the dump functions wrapped in between
    top.set_metadata(VcdGenerationPass.vcd_file_name, fname)
    top.set_metadata(PrintTextWavePass.enable, True)
    LineTraceParamPass()(top); GenDAGPass()(top); WrapGreenletPass()(top); CLLineTracePass()(top)
    DynamicSchedulePass()(top); VcdGenerationPass()(top); PrintTextWavePass()(top)
    orig = top.get_metadata(VcdGenerationPass.vcd_func)
    snaps = []
    paths = sorted(ref.sig)
    live = M.Live(top)
    def wrapped():
      snaps.append(live.snapshot(paths))
      orig()
    top.set_metadata(VcdGenerationPass.vcd_func, wrapped)
    PrepareSimPass(print_line_trace=False)(top)
    # a second simulator of the same design, alive in the same process and ticked in between (records are per simulator)
    twin = None
    if rng.random() < 0.4:
      from pymtl3 import DefaultPassGroup
      twin = getattr(mod, d["top"])(); twin.elaborate()
      twin.apply(DefaultPassGroup(textwave=True))
      twin_live = M.Live(twin)
      sh.count("designs_with_an_interleaved_second_simulator")
    widths = {p: w for p, w in G.top_inputs(d)}
    ncyc = rng.randrange(20, 60 if sh.tier == "quick" else 100)
    seq = M.gen_inputs(rng, d, ncyc)
    resets = set(range(2)) | ({rng.randrange(5, ncyc)} if rng.random() < 0.5 else set())
    hold = rng.random() < 0.3
    # hostile to change compression: live values that coincide with the constants tied to other nets (and with 0 / all ones)
    consts = sorted({sv["const"] for c in d["classes"].values() for dst, sv in c["connects"] if "const" in sv})
    if consts and rng.random() < 0.7:
      for cyc in range(ncyc):
        if cyc < 3 or rng.random() < 0.3:
          cv = rng.choice(consts)
          seq[cyc] = {p: (cv & G.mask(w) if rng.random() < 0.8 else v) for (p, w), v in zip(G.top_inputs(d), [seq[cyc][p] for p, w in G.top_inputs(d)])}
      sh.count("designs_with_inputs_echoing_tied_constants")
    for cyc, inp in enumerate(seq):
      if hold and cyc > 3 and cyc % 3: inp = seq[cyc - 1]; seq[cyc] = inp     # inputs that return / do not change
      M.set_inputs(top, live, inp, widths, int(cyc in resets))
      top.sim_tick()
      if twin is not None:
        M.set_inputs(twin, twin_live, {p: v ^ G.mask(widths[p]) for p, v in inp.items()}, widths, int(cyc < 2))
        twin.sim_tick()
    text = open(fname + ".vcd").read()
    vars_, changes = vcdparse.parse(text)
    sh.count("change_records_parsed", sum(len(v) for v in changes.values()))
    if len(snaps) != ncyc:
      sh.violation("dump-function-not-called-once-per-tick", {"calls": len(snaps), "ticks": ncyc, "design_source": src}, case=case); return
    # name -> (width, symbol)
    byname = {}
    for scope, name, width, sym in vars_:
      byname[(scope, name)] = (width, sym)
    clk_syms = set()
    sym_users = {}
    for p in paths:
      parts = p.split(".")          # s, c0, c1, sig
      scope = tuple(["top"] + [mangle(x) for x in parts[1:-1]])
      key = (scope, mangle(parts[-1]))
      if key not in byname:
        sh.violation("signal-has-no-$var", {"signal": p, "design_source": src}, case=case); return
      width, sym = byname[key]
      sym_users.setdefault(sym, []).append(p)
      if width != ref.sig[p][0]:
        sh.violation("$var-width-differs-from-signal-width", {"signal": p, "got": width, "expected": ref.sig[p][0], "design_source": src}, case=case); return
      if p.endswith(".clk"):
        clk_syms.add(sym)
    if len(byname) != len(paths):
      extra = [k for k in byname if k not in {(tuple(["top"] + [mangle(x) for x in p.split(".")[1:-1]]), mangle(p.split(".")[-1])) for p in paths}]
      sh.violation("vcd-declares-vars-that-are-not-signals-of-the-design", {"extra": extra[:5], "design_source": src}, case=case); return
    for sym in clk_syms:
      ser = changes.get(sym, [])
      for t in range(ncyc):
        if vcdparse.value_at(ser, 100 * t) != 1 or vcdparse.value_at(ser, 100 * t + 50) != 0:
          sh.violation("clock-does-not-toggle-once-per-cycle", {"cycle": t, "design_source": src}, case=case); return
    for p in paths:
      width, sym = byname[(tuple(["top"] + [mangle(x) for x in p.split(".")[1:-1]]), mangle(p.split(".")[-1]))]
      if sym in clk_syms: continue
      ser = changes.get(sym, [])
      for t in range(ncyc):
        sh.count("signal_cycle_comparisons")
        got = vcdparse.value_at(ser, 100 * t)
        if got != snaps[t][p]:
          sh.violation("vcd-value-differs-from-simulator-value-at-the-clock-edge", {"signal": p, "cycle": t, "vcd": got,
                       "simulator": snaps[t][p], "symbol_shared_with": sym_users[sym][:5], "design_source": src}, case=case); return
    shared = sum(1 for s, us in sym_users.items() if len(us) > 1 and s not in clk_syms)
    sh.count("shared_symbols", shared)
    # text wave
    tw = top.get_metadata(PrintTextWavePass.textwave_dict)
    for name, vals in tw.items():
      if name not in snaps[0]:
        sh.violation("textwave-records-unknown-signal", {"signal": name}, case=case); return
      if len(vals) != ncyc:
        sh.violation("textwave-record-length-differs-from-cycles", {"signal": name, "got": len(vals), "expected": ncyc, "design_source": src}, case=case); return
      for t, v in enumerate(vals):
        sh.count("textwave_comparisons")
        if int(v[2:], 2) != snaps[t][name] or len(v) - 2 != ref.sig[name][0]:
          sh.violation("textwave-value-differs-from-simulator-value", {"signal": name, "cycle": t, "textwave": v, "simulator": snaps[t][name],
                                                                       "design_source": src}, case=case); return
    missing = [p for p in paths if not p.endswith(".clk") and not (p.endswith(".reset") and p != "s.reset") and p not in tw]
    if missing:
      sh.violation("textwave-misses-signals", {"missing": missing[:5], "design_source": src}, case=case); return
    sh.count("designs"); sh.count("evaluations")
    if shared: sh.fp(src)
    if case < 1:
      sh.sample({"signals": len(paths), "cycles": ncyc, "symbols": len(sym_users), "symbols_shared": shared, "vcd_head": text[:400]})
  except Exception as e:
    sh.violation("tracing-raised-on-legal-design", {"error": traceback.format_exc()[-700:], "design_source": src}, case=case)
  finally:
    G.unload(mod)
    try: os.remove(fname + ".vcd")
    except OSError: pass


BIG_SRC = """from pymtl3 import *
class Big(Component):
  def construct(s, N):
    s.in_ = InPort(8)
    s.w = [Wire(8) for _ in range(N)]
    @update
    def up():
      for i in range(N):
        s.w[i] @= s.in_ + (i & 255)
"""


def run_big_case(sh):
  """a flat design with more than 94 + 94*94 nets: VCD identifier codes need three characters and must stay distinct"""
  from pymtl3 import DefaultPassGroup
  N = 9100
  mod = G.load_source(BIG_SRC, "c16big")
  fname = os.path.join(os.getcwd(), f"wave_big_{sh.idx}")
  try:
    top = mod.Big(N); top.elaborate()
    top.apply(DefaultPassGroup(vcdwave=fname))
    top.sim_reset()
    ins = []
    for cyc in range(3):
      v = (37 * cyc + 11) & 255
      top.in_ @= v; ins.append(v); top.sim_tick()
    text = open(fname + ".vcd").read()
    vars_, changes = vcdparse.parse(text)
    syms = {}
    for scope, name, width, sym in vars_:
      syms.setdefault(sym, []).append(name)
    shared = {k: v for k, v in syms.items() if len(v) > 1 and not all(n in ("clk",) for n in v)}
    sh.count("big_design_symbols", len(syms))
    if shared:
      k0 = sorted(shared)[0]
      sh.violation("unrelated-signals-share-one-vcd-identifier", {"identifier": k0, "signals": shared[k0][:5], "nets": len(syms)}, case="big"); return
    byname = {name: sym for scope, name, width, sym in vars_}
    # sim_reset = 3 ticks (in_ = 0), then the 3 driven cycles
    for cyc, v in enumerate(ins):
      t = 100 * (3 + cyc)
      for i in list(range(0, N, 97)) + list(range(N - 300, N)):
        sh.count("big_design_value_comparisons")
        got = vcdparse.value_at(changes.get(byname[f"w({i})"], []), t)
        if got != (v + i) & 255:
          sh.violation("vcd-value-differs-from-simulator-value-at-the-clock-edge", {"signal": f"s.w[{i}]", "cycle": cyc, "vcd": got, "simulator": (v + i) & 255,
                       "design": "flat design with 9100 wires"}, case="big"); return
    sh.count("big_designs")
  except Exception as e:
    sh.inconclusive("big-design-harness:" + type(e).__name__); sh.sample({"big_error": traceback.format_exc()[-500:]})
  finally:
    G.unload(mod)
    try: os.remove(fname + ".vcd")
    except OSError: pass


IFC_NAMES = ["bus", "regs", "ss", "as_", "ps", "bu", "ifc", "xs", "us"]
PORT_NAMES = ["y", "s", "en", "x", "s_y", "ys", "sy", "clk", "reset", "clk", "reset"]          # data ports may be CALLED clk / reset


def gen_ifc_design(rng):
  """a two-level design whose signals sit in (lists of) interfaces of the top component and of its children; the names are
  chosen so that one name is a prefix / suffix / substring of another (bus.y next to a plain port 'buy', interface 's'-endings).
  -> (source, {signal path: (width, host component path)}, [(top-level input path, width)])"""
  W = rng.choice([2, 4, 8])
  pin0, pin1, pout = rng.sample(sorted(set(PORT_NAMES)), 3) if rng.random() < 0.5 else rng.sample(["clk", "reset", "y", "s"], 3)
  names = rng.sample(IFC_NAMES, 3)
  top_scalar, top_list, child_ifc = names
  L = ["from pymtl3 import *", "class XI(Interface):", "  def construct(s, W):",
       f"    s.{pin0} = InPort(W); s.{pin1} = InPort(1); s.{pout} = OutPort(W)",
       "class Child(Component):", "  def construct(s, W, K):", f"    s.{child_ifc} = XI(W)", "    @update", "    def up():",
       f"      if s.{child_ifc}.{pin1}: s.{child_ifc}.{pout} @= s.{child_ifc}.{pin0} + K",
       f"      else: s.{child_ifc}.{pout} @= s.{child_ifc}.{pin0} ^ K"]
  nl = rng.randrange(1, 3)
  kid_scalar = rng.choice(["c", "cs", "kid", "u", "s", "top"])          # a child may be called like the top's own handle
  kid_list = rng.choice([n for n in ["kids", "ks", "cs", "us_"] if n != kid_scalar])
  L += ["class Top(Component):", "  def construct(s):", f"    s.{top_scalar} = XI({W})",
        f"    s.{top_list} = [XI({W}) for _ in range({nl})]",
        f"    s.{kid_scalar} = Child({W}, {rng.randrange(1, 4)})",
        f"    s.{kid_list} = [Child({W}, 1 + (i + {rng.randrange(3)}) % 3) for i in range({nl})]"]
  sigs = {"s.clk": (1, "s"), "s.reset": (1, "s")}
  inputs = []
  def ifc(path, host, w, is_top):
    for pn, pw in ((pin0, w), (pin1, 1), (pout, w)):
      sigs[f"{path}.{pn}"] = (pw, host)
    if is_top:
      inputs.append((f"{path}.{pin0}", w)); inputs.append((f"{path}.{pin1}", 1))
  ifc(f"s.{top_scalar}", "s", W, True)
  ifc(f"s.{kid_scalar}.{child_ifc}", f"s.{kid_scalar}", W, False)
  sigs[f"s.{kid_scalar}.clk"] = (1, f"s.{kid_scalar}"); sigs[f"s.{kid_scalar}.reset"] = (1, f"s.{kid_scalar}")
  for pn in (pin0, pin1): L.append(f"    s.{kid_scalar}.{child_ifc}.{pn} //= s.{top_scalar}.{pn}")
  L.append(f"    s.{top_scalar}.{pout} //= s.{kid_scalar}.{child_ifc}.{pout}")
  for i in range(nl):
    ifc(f"s.{top_list}[{i}]", "s", W, True)
    ifc(f"s.{kid_list}[{i}].{child_ifc}", f"s.{kid_list}[{i}]", W, False)
    sigs[f"s.{kid_list}[{i}].clk"] = (1, f"s.{kid_list}[{i}]"); sigs[f"s.{kid_list}[{i}].reset"] = (1, f"s.{kid_list}[{i}]")
    for pn in (pin0, pin1): L.append(f"    s.{kid_list}[{i}].{child_ifc}.{pn} //= s.{top_list}[{i}].{pn}")
    L.append(f"    s.{top_list}[{i}].{pout} //= s.{kid_list}[{i}].{child_ifc}.{pout}")
  # plain ports whose names are what is left of '<ifc>.<port>' when pieces of the dotted name are dropped
  used = {top_scalar, top_list, kid_scalar, kid_list}
  for k, (a, b) in enumerate([(top_scalar, pin0), (top_scalar, pout), (top_scalar[:-1], pin0), (top_list, pin0)]):
    for nm in (a + b, a[:-1] + b if len(a) > 1 else None, a + "_" + b):
      if nm and nm not in used and nm.isidentifier() and not keyword.iskeyword(nm) and nm not in (pin0, pin1, pout) and rng.random() < 0.5:
        used.add(nm)
        cv = rng.randrange(1, 1 << W)
        L.append(f"    s.{nm} = OutPort({W})"); L.append(f"    s.{nm} //= {cv}")
        sigs[f"s.{nm}"] = (W, "s")
  return "\n".join(L) + "\n", sigs, inputs


def run_ifc_case(sh, case):
  """signals inside interfaces: every signal has its own $var under the scope of its host component, named by the rest of its
  dotted name; values and text wave as in run_case"""
  from pymtl3 import DefaultPassGroup
  from pymtl3.passes.tracing.VcdGenerationPass import VcdGenerationPass
  from pymtl3.passes.tracing.PrintTextWavePass import PrintTextWavePass
  rng = sh.rng("ifc", case)
  src, sigs, inputs = gen_ifc_design(rng)
  mod = G.load_source(src, "c16i")
  fname = os.path.join(os.getcwd(), f"wave_ifc_{sh.idx}_{case}")
  try:
    top = mod.Top(); top.elaborate()
    if rng.random() < 0.4:
      # the plain pass group for designs without cyclic groups, with both records requested through the metadata keys
      from pymtl3.passes.PassGroups import SimpleSimPass
      top.set_metadata(VcdGenerationPass.vcd_file_name, fname); top.set_metadata(PrintTextWavePass.enable, True)
      top.apply(SimpleSimPass()); sh.count("ifc_designs_under_SimpleSimPass")
    else:
      top.apply(DefaultPassGroup(vcdwave=fname, textwave=True))
    live = M.Live(top)
    paths = sorted(sigs)
    snaps = []
    ncyc = rng.randrange(8, 30)
    for cyc in range(ncyc):
      top.reset @= int(cyc < 2)
      for pth, w in inputs:
        if rng.random() < 0.7: exec(f"{pth} @= {rng.getrandbits(w)}", {"s": top})
      top.sim_eval_combinational()
      snaps.append(live.snapshot(paths))           # the values the clock edge of this cycle sees
      top.sim_tick()
    text = open(fname + ".vcd").read()
    vars_, changes = vcdparse.parse(text)
    byname = {}
    for scope, name, width, sym in vars_:
      if (scope, name) in byname:
        sh.violation("two-$vars-with-one-name-in-one-scope", {"scope": scope, "name": name, "design_source": src}, case=("ifc", case)); return
      byname[(scope, name)] = (width, sym)
    exp = {}
    for pth, (w, host) in sigs.items():
      scope = tuple(["top"] + [mangle(x) for x in host.split(".")[1:]])
      exp[pth] = (scope, mangle(pth[len(host) + 1:]))
    for pth in paths:
      if exp[pth] not in byname:
        sh.violation("signal-has-no-$var", {"signal": pth, "expected": exp[pth], "declared": sorted(k[1] for k in byname if k[0] == exp[pth][0])[:20],
                                            "design_source": src}, case=("ifc", case)); return
      if byname[exp[pth]][0] != sigs[pth][0]:
        sh.violation("$var-width-differs-from-signal-width", {"signal": pth, "design_source": src}, case=("ifc", case)); return
    extra = sorted(set(byname) - set(exp.values()))
    if extra:
      sh.violation("vcd-declares-vars-that-are-not-signals-of-the-design", {"extra": extra[:5], "design_source": src}, case=("ifc", case)); return
    ser_clk = changes.get(byname[exp["s.clk"]][1], [])
    for t in range(ncyc):
      if vcdparse.value_at(ser_clk, 100 * t) != 1 or vcdparse.value_at(ser_clk, 100 * t + 50) != 0:
        sh.violation("clock-does-not-toggle-once-per-cycle", {"cycle": t, "design_source": src}, case=("ifc", case)); return
    for pth in paths:
      if pth == sigs[pth][1] + ".clk": continue          # the clock of a component (a data port of an interface may be CALLED clk)
      ser = changes.get(byname[exp[pth]][1], [])
      for t in range(ncyc):
        sh.count("ifc_signal_cycle_comparisons")
        got = vcdparse.value_at(ser, 100 * t)
        if got != snaps[t][pth]:
          sh.violation("vcd-value-differs-from-simulator-value-at-the-clock-edge", {"signal": pth, "cycle": t, "vcd": got, "simulator": snaps[t][pth],
                                                                                    "design_source": src}, case=("ifc", case)); return
    tw = top.get_metadata(PrintTextWavePass.textwave_dict)
    for name, vals in tw.items():
      if name not in sigs:
        sh.violation("textwave-records-unknown-signal", {"signal": name, "design_source": src}, case=("ifc", case)); return
      for t, v in enumerate(vals[:ncyc]):
        if int(v[2:], 2) != snaps[t][name]:
          sh.violation("textwave-value-differs-from-simulator-value", {"signal": name, "cycle": t, "textwave": v, "simulator": snaps[t][name],
                                                                       "design_source": src}, case=("ifc", case)); return
    # the implicit clk / reset of COMPONENTS may be left out of the text wave; a port of an interface that is called clk / reset is data
    comp_paths = {"s"} | {repr(c) for c in top.get_all_components()}
    missing = [p_ for p_ in paths if p_ not in tw and p_ != "s.clk" and
               not (p_.rsplit(".", 1)[-1] in ("clk", "reset") and p_ != "s.reset" and p_.rsplit(".", 1)[0] in comp_paths)]
    if missing:
      sh.violation("textwave-misses-signals", {"missing": missing[:5], "design_source": src}, case=("ifc", case)); return
    sh.count("ifc_designs"); sh.count("evaluations"); sh.fp(("ifc", src))
  except Exception as e:
    sh.violation("tracing-raised-on-legal-design", {"error": traceback.format_exc()[-700:], "design_source": src}, case=("ifc", case))
  finally:
    G.unload(mod)
    try: os.remove(fname + ".vcd")
    except OSError: pass


OPENLOOP_SRC = """
from pymtl3 import *
@bitstruct
class OPair:
  hi: Bits4
  lo: Bits4
class OLTop(Component):
  # driven through method ports (open-loop simulation): push(v) feeds a register chain, pull() reads combinational logic
  def construct(s, depth):
    s.pending = None
    s.inw = Wire(Bits8); s.w = Wire(Bits8); s.p = Wire(OPair)
    s.r = [Wire(Bits8) for _ in range(depth)]
    @update
    def up_in():
      if s.pending is not None:
        s.inw @= s.pending
        s.pending = None
      else:
        s.inw @= 0
    @update_ff
    def ff():
      s.r[0] <<= s.inw
      for i in range(1, depth):
        s.r[i] <<= s.r[i - 1]
      s.p <<= OPair(s.r[0][4:8], s.r[0][0:4])
    @update
    def up_w():
      s.w @= s.r[depth - 1] + 1
    s.add_constraints( M(s.push) < U(up_in), U(up_w) < M(s.pull) )
  @method_port
  def push(s, v):
    s.pending = v
  @method_port
  def pull(s):
    return s.w
  def line_trace(s):
    return ""
"""


def run_openloop_case(sh, case):
  """the open-loop pass group (GenDAGPass + OpenLoopCLPass: the design is advanced by calling its method ports) with the VCD dump
  and the text wave on: every cycle's record holds the values of THAT cycle's clock edge - registers before they flip, combinational
  signals settled - as computed by a plain model of the register chain from the pushed values"""
  from pymtl3.passes.autotick.OpenLoopCLPass import OpenLoopCLPass
  from pymtl3.passes.sim.GenDAGPass import GenDAGPass
  from pymtl3.passes.tracing.VcdGenerationPass import VcdGenerationPass
  from pymtl3.passes.tracing.PrintTextWavePass import PrintTextWavePass
  rng = sh.rng("openloop", case)
  depth = rng.randrange(1, 4)
  mod = G.load_source(OPENLOOP_SRC, "c16ol")
  d = tempfile.mkdtemp(prefix="c16ol-", dir=os.environ.get("VERIF_SCRATCH") or None)
  try:
    top = mod.OLTop(depth); top.elaborate()
    fname = os.path.join(d, "dump")
    top.set_metadata(VcdGenerationPass.vcd_file_name, fname)
    top.set_metadata(PrintTextWavePass.enable, True)
    top.apply(GenDAGPass()); top.apply(OpenLoopCLPass(print_line_trace=False))
    stim = [rng.choice([0, 255, rng.getrandbits(8)]) for _ in range(rng.randrange(6, 20))]
    off = 0
    if rng.random() < 0.5:
      # the run starts with sim_reset(): the cycles it clocks come first in both records (their number is read from the text wave)
      top.sim_reset()
      off = len(top.get_metadata(PrintTextWavePass.textwave_dict).get("s.inw", []))
      sh.count("openloop_designs_started_with_sim_reset")
    for v in stim:
      top.push(v); top.pull()
    top.push(0)          # completes the last cycle
    n = len(stim)
    exp = {"s.inw": list(stim), "s.w": [], "s.p": []}
    regs = [[0] * n for _ in range(depth)]
    for k in range(n):
      for i in range(depth):
        regs[i][k] = 0 if k == 0 else (stim[k - 1] if i == 0 else regs[i - 1][k - 1])
    for i in range(depth): exp[f"s.r[{i}]"] = regs[i]
    exp["s.w"] = [(regs[depth - 1][k] + 1) & 255 for k in range(n)]
    exp["s.p"] = [0 if k == 0 else regs[0][k - 1] for k in range(n)]
    vars_, changes = vcdparse.parse(open(fname + ".vcd").read())
    byname = {name: sym for scope, name, width, sym in vars_ if scope == ("top",)}
    tw = top.get_metadata(PrintTextWavePass.textwave_dict)
    for pth, vals in exp.items():
      vn = mangle(pth[2:])
      if vn not in byname:
        sh.violation("signal-has-no-$var", {"signal": pth, "declared": sorted(byname)[:12], "stream": "open-loop"}, case=("openloop", case)); return
      ser = changes.get(byname[vn], [])
      for k in range(n):
        sh.count("openloop_signal_cycle_comparisons")
        got = vcdparse.value_at(ser, 100 * (k + off))
        if got != vals[k]:
          sh.violation("vcd-value-differs-from-simulator-value-at-the-clock-edge", {"signal": pth, "cycle": k, "vcd": got, "model": vals[k], "pushed": stim[:k + 1],
                       "stream": "open-loop pass group", "register_chain_depth": depth}, case=("openloop", case)); return
        if pth in tw and k + off < len(tw[pth]) and int(tw[pth][k + off][2:], 2) != vals[k]:
          sh.violation("textwave-value-differs-from-simulator-value", {"signal": pth, "cycle": k, "textwave": tw[pth][k + off], "model": vals[k],
                       "stream": "open-loop pass group"}, case=("openloop", case)); return
      if pth not in tw:
        sh.violation("textwave-misses-signals", {"missing": [pth], "stream": "open-loop"}, case=("openloop", case)); return
    # the clock toggles once per cycle: high at 100 t, low at 100 t + 50, for every cycle either record holds
    if "clk" in byname:
      cser = changes.get(byname["clk"], [])
      for t in range(n + off):
        sh.count("openloop_clock_edges_checked")
        if vcdparse.value_at(cser, 100 * t) != 1 or vcdparse.value_at(cser, 100 * t + 50) != 0:
          sh.violation("clock-does-not-toggle-once-per-cycle", {"cycle": t, "clk_at_edge": vcdparse.value_at(cser, 100 * t), "clk_half_a_cycle_later": vcdparse.value_at(cser, 100 * t + 50),
                       "cycles_clocked_by_sim_reset": off, "stream": "open-loop pass group"}, case=("openloop-clk", case)); return
    sh.count("openloop_designs"); sh.fp(("openloop", depth, tuple(stim[:4])))
  except Exception as e:
    sh.inconclusive("openloop-harness:" + type(e).__name__)
  finally:
    G.unload(mod); shutil.rmtree(d, ignore_errors=True)


def run_shard(sh):
  for case in range(3 if sh.tier == "quick" else 30):
    run_openloop_case(sh, sh.idx * 100 + case)
  if sh.idx == 0:
    run_big_case(sh)
  for case in range(sh.params["designs"] // 2):
    if sh.only is None: run_ifc_case(sh, case)
  for case in range(sh.params["designs"]):
    if sh.only is not None and str(case) != str(sh.only).strip('"'):
      continue
    run_case(sh, case)
