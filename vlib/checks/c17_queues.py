"""C17 - library queues are FIFOs with their advertised same-cycle behaviour.

Monitor: rdy/val/msg/count observed at the interface every cycle and compared
with a list-based FIFO reference per kind (normal/pipe/bypass).  Messages carry
unique ids so loss, duplication, reordering and invention are identified
directly.  Exhaustive part: BFS over reachable control states through the real
simulator (states re-reached by replaying the shortest offer prefix from reset).
"""

import traceback

PROPERTY = "C17"
LEVEL = "exploration"
RULE = ("case = one simulated cycle of a real queue under protocol-legal offers (enq?, unique msg id, deq?) judged on "
        "enq-ready / deq-valid / delivered message / count against the FIFO reference of its kind. Exhaustive part: BFS over "
        "the reachable control states (all signals <= 8 bits wide) x 4 offer combinations for capacities 1..4 (thorough 1..6); "
        "random part: histories with bursts, idle gaps and mid-run resets. distinct_nontrivial = distinct "
        "(class, capacity, occupancy-before, enq offer, deq offer) tuples")
ASSUMPTIONS = [
  "protocol legality: en is only asserted when rdy is observed high; where one side's rdy depends combinationally on the other side's en the independent side is decided first",
  "valrdy_queues.py cannot be imported on the pinned tree (InValRdyIfc/OutValRdyIfc are missing from pymtl3.stdlib.ifcs); the harness injects the two obvious 3-port interface classes to exercise it",
  "valrdy NormalQueueRTL with num_entries=1 fails loudly at construction (clog2(1)=0 -> Bits0) and is not driven; NormalQueue1RTL covers capacity 1",
  "the 1-entry val/rdy queues (valrdy_queues.py, importable only through the harness shim) have no reset on their full bit: for them a reset is modelled as power-on (fresh simulator)",
  "CL queues are driven by update_once blocks of a harness component; their relative order is left to pymtl3's method constraints",
]
EXHAUSTIVE_NOTE = "exhaustive sub-space: reachable control states x {enq,deq} offers for RTL queues with capacity 1..4 (quick) / 1..6 (thorough)"

# ---------------------------------------------------------------------------
# reference
# ---------------------------------------------------------------------------

class FifoRef:
  def __init__(self, kind, n):
    self.kind, self.n, self.q = kind, n, []

  def reset(self):
    self.q = []

  def expect(self, enq_offer, msg, deq_offer):
    """expected observations for this cycle (pure)"""
    q, n, kind = self.q, self.n, self.kind
    count = len(q)
    if kind == "pipe":
      deq_valid = count > 0
      deq_fire = deq_offer and deq_valid
      enq_ready = count < n or deq_fire
      enq_fire = enq_offer and enq_ready
    elif kind == "bypass":
      enq_ready = count < n
      enq_fire = enq_offer and enq_ready
      deq_valid = count > 0 or enq_fire
      deq_fire = deq_offer and deq_valid
    else:
      enq_ready, deq_valid = count < n, count > 0
      enq_fire, deq_fire = enq_offer and enq_ready, deq_offer and deq_valid
    out = (q[0] if q else msg) if deq_fire else None
    return {"enq_rdy": enq_ready, "deq_val": deq_valid, "enq_fire": enq_fire, "deq_fire": deq_fire,
            "deq_msg": out, "count": count}

  def apply(self, enq_fire, msg, deq_fire):
    """advance by the transfers that were *observed*; returns the message a FIFO must deliver, or
    'impossible' when no FIFO of this capacity could make these transfers (then the run stops)"""
    q = self.q
    out = None
    if deq_fire:
      if q:
        out = q.pop(0)
      elif enq_fire and self.kind == "bypass":
        return msg
      else:
        return "impossible"
    if enq_fire:
      q.append(msg)
      if len(q) > self.n:
        return "impossible"
    return out

  def step(self, enq_offer, msg, deq_offer):
    e = self.expect(enq_offer, msg, deq_offer)
    self.apply(e["enq_fire"], msg, e["deq_fire"])
    return e


# ---------------------------------------------------------------------------
# adapters: drive one cycle of the real thing legally, return observations
# ---------------------------------------------------------------------------

def _shim_valrdy():
  import pymtl3.stdlib.ifcs as ifcs
  if hasattr(ifcs, "InValRdyIfc"):
    return
  from pymtl3 import Interface, InPort, OutPort
  class InValRdyIfc(Interface):
    def construct(s, Type):
      s.msg = InPort(Type); s.val = InPort(); s.rdy = OutPort()
  class OutValRdyIfc(Interface):
    def construct(s, Type):
      s.msg = OutPort(Type); s.val = OutPort(); s.rdy = InPort()
  ifcs.InValRdyIfc, ifcs.OutValRdyIfc = InValRdyIfc, OutValRdyIfc


def entry_type(kind):
  from pymtl3 import Bits16, mk_bitstruct, Bits8, Bits4, Bits12
  if kind == "bits":
    return Bits16, (lambda i: Bits16(i)), (lambda m: int(m))
  T = mk_bitstruct("C17Msg", {"hi": Bits4, "mid": Bits8, "lo": Bits4})
  return T, (lambda i: T(Bits4((i >> 12) & 15), Bits8((i >> 4) & 255), Bits4(i & 15))), (lambda m: int(m.to_bits()))


class Adapter:
  """cfg: dict(style, module, cls, kind, n, etype, pg)"""

  def __init__(self, cfg):
    import importlib
    from pymtl3 import DefaultPassGroup
    from pymtl3.passes.mamba.PassGroups import Mamba2020
    self.cfg = cfg
    self.style, self.kind, self.n = cfg["style"], cfg["kind"], cfg["n"]
    if cfg["module"].endswith("valrdy_queues"):
      _shim_valrdy()
    mod = importlib.import_module(cfg["module"])
    cls = getattr(mod, cfg["cls"])
    self.T, self.mk, self.rd = entry_type(cfg.get("etype", "bits"))
    args = cfg["args"]
    real = [self.T if a == "T" else self.n if a == "n" else a for a in args]
    # the 1-entry val/rdy queues keep their 'full' bit in a register without reset: for them
    # "reset" means power-on, i.e. a freshly constructed simulator
    self.noreset = self.style == "valrdy" and cfg["cls"] in ("NormalQueue1RTL", "PipeQueue1RTL", "BypassQueue1RTL")
    def build():
      top = self._cl_harness(cls, real) if self.style == "cl" else cls(*real)
      top.elaborate()
      top.apply(Mamba2020(print_line_trace=False) if cfg.get("pg") == "mamba" else DefaultPassGroup())
      return top
    self.build = build
    self.top = build()
    self.reset(first=True)

  # -- CL harness ---------------------------------------------------------
  def _cl_harness(self, cls, real):
    from pymtl3 import Component, update_once
    ad = self
    class H(Component):
      def construct(s):
        s.q = cls(*real)
        s.io = {"enq_offer": False, "deq_offer": False, "msg": None}
        s.obs = {}
        @update_once
        def up_enq():
          r = bool(s.q.enq.rdy())
          s.obs["enq_rdy"] = r
          s.obs["enq_fire"] = False
          if s.io["enq_offer"] and r:
            s.q.enq(s.io["msg"]); s.obs["enq_fire"] = True
        @update_once
        def up_deq():
          r = bool(s.q.deq.rdy())
          s.obs["deq_val"] = r
          s.obs["deq_fire"] = False
          s.obs["deq_msg"] = None
          if r:
            s.obs["peek"] = s.q.peek() if s.q.peek.rdy() else "peek-not-ready"
          if s.io["deq_offer"] and r:
            s.obs["deq_msg"] = s.q.deq(); s.obs["deq_fire"] = True
    return H()

  def reset(self, first=False):
    if self.noreset and not first:
      self.top = self.build()
    t, st = self.top, self.style
    # a legal environment keeps its request inputs low during reset
    if st == "enqdeq": t.enq.en @= 0; t.deq.en @= 0
    elif st == "enrdy": t.enq.en @= 0; t.deq.rdy @= 0
    elif st == "valrdy": t.enq.val @= 0; t.deq.rdy @= 0
    elif st == "stream": t.recv.val @= 0; t.send.rdy @= 0
    else:
      t.io["enq_offer"] = t.io["deq_offer"] = False
      t.q.queue.clear()      # CL queues have no reset behaviour of their own
    t.sim_reset()

  def sig(self):
    """control-state signature: all signals <= 8 bits (data is 16 bits wide), read at a quiescent point"""
    t = self.top
    if self.style == "cl":
      return (len(t.q.queue),)
    vals = []
    for s in sorted(t.get_all_object_filter(lambda x: hasattr(x, "_dsl") and x.__class__.__name__ in ("Wire", "OutPort")), key=repr):
      try:
        v = eval(repr(s), {"s": t})
        if v.nbits <= 8:
          vals.append(int(v))
      except Exception:
        pass
    return tuple(vals)

  def cycle(self, enq_offer, mid, deq_offer):
    t, st, kind = self.top, self.style, self.kind
    msg = self.mk(mid)
    o = {}
    if st == "enqdeq":      # queues.py: enq(en,rdy,msg) deq(en,rdy,ret) count
      t.enq.msg @= msg; t.enq.en @= 0; t.deq.en @= 0
      t.sim_eval_combinational()
      if kind == "bypass":
        ee = int(enq_offer and bool(t.enq.rdy)); t.enq.en @= ee; t.sim_eval_combinational()
        de = int(deq_offer and bool(t.deq.rdy)); t.deq.en @= de
      else:
        de = int(deq_offer and bool(t.deq.rdy)); t.deq.en @= de; t.sim_eval_combinational()
        ee = int(enq_offer and bool(t.enq.rdy)); t.enq.en @= ee
      t.sim_eval_combinational()
      o = {"enq_rdy": bool(t.enq.rdy), "deq_val": bool(t.deq.rdy), "enq_fire": bool(ee), "deq_fire": bool(de),
           "deq_msg": self.rd(t.deq.ret) if de else None, "count": int(t.count)}
    elif st == "enrdy":     # enrdy_queues.py: enq(en,rdy,msg) deq(en out, rdy in, msg out)
      t.enq.msg @= msg; t.enq.en @= 0; t.deq.rdy @= int(deq_offer)
      t.sim_eval_combinational()
      ee = int(enq_offer and bool(t.enq.rdy)); t.enq.en @= ee
      t.sim_eval_combinational()
      de = bool(t.deq.en)
      o = {"enq_rdy": bool(t.enq.rdy), "deq_val": None, "enq_fire": bool(ee), "deq_fire": de,
           "deq_msg": self.rd(t.deq.msg) if de else None, "count": None}
    elif st in ("valrdy", "stream"):
      enq, deq = (t.enq, t.deq) if st == "valrdy" else (t.recv, t.send)
      enq.msg @= msg; enq.val @= int(enq_offer); deq.rdy @= int(deq_offer)
      t.sim_eval_combinational()
      er, dv = bool(enq.rdy), bool(deq.val)
      de = dv and deq_offer
      cnt = None
      if hasattr(t, "count"): cnt = int(t.count)
      elif hasattr(t, "num_free_entries"): cnt = self.n - int(t.num_free_entries)
      o = {"enq_rdy": er, "deq_val": dv, "enq_fire": bool(enq_offer and er), "deq_fire": bool(de),
           "deq_msg": self.rd(deq.msg) if dv else None, "count": cnt, "msg_checked_on_valid": True}
    else:                   # cl
      t.io["enq_offer"], t.io["deq_offer"], t.io["msg"] = enq_offer, deq_offer, msg
      t.obs.clear()
      cnt = len(t.q.queue)
      t.sim_tick()
      o = dict(t.obs)
      o["count"] = cnt
      if o.get("deq_msg") is not None: o["deq_msg"] = self.rd(o["deq_msg"])
      if "peek" in o and not isinstance(o["peek"], str): o["peek"] = self.rd(o["peek"])
      return o
    t.sim_tick()
    return o


def judge(sh, cfg, ref, e, mid, d, obs, ctx):
  """compare one cycle; the reference then follows the *observed* transfers so that one deviation
  is reported once instead of cascading.  returns False when the run cannot continue"""
  exp = ref.expect(e, mid, d)
  head0 = ref.q[0] if ref.q else None
  must = ref.apply(obs["enq_fire"], mid, obs["deq_fire"])
  sh.count("cycles_judged"); sh.count("evaluations")
  tag = {k: cfg[k] for k in ("module", "cls", "kind", "n")}
  def V(kind, **kw):
    mech = None
    if cfg["cls"] == "BypassQueue2RTL" and kind in ("enq-ready-wrong", "enq-transfer-mismatch") and ctx.get("occupancy") == 1 \
       and exp["enq_rdy"] and not obs["enq_rdy"]:
      mech = "bypassqueue2-bubble-not-ready-with-free-entry"
    sh.violation(kind, dict(tag, **kw, **ctx, expected=exp, observed=obs, pg=cfg.get("pg")), mechanism=mech)
  if "peek" in obs and obs.get("deq_val"):
    # CL queues: peek() shows the message the next deq() delivers - the head of the FIFO (for a bypass queue that is empty, the
    # message enqueued earlier in this very cycle)
    sh.count("peek_checks")
    want = head0 if head0 is not None else (mid if obs["enq_fire"] and cfg["kind"] == "bypass" else None)
    got = obs["peek"]
    if want is not None and got != want:
      V("peek-shows-another-message-than-the-fifo-head", peek=got, fifo_head=want)
  if obs["enq_rdy"] != exp["enq_rdy"]:
    V("enq-ready-wrong")
  if obs.get("deq_val") is not None and obs["deq_val"] != exp["deq_val"]:
    V("deq-valid-wrong")
  if obs["enq_fire"] != exp["enq_fire"]:
    V("enq-transfer-mismatch")
  if obs["deq_fire"] != exp["deq_fire"]:
    V("deq-transfer-mismatch")
  if must == "impossible":
    V("transfer-impossible-for-a-fifo-of-this-capacity(overflow/underflow)")
    return False
  if obs["deq_fire"]:
    sh.count("messages_delivered")
    if obs["deq_msg"] != must:
      V("delivered-message-wrong(lost/dup/reordered/invented)", fifo_head=must)
  if obs.get("count") is not None:
    sh.count("count_checks")
    if obs["count"] != exp["count"]:
      V("occupancy-count-wrong")
    if obs["count"] > cfg["n"]:
      V("occupancy-exceeds-capacity")
  return True


# ---------------------------------------------------------------------------
# configurations
# ---------------------------------------------------------------------------

def configs(tier):
  q = tier == "quick"
  caps = [1, 2, 3, 4] if q else [1, 2, 3, 4, 5, 6]
  out = []
  Q = "pymtl3.stdlib.queues."
  for kind, c in (("normal", "NormalQueueRTL"), ("pipe", "PipeQueueRTL"), ("bypass", "BypassQueueRTL")):
    for n in caps + ([5, 7] if q else [7, 8, 11]):
      out.append({"style": "enqdeq", "module": Q + "queues", "cls": c, "kind": kind, "n": n, "args": ["T", "n"]})
      out.append({"style": "stream", "module": "pymtl3.stdlib.stream.queues", "cls": c, "kind": kind, "n": n, "args": ["T", "n"]})
    for c1, style, mod in ((c.replace("QueueRTL", "Queue1RTL"), "enrdy", Q + "enrdy_queues"),
                           (c.replace("QueueRTL", "Queue1RTL"), "valrdy", Q + "valrdy_queues")):
      out.append({"style": style, "module": mod, "cls": c1, "kind": kind, "n": 1, "args": ["T"]})
    for n in caps:
      out.append({"style": "cl", "module": Q + "cl_queues", "cls": c.replace("RTL", "CL"), "kind": kind, "n": n, "args": ["n"]})
  out.append({"style": "enrdy", "module": Q + "enrdy_queues", "cls": "BypassQueue2RTL", "kind": "bypass", "n": 2, "args": ["T"]})
  for n in caps[1:]:   # capacity 1 is rejected at construction (Bits0 pointer); NormalQueue1RTL covers it
    out.append({"style": "valrdy", "module": Q + "valrdy_queues", "cls": "NormalQueueRTL", "kind": "normal", "n": n, "args": ["n", "T"]})
  return out


def plan(tier, seed):
  cf = configs(tier)
  p = []
  for i, c in enumerate(cf):
    p.append(dict(c, hashseed=(seed * 11 + i) % 499, cycles=400 if tier == "quick" else 6000, cfg_idx=i))
  return p


def thresholds(tier):
  n = len(configs(tier))
  t = {"configs_explored": n, "exhaustive_sets_complete": n - 5, "cycles_judged": 30000, "messages_delivered": 8000,
       "count_checks": 10000, "resets_midrun": 50, "pipe_enq_when_full": 200, "bypass_deq_when_empty": 200,
       "mixed_system_runs": 100, "mixed_messages_delivered": 1000, "peek_checks": 1000, "adapter_runs": 100, "adapter_zero_messages_accepted": 500, "split_system_runs": 100, "queue_chain_runs": 100, "chain_messages_delivered": 1000, "fl_producer_runs": 100}
  if tier == "thorough":
    t.update({"cycles_judged": 800000, "messages_delivered": 200000})
  return t


def exhaustive(tier, counters):
  return counters.get("exhaustive_sets_complete", 0) >= len(configs(tier)) - 5


def run_exh(sh, cfg, pg, etype):
  """BFS over reachable control states through the real simulator"""
  c = dict(cfg, pg=pg, etype=etype)
  ad = Adapter(c)
  ad.reset()
  start = ad.sig()
  prefix = {start: []}
  frontier = [start]
  trans = 0
  limit = 4 * (cfg["n"] + 1) ** 2 + 8
  while frontier and len(prefix) <= limit:
    nxt = []
    for st in frontier:
      for (eo, do) in ((0, 0), (1, 0), (0, 1), (1, 1)):
        ad.reset()
        ref = FifoRef(cfg["kind"], cfg["n"])
        mid = 1
        seq = prefix[st] + [(eo, do)]
        for k, (e, d) in enumerate(seq):
          occ = len(ref.q)
          obs = ad.cycle(bool(e), mid, bool(d))
          if k < len(seq) - 1:
            ref.apply(obs["enq_fire"], mid, obs["deq_fire"])
          else:
            judge(sh, c, ref, bool(e), mid, bool(d), obs, {"occupancy": occ, "offers": seq[-6:], "phase": "bfs"})
            sh.fp(cfg["module"], cfg["cls"], cfg["n"], occ, e, d)
            if cfg["kind"] == "pipe" and occ == cfg["n"] and e and d: sh.count("pipe_enq_when_full")
            if cfg["kind"] == "bypass" and occ == 0 and e and d: sh.count("bypass_deq_when_empty")
          mid += 1
        trans += 1
        s2 = ad.sig()
        if s2 not in prefix:
          prefix[s2] = seq
          nxt.append(s2)
    frontier = nxt
  sh.count("bfs_states", len(prefix)); sh.count("bfs_transitions", trans)
  if frontier:
    sh.inconclusive("bfs-state-limit-hit")
  else:
    return len(prefix)
  return None


def run_rand(sh, cfg, pg, etype, cycles):
  c = dict(cfg, pg=pg, etype=etype)
  rng = sh.rng("rand", cfg["cfg_idx"], pg)
  ad = Adapter(c)
  ref = FifoRef(cfg["kind"], cfg["n"])
  mid = 0
  mode, left = "mix", 0
  hist = []
  for cyc in range(cycles):
    if left == 0:
      mode = rng.choice(["mix", "fill", "drain", "both", "idle", "reset", "mix"])
      left = rng.randrange(1, 3 * cfg["n"] + 4)
    left -= 1
    if mode == "reset":
      ad.reset(); ref.reset(); left = 0
      sh.count("resets_midrun")
      continue
    pe, pd = {"mix": (0.5, 0.5), "fill": (0.9, 0.1), "drain": (0.1, 0.9), "both": (1, 1), "idle": (0.05, 0.05)}[mode]
    e, d = rng.random() < pe, rng.random() < pd
    mid = (mid + 1) & 0xFFFF
    occ = len(ref.q)
    obs = ad.cycle(e, mid, d)
    if not judge(sh, c, ref, e, mid, d, obs, {"occupancy": occ, "cycle": cyc, "phase": "random", "recent": hist[-5:]}):
      break
    sh.fp(cfg["module"], cfg["cls"], cfg["n"], occ, e, d)
    if cfg["kind"] == "pipe" and occ == cfg["n"] and e and d: sh.count("pipe_enq_when_full")
    if cfg["kind"] == "bypass" and occ == 0 and e and d: sh.count("bypass_deq_when_empty")
    hist.append((int(e), int(d), occ))
    if sh.counters["violations_raw"] > 20:
      break
  return hist


MIXED_SRC = """
from pymtl3 import *
from pymtl3.stdlib.ifcs import SendIfcRTL
from pymtl3.stdlib.queues import NormalQueueRTL, PipeQueueRTL, BypassQueueRTL, NormalQueueCL, PipeQueueCL, BypassQueueCL
class ProdCL(Component):
  # a cycle-level producer that keeps ONE payload object and refreshes it in place for every message
  def construct(s, offer):
    s.send = CallerIfcCL()
    s.payload = [Bits16(0)]
    s.loaded = False; s.idx = 0; s.accepted = []; s.cyc = 0
    @update_once
    def up_prod():
      s.cyc += 1
      if s.cyc < 5: return
      if not s.loaded and offer[s.cyc % len(offer)]:
        s.payload[0] @= 0x100 + s.idx
        s.loaded = True
      if s.loaded and s.send.rdy():
        s.send(s.payload[0])
        s.accepted.append(int(s.payload[0]))
        s.idx += 1; s.loaded = False
class TopCL2RTL(Component):
  # ProdCL -> (stock CL->RTL adapter) -> RTL queue -> consumer with stalls
  def construct(s, Q, n, offer, stall):
    s.prod = ProdCL(offer)
    s.q = Q(Bits16, num_entries=n)
    connect(s.prod.send, s.q.enq)
    s.cyc = 0; s.delivered = []
    @update_once
    def up_cons():
      s.q.deq.en @= 0
      if s.q.deq.rdy and not stall[s.cyc % len(stall)]:
        s.q.deq.en @= 1
        s.delivered.append(int(s.q.deq.ret))
      s.cyc += 1
class ProdRTL(Component):
  def construct(s):
    s.send = SendIfcRTL(Bits16)
    s.cnt = Wire(Bits16)
    s.go = InPort(1)
    @update
    def up():
      s.send.en @= s.send.rdy & s.go & ~s.reset
      s.send.msg @= s.cnt + 0x100
    @update_ff
    def ff():
      if s.reset: s.cnt <<= 0
      elif s.send.en: s.cnt <<= s.cnt + 1
class TopRTL2CL(Component):
  # RTL producer -> (stock RTL->CL adapter) -> CL queue -> consumer with stalls
  def construct(s, Q, n, stall):
    s.go = InPort(1)
    s.p = ProdRTL(); s.p.go //= s.go
    s.q = Q(num_entries=n)
    connect(s.p.send, s.q.enq)
    s.cyc = 0; s.delivered = []
    @update_once
    def up_cons():
      s.cyc += 1
      if s.q.deq.rdy() and not stall[s.cyc % len(stall)]:
        s.delivered.append(int(s.q.deq()))
class KeepCL(Component):
  # a cycle-level consumer that KEEPS the message objects it is handed and looks at them only later
  def construct(s, stall):
    s.kept = []; s.cyc = 0
    @update_once
    def up_cnt():
      s.cyc += 1
  @non_blocking(lambda s: not s.stall[s.cyc % len(s.stall)])
  def enq(s, msg):
    s.kept.append(msg)
class TopRTL2Keep(Component):
  # RTL producer -> (stock RTL->CL adapter) -> consumer that keeps the objects
  def construct(s, stall):
    s.go = InPort(1)
    s.p = ProdRTL(); s.p.go //= s.go
    s.k = KeepCL(stall); s.k.stall = stall
    connect(s.p.send, s.k.enq)
"""


def run_mixed(sh, case):
  """whole systems built with the library's own adapters: what is delivered is exactly what was accepted, in order"""
  import importlib, types as _t
  from pymtl3 import DefaultPassGroup
  rng = sh.rng("mixed", case)
  from vlib import specgen as G
  mod = G.load_source(MIXED_SRC, "c17mixed")
  kind = rng.choice(["Normal", "Pipe", "Bypass"])
  n = rng.randrange(1, 5)
  L = rng.randrange(5, 12)
  stall = [rng.random() < rng.choice([0.2, 0.6, 0.85]) for _ in range(L)]
  if all(stall): stall[0] = False
  shape = rng.choice(["cl2rtl", "rtl2cl", "rtl2keep"])
  ncyc = rng.randrange(40, 120)
  try:
    if shape == "cl2rtl":
      offer = [rng.random() < 0.8 for _ in range(rng.randrange(3, 9))]
      if not any(offer): offer[0] = True
      top = mod.TopCL2RTL(getattr(mod, kind + "QueueRTL"), n, offer, stall)
      top.elaborate(); top.apply(DefaultPassGroup()); top.sim_reset()
      for _ in range(ncyc): top.sim_tick()
      accepted, delivered = list(top.prod.accepted), list(top.delivered)
    elif shape == "rtl2keep":
      top = mod.TopRTL2Keep(stall)
      top.elaborate(); top.apply(DefaultPassGroup()); top.sim_reset()
      for _ in range(ncyc):
        top.go @= int(rng.random() < 0.8)
        top.sim_tick()
      delivered = [int(x) for x in top.k.kept]          # looked at only now: each kept object still holds the value it was handed over with
      accepted = [0x100 + i for i in range(int(top.p.cnt) + int(top.p.send.en))]
      sh.count("mixed_runs_with_a_consumer_that_keeps_the_objects")
    else:
      top = mod.TopRTL2CL(getattr(mod, kind + "QueueCL"), n, stall)
      top.elaborate(); top.apply(DefaultPassGroup()); top.sim_reset()
      sent = 0
      for _ in range(ncyc):
        top.go @= int(rng.random() < 0.8)
        top.sim_tick()
      delivered = list(top.delivered)
      # sim_tick ends with the combinational phase of the NEXT cycle: a transfer enabled there is already visible to the consumer
      accepted = [0x100 + i for i in range(int(top.p.cnt) + int(top.p.send.en))]
    sh.count("mixed_system_runs"); sh.count("evaluations"); sh.count("mixed_messages_delivered", len(delivered))
    sh.fp("mixed", shape, kind, n, tuple(stall))
    ctx = {"shape": shape, "queue": kind, "entries": n, "stall_pattern": stall, "cycles": ncyc,
           "accepted": [hex(x) for x in accepted[:24]], "delivered": [hex(x) for x in delivered[:24]]}
    if delivered != accepted[:len(delivered)]:
      k = next((i for i, (a, b) in enumerate(zip(delivered, accepted)) if a != b), min(len(delivered), len(accepted)))
      ctx.update(first_difference_at=k, accepted_there=[hex(x) for x in accepted[max(0, k - 2):k + 3]],
                 delivered_there=[hex(x) for x in delivered[max(0, k - 2):k + 3]], n_accepted=len(accepted), n_delivered=len(delivered))
      sh.violation("system-delivers-other-messages-than-were-accepted", ctx, case=("mixed", case)); return
    if len(accepted) - len(delivered) > n + 2:
      sh.violation("more-messages-in-flight-than-queue-and-adapter-can-hold", ctx, case=("mixed", case)); return
    if len(accepted) < 3:
      sh.inconclusive("mixed-system-made-no-progress")
  except Exception:
    sh.violation("mixed-system-raised", {"shape": shape, "queue": kind, "entries": n, "error": traceback.format_exc()[-600:]}, case=("mixed", case))
  finally:
    G.unload(mod)


SPLIT_SRC = """
from pymtl3 import *
from pymtl3.stdlib.queues import NormalQueueCL, PipeQueueCL, BypassQueueCL
class TopSplitCL(Component):
  # cycle-level producer -> CL queue -> a consumer that SAMPLES deq.rdy() in one block and dequeues in another one (the shape of the
  # library's CL/RTL adapters); the producer likewise samples enq.rdy() in a block of its own.  One payload object is reused.
  def construct(s, Q, n, offer, stall):
    s.q = Q(num_entries=n)
    s.t = 0; s.idx = 0; s.acc = []; s.dlv = []; s.enq_ok = False; s.deq_ok = False; s.rdy_log = []
    s.payload = Bits16(0)
    @update_once
    def up_enq_rdy():
      s.enq_ok = bool(s.q.enq.rdy())
    @update_once
    def up_enq():
      if s.enq_ok and offer[s.t % len(offer)]:
        s.payload @= 0x100 + s.idx
        s.q.enq(s.payload); s.acc.append((s.t, 0x100 + s.idx)); s.idx += 1
    @update_once
    def up_deq_rdy():
      s.deq_ok = bool(s.q.deq.rdy())
    @update_once
    def up_deq():
      s.rdy_log.append((s.t, s.enq_ok, s.deq_ok))
      if s.deq_ok and not stall[s.t % len(stall)]:
        s.dlv.append((s.t, int(s.q.deq())))
    s.add_constraints( U(up_enq_rdy) < U(up_enq), U(up_deq_rdy) < U(up_deq) )      # each side samples before it calls; nothing else
"""


def run_split(sh, case):
  """cycle-level queues used the way the library's adapters use them: rdy sampled in one block, the method called in another.
  Per cycle the observed ready flags and transfers equal the FIFO reference of the queue's kind (same-cycle pipe / bypass
  behaviour included), and what is delivered is what was accepted although the producer reuses its payload object."""
  from pymtl3 import DefaultPassGroup
  from vlib import specgen as G
  rng = sh.rng("split", case)
  mod = G.load_source(SPLIT_SRC, "c17split")
  try:
    kind = rng.choice(["Normal", "Pipe", "Bypass"]); n = rng.randrange(1, 4)
    offer = [rng.random() < rng.choice([0.5, 0.9, 1.0]) for _ in range(rng.randrange(3, 9))]
    if not any(offer): offer[0] = True
    stall = [rng.random() < rng.choice([0.0, 0.0, 0.3, 0.7]) for _ in range(rng.randrange(3, 9))]
    if all(stall): stall[0] = False
    top = mod.TopSplitCL(getattr(mod, kind + "QueueCL"), n, offer, stall)
    top.elaborate(); top.apply(DefaultPassGroup())
    ref = FifoRef(kind.lower(), n)
    ncyc = rng.randrange(30, 90)
    ctx = {"queue": kind + "QueueCL", "entries": n, "offer_pattern": offer, "stall_pattern": stall}
    for t_ in range(ncyc):
      top.t = t_
      na, nd = len(top.acc), len(top.dlv)
      top.sim_tick()
      enq_fire = len(top.acc) > na; deq_fire = len(top.dlv) > nd
      msg = top.acc[-1][1] if enq_fire else None
      exp = ref.expect(offer[t_ % len(offer)], msg if msg is not None else 0x100 + top.idx, not stall[t_ % len(stall)])
      sh.count("split_cycles_judged"); sh.count("cycles_judged")
      if (enq_fire, deq_fire) != (exp["enq_fire"], exp["deq_fire"]):
        sh.violation("transfer-differs-from-fifo-reference-with-rdy-sampled-in-a-separate-block", dict(ctx, cycle=t_, occupancy=exp["count"],
                     enq_offer=offer[t_ % len(offer)], deq_offer=not stall[t_ % len(stall)], observed={"enq": enq_fire, "deq": deq_fire},
                     expected={"enq": exp["enq_fire"], "deq": exp["deq_fire"]}, rdy_flags_seen=top.rdy_log[-1][1:]), case=("split", case)); return
      got = ref.apply(enq_fire, msg, deq_fire)
      if deq_fire and top.dlv[-1][1] != got:
        sh.violation("system-delivers-other-messages-than-were-accepted", dict(ctx, cycle=t_, delivered=hex(top.dlv[-1][1]), expected=hex(got) if isinstance(got, int) else got,
                     note="the producer reuses one payload object"), case=("split", case)); return
    sh.count("split_system_runs"); sh.count("evaluations"); sh.fp("split", kind, n, tuple(offer), tuple(stall))
    if len(top.acc) < 3: sh.inconclusive("split-system-made-no-progress")
  except Exception:
    sh.violation("mixed-system-raised", {"shape": "split", "error": traceback.format_exc()[-600:]}, case=("split", case))
  finally:
    G.unload(mod)


FLPROD_SRC = """
from pymtl3 import *
from pymtl3.stdlib.ifcs import GetIfcRTL, SendIfcFL, SendIfcRTL
from pymtl3.stdlib.queues import NormalQueueRTL, PipeQueueRTL, BypassQueueRTL
@bitstruct
class FPkt:
  seq: Bits8
  pay: Bits8
class ProducerFL(Component):
  # a functional-level producer that re-fills ONE packet object for every message it sends (blocking send)
  def construct(s, nmsg, gaps):
    s.send = SendIfcFL(); s.pkt = FPkt(); s.n = 0; s.sent = []; s.cyc = 0
    @update_once
    def up_produce():
      s.cyc += 1
      if s.reset or gaps[s.cyc % len(gaps)]: return
      if s.n < nmsg:
        s.n += 1
        s.pkt.seq = Bits8(s.n & 255); s.pkt.pay = Bits8((3 * s.n) & 255)
        s.sent.append((s.n & 255, (3 * s.n) & 255))
        s.send(s.pkt)
class FLBehindRTL(Component):
  def construct(s, nmsg, gaps):
    s.send = SendIfcRTL(FPkt); s.p = ProducerFL(nmsg, gaps)
    connect(s.p.send, s.send)          # inserts the library's FL -> RTL adapter
class ConsumerRTL(Component):
  def construct(s, stall):
    s.get = GetIfcRTL(FPkt); s.cyc = Wire(Bits8); s.got = []
    @update_ff
    def up_cnt():
      s.cyc <<= s.cyc + 1
      if s.get.en: s.got.append((int(s.get.ret.seq), int(s.get.ret.pay)))
    @update
    def up_en():
      s.get.en @= s.get.rdy & (s.cyc > stall)
class FLTop(Component):
  def construct(s, Q, n, nmsg, gaps, stall):
    s.w = FLBehindRTL(nmsg, gaps); s.q = Q(FPkt, n); s.c = ConsumerRTL(stall)
    connect(s.w.send, s.q.enq); connect(s.q.deq, s.c.get)
"""


def run_flprod(sh, case):
  """an FL producer (blocking send, ONE packet object re-filled per message) -> the library's FL->RTL adapter -> an RTL queue -> a
  consumer that starts late: the packets delivered are the packets sent, in order"""
  from pymtl3 import DefaultPassGroup
  from vlib import specgen as G
  rng = sh.rng("flprod", case)
  mod = G.load_source(FLPROD_SRC, "c17fl")
  try:
    kind = rng.choice(["Normal", "Pipe", "Bypass"]); n = rng.randrange(1, 4); nmsg = rng.randrange(4, 12)
    gaps = [rng.random() < rng.choice([0.0, 0.3]) for _ in range(rng.randrange(2, 7))]
    if all(gaps): gaps[0] = False
    stall = rng.randrange(0, 16)
    top = mod.FLTop(getattr(mod, kind + "QueueRTL"), n, nmsg, gaps, stall)
    top.elaborate(); top.apply(DefaultPassGroup()); top.sim_reset()
    for _ in range(80): top.sim_tick()
    sent, got = list(top.w.p.sent), list(top.c.got)
    sh.count("fl_producer_runs"); sh.count("evaluations"); sh.fp("flprod", kind, n, nmsg, stall)
    ctx = {"queue": f"{kind}QueueRTL({n})", "consumer_starts_after": stall, "sent": sent[:14], "delivered": got[:14]}
    if got != sent[:len(got)]:
      sh.violation("system-delivers-other-messages-than-were-accepted", dict(ctx, note="the FL producer re-fills one packet object"), case=("flprod", case)); return
    if len(got) < min(3, nmsg): sh.inconclusive("fl-producer-system-made-no-progress")
  except Exception:
    sh.violation("mixed-system-raised", {"shape": "flprod", "error": traceback.format_exc()[-600:]}, case=("flprod", case))
  finally:
    G.unload(mod)


CHAIN_SRC = """
from pymtl3 import *
from pymtl3.stdlib.queues import BypassQueueRTL, DeqIfcRTL, EnqIfcRTL, NormalQueueRTL, PipeQueueRTL
class QChain(Component):
  # enq -> q[0] -> q[1] -> ... -> deq; neighbouring stages are linked with connect( q[i].deq, q[i+1].enq ), i.e. through the
  # library's give -> recv adapter
  def construct(s, stages):
    s.enq = EnqIfcRTL(Bits16); s.deq = DeqIfcRTL(Bits16)
    s.qs = [Q(Bits16, n) for (Q, n) in stages]
    s.enq //= s.qs[0].enq
    for i in range(len(stages) - 1):
      connect(s.qs[i].deq, s.qs[i + 1].enq)
    s.qs[-1].deq //= s.deq
"""


def run_chain(sh, case):
  """two to four library queues chained deq -> enq: the chain is one FIFO - what is delivered is what was accepted, in order, and
  never more in flight than the stages can hold (back-pressure included: a full 1-entry stage behind a loaded one)"""
  from pymtl3 import DefaultPassGroup
  from vlib import specgen as G
  rng = sh.rng("chain", case)
  mod = G.load_source(CHAIN_SRC, "c17chain")
  try:
    kinds = [rng.choice(["Normal", "Pipe", "Bypass"]) for _ in range(rng.randrange(2, 5))]
    caps = [rng.choice([1, 1, 2, 3]) for _ in kinds]
    top = mod.QChain([(getattr(mod, k + "QueueRTL"), n) for k, n in zip(kinds, caps)])
    top.elaborate(); top.apply(DefaultPassGroup()); top.sim_reset()
    p_enq, p_deq = rng.choice([(0.9, 0.3), (0.5, 0.5), (0.95, 0.1), (0.7, 0.9)])
    accepted, delivered, nxt = [], [], 1
    for cyc in range(rng.randrange(40, 120)):
      want_enq, want_deq = rng.random() < p_enq, rng.random() < p_deq
      top.enq.en @= 0; top.deq.en @= 0; top.enq.msg @= nxt
      top.sim_eval_combinational()
      if want_deq and top.deq.rdy:
        top.deq.en @= 1; top.sim_eval_combinational()
      if want_enq and top.enq.rdy:
        top.enq.en @= 1; top.sim_eval_combinational()
      if top.deq.en: delivered.append(int(top.deq.ret))
      if top.enq.en: accepted.append(nxt); nxt += 1
      top.sim_tick()
      sh.count("chain_cycles")
    sh.count("queue_chain_runs"); sh.count("evaluations"); sh.count("chain_messages_delivered", len(delivered))
    sh.fp("chain", tuple(kinds), tuple(caps), p_enq, p_deq)
    ctx = {"stages": [f"{k}QueueRTL({n})" for k, n in zip(kinds, caps)], "p_enq": p_enq, "p_deq": p_deq,
           "accepted": accepted[:30], "delivered": delivered[:30], "n_accepted": len(accepted), "n_delivered": len(delivered)}
    if delivered != accepted[:len(delivered)]:
      k = next((i for i, (a, b) in enumerate(zip(delivered, accepted)) if a != b), min(len(delivered), len(accepted)))
      sh.violation("system-delivers-other-messages-than-were-accepted", dict(ctx, first_difference_at=k), case=("chain", case)); return
    if len(accepted) - len(delivered) > sum(caps):
      sh.violation("more-messages-in-flight-than-queue-and-adapter-can-hold", ctx, case=("chain", case)); return
  except Exception:
    sh.violation("mixed-system-raised", {"shape": "chain", "error": traceback.format_exc()[-600:]}, case=("chain", case))
  finally:
    G.unload(mod)


ADAPT_SRC = """
from pymtl3 import *
from pymtl3.stdlib.stream import SendQueueAdapter, RecvQueueAdapter
@bitstruct
class AMsg:
  a: Bits4
  b: Bits8
def K(m): return int(m.to_bits()) if hasattr(m, "to_bits") else int(m)
class TopSendAd(Component):
  # cycle-level producer -> SendQueueAdapter (one entry) -> stream consumer with stalls
  def construct(s, T, msgs, offer, stall):
    s.q = SendQueueAdapter(T)
    s.cyc = 0; s.idx = 0; s.accepted = []; s.delivered = []; s.rdy_seen = []
    @update_once
    def up_prod():
      r = bool(s.q.enq.rdy())
      s.rdy_seen.append(r)
      if r and offer[s.cyc % len(offer)] and s.idx < len(msgs):
        s.q.enq(msgs[s.idx]); s.accepted.append(s.idx); s.idx += 1
    @update_once
    def up_cons():
      s.q.send.rdy @= 0 if stall[s.cyc % len(stall)] else 1
    @update_once
    def up_log():
      if s.q.send.val & s.q.send.rdy:
        s.delivered.append(K(s.q.send.msg))
      s.cyc += 1
class TopRecvAd(Component):
  # stream producer -> RecvQueueAdapter (one entry) -> cycle-level consumer with stalls
  def construct(s, T, msgs, offer, stall):
    s.q = RecvQueueAdapter(T)
    s.cyc = 0; s.idx = 0; s.accepted = []; s.delivered = []
    @update_once
    def up_prod():
      if offer[s.cyc % len(offer)] and s.idx < len(msgs):
        s.q.recv.val @= 1; s.q.recv.msg @= msgs[s.idx]
      else:
        s.q.recv.val @= 0
    @update_once
    def up_log():
      if s.q.recv.val & s.q.recv.rdy:
        s.accepted.append(s.idx); s.idx += 1
    @update_once
    def up_cons():
      if s.q.deq.rdy() and not stall[s.cyc % len(stall)]:
        s.delivered.append(K(s.q.deq()))
      s.cyc += 1
"""


def run_adapters(sh, case):
  """the one-entry queue adapters of the stream library (cycle-level method on one side, val/rdy stream on the other): what is
  delivered is exactly what was accepted, in order; at most one message is held.  Payloads include zero and all-ones values,
  repeated values, and struct messages."""
  from pymtl3 import DefaultPassGroup, Bits8, Bits1
  from vlib import specgen as G
  rng = sh.rng("adapt", case)
  mod = G.load_source(ADAPT_SRC, "c17adapt")
  try:
    which = rng.choice(["Send", "Recv"])
    et = rng.choice(["bits8", "bits1", "struct"])
    nm = rng.randrange(8, 40)
    def val():
      r = rng.random()
      return 0 if r < 0.45 else (255 if r < 0.55 else rng.getrandbits(8))
    raw = [val() for _ in range(nm)]
    if et == "bits8": T = Bits8; msgs = [Bits8(v) for v in raw]
    elif et == "bits1": T = Bits1; msgs = [Bits1(v & 1) for v in raw]
    else: T = mod.AMsg; msgs = [mod.AMsg(v & 15, v) if v else mod.AMsg() for v in raw]
    offer = [rng.random() < 0.8 for _ in range(rng.randrange(3, 9))]
    if not any(offer): offer[0] = True
    stall = [rng.random() < rng.choice([0.2, 0.6, 0.85]) for _ in range(rng.randrange(3, 11))]
    if all(stall): stall[0] = False
    top = getattr(mod, f"Top{which}Ad")(T, msgs, offer, stall)
    top.elaborate(); top.apply(DefaultPassGroup()); top.sim_reset()
    start = 0                 # the harness runs (and is logged) during the reset cycles, too
    ncyc = rng.randrange(40, 140)
    for _ in range(ncyc): top.sim_tick()
    acc = [i for i in top.accepted]
    key = (lambda m: int(m)) if et != "struct" else (lambda m: int(m.to_bits()))
    exp = [key(msgs[i]) for i in acc]
    got = list(top.delivered)
    sh.count("adapter_runs"); sh.count("evaluations"); sh.count("adapter_messages_delivered", len(got)); sh.count("adapter_zero_messages_accepted", sum(1 for x in exp if x == 0))
    sh.fp("adapter", which, et, tuple(stall), tuple(offer))
    ctx = {"adapter": which + "QueueAdapter", "message_type": et, "stall_pattern": stall, "offer_pattern": offer, "cycles": ncyc,
           "accepted": [hex(x) for x in exp[:30]], "delivered": [hex(x) for x in got[:30]], "n_accepted": len(exp), "n_delivered": len(got)}
    if acc != list(range(start, start + len(acc))):
      sh.inconclusive("adapter-harness-accepted-indices-not-consecutive"); return
    if got != exp[:len(got)]:
      sh.violation("system-delivers-other-messages-than-were-accepted", ctx, case=("adapter", case)); return
    if len(exp) - len(got) > 1:
      sh.violation("more-messages-in-flight-than-queue-and-adapter-can-hold", ctx, case=("adapter", case)); return
    if len(exp) < 3:
      sh.inconclusive("adapter-system-made-no-progress")
  except Exception:
    sh.violation("mixed-system-raised", {"shape": "adapter", "error": traceback.format_exc()[-600:]}, case=("adapter", case))
  finally:
    G.unload(mod)


def run_shard(sh):
  cfg = sh.params
  for case in range(3 if sh.tier == "quick" else 30):
    run_adapters(sh, cfg["cfg_idx"] * 100 + case)
    run_split(sh, cfg["cfg_idx"] * 100 + case)
    run_chain(sh, cfg["cfg_idx"] * 100 + case)
    run_flprod(sh, cfg["cfg_idx"] * 100 + case)
  for case in range(3 if sh.tier == "quick" else 30):
    run_mixed(sh, cfg["cfg_idx"] * 100 + case)
  rng = sh.rng("cfg", cfg["cfg_idx"])
  states = None
  if cfg["style"] != "cl":
    states = run_exh(sh, cfg, "default", "bits")
    if states is not None:
      sh.count("exhaustive_sets_complete")
  else:
    states = run_exh(sh, cfg, "default", "bits")
    if states is not None:
      sh.count("exhaustive_sets_complete")
  hist = []
  for pg in ("default", "mamba"):
    for et in ("bits", "struct"):
      if cfg["style"] == "cl" and (pg == "mamba"):
        continue
      hist = run_rand(sh, cfg, pg, et, cfg["cycles"] // 2)
  sh.count("configs_explored")
  if cfg["cfg_idx"] % 9 == 0:
    sh.sample({"config": {k: cfg[k] for k in ("module", "cls", "kind", "n", "style")}, "bfs_states": states,
               "random_history_head(enq,deq,occupancy)": hist[:12]})
