"""Differential co-simulation of a PyMTL component and the text its translation passes emit (C03 / C12 / C13).

Port map (the rule, derived from the documented mangling - interface members joined by `__`, list indices become
unpacked-array indices in the SystemVerilog backend and `__<i>` suffixes in the Yosys backend, struct ports stay packed
structs in SystemVerilog and are flattened leaf by leaf (`__<field>`, `__<i>`) in the Yosys backend):
a PyMTL top-level port  s.a[i].b[j]  of type T  is
   SystemVerilog:  port  a__b  element [i][j]                     (packed value = to_bits)
   Yosys        :  ports a__i__b__j + "__<leaf path>" for every leaf of T, carrying bits [lo, lo+w) of to_bits
"""
import os
import re

from vlib import bitsref, svsim


def shape_of(T):
  """bitsref shape of a PyMTL data type (Bits class or bitstruct class)"""
  from pymtl3.datatypes import Bits
  from pymtl3.datatypes.bitstructs import is_bitstruct_class
  if isinstance(T, list):
    return ("list", len(T), shape_of(T[0]))
  if is_bitstruct_class(T):
    return ("struct", T.__name__, [(fn, shape_of(ft)) for fn, ft in T.__bitstruct_fields__.items()])
  return T.nbits


def translate(top, backend, tag=None):
  """apply the real translation pass; returns (text, filename)"""
  if backend == "sv":
    from pymtl3.passes.backends.verilog import VerilogTranslationPass as P
  else:
    from pymtl3.passes.backends.yosys import YosysTranslationPass as P
  top.set_metadata(P.enable, True)
  top.apply(P())
  fn = top.get_metadata(P.translated_filename)
  with open(fn) as f:
    text = f.read()
  return text, fn, top.get_metadata(P.translated_top_module)


NAME_RE = re.compile(r"([A-Za-z_][A-Za-z_0-9]*)((?:\[\d+\])*)")


def split_name(r):
  """'s.a[1].b[2][3]' -> [('a',[1]), ('b',[2,3])]"""
  assert r.startswith("s.")
  out = []
  for part in r[2:].split("."):
    m = NAME_RE.fullmatch(part)
    out.append((m.group(1), [int(x) for x in re.findall(r"\[(\d+)\]", m.group(2))]))
  return out


class PortMap:
  def __init__(self, top, backend):
    self.backend = backend
    self.ports = []      # dict(name, dir, shape, width, sv=[(svname, idx, lo, w)])
    from pymtl3.dsl.Connectable import InPort, OutPort
    allp = top.get_all_object_filter(lambda x: isinstance(x, (InPort, OutPort)) and x.is_top_level_signal()
                                     and x.get_host_component() is top)
    for dirn, sigs in (("in", [x for x in allp if isinstance(x, InPort)]), ("out", [x for x in allp if isinstance(x, OutPort)])):
      for sgn in sorted(sigs, key=repr):
        r = repr(sgn)
        toks = split_name(r)
        shape = shape_of(sgn._dsl.Type)
        width = bitsref.shape_nbits(shape)
        if backend == "sv":
          name = "__".join(t[0] for t in toks)
          idx = tuple(i for t in toks for i in t[1])
          sv = [(name, idx, 0, width)]
        else:
          parts = []
          for nm, ix in toks:
            parts.append(nm); parts += [str(i) for i in ix]
          base = "__".join(parts)
          if isinstance(shape, int):
            sv = [(base, (), 0, width)]
          else:
            sv = [("__".join([base] + [str(p) for p in path]), (), lo, w) for (path, lo, w) in bitsref.leaves(shape)]
        self.ports.append({"name": r, "dir": dirn, "shape": shape, "width": width, "sv": sv})

  def check_against(self, sim):
    """every mapped SV port must exist with the right direction/width; every module port must be mapped"""
    problems = []
    mports = {p[2]: p for p in sim.top.mod["ports"]}
    used = set()
    for p in self.ports:
      for (svn, idx, lo, w) in p["sv"]:
        mp = mports.get(svn)
        if mp is None:
          problems.append(f"no module port {svn} for {p['name']}"); continue
        used.add(svn)
        if (mp[0] == "input") != (p["dir"] == "in"):
          problems.append(f"direction of {svn} differs from {p['name']}")
        if len(idx) != len(mp[3]):
          problems.append(f"array rank of {svn} {mp[3]} does not match {p['name']}")
        elif any(i >= n for i, n in zip(idx, mp[3])):
          problems.append(f"index of {p['name']} outside array {svn}{mp[3]}")
        if svsim.twidth(mp[1]) != w:
          problems.append(f"width of {svn} is {svsim.twidth(mp[1])}, {p['name']} needs {w}")
    for n in mports:
      if n not in used:
        problems.append(f"module port {n} corresponds to no PyMTL port")
    return problems


def pymtl_value(top, name):
  o = eval(name, {"s": top})
  return int(o.to_bits()) if hasattr(o, "to_bits") else int(o)


class CoSim:
  """one PyMTL simulator + one svsim of its translation, kept in lock step"""

  def __init__(self, top, backend, text=None, top_module=None):
    from pymtl3 import DefaultPassGroup
    self.top = top
    self.backend = backend
    if text is None:
      text, _, top_module = translate(top, backend)
    self.text = text
    self.design = svsim.parse(text)
    self.sim = svsim.Sim(self.design, top_module)
    self.pm = PortMap(top, backend)
    self.map_problems = self.pm.check_against(self.sim)
    top.apply(DefaultPassGroup())
    self.cycle = 0
    self.compared = 0

  def copy_inputs(self):
    for p in self.pm.ports:
      if p["dir"] != "in": continue
      v = pymtl_value(self.top, p["name"])
      for (svn, idx, lo, w) in p["sv"]:
        if svn in self.sim.top.vars:
          self.sim.set(svn, (v >> lo) & ((1 << w) - 1), idx)

  def compare_outputs(self):
    """-> list of (port, leaf, pymtl, sv)"""
    diffs = []
    for p in self.pm.ports:
      if p["dir"] != "out": continue
      v = pymtl_value(self.top, p["name"])
      for (svn, idx, lo, w) in p["sv"]:
        if svn not in self.sim.top.vars: continue
        got = self.sim.get(svn, idx)
        self.compared += 1
        if got != ((v >> lo) & ((1 << w) - 1)):
          diffs.append((p["name"], svn, hex((v >> lo) & ((1 << w) - 1)), hex(got)))
    return diffs

  def step(self, apply_inputs):
    """apply_inputs(top) sets the PyMTL inputs; returns diffs after settle (pre-edge), then ticks both"""
    apply_inputs(self.top)
    self.top.sim_eval_combinational()
    self.copy_inputs()
    self.sim.settle()
    d = self.compare_outputs()
    self.top.sim_tick()
    self.sim.tick()
    self.cycle += 1
    return d
