"""specgen - random RTL design specifications, a PyMTL emitter and an independent bit-level reference model.

A design spec is plain JSON-able data (dicts / lists / ints / strings):

  design = {"types": {tname: [[fname, width], ...]},            flat packed structs
            "classes": {cname: class}, "order": [cname...], "top": cname}
  class  = {"name", "signals": [sig], "children": [[iname, cname]], "connects": [[dst_ref, src]],
            "blocks": [block]}
  sig    = {"name", "kind": InPort|OutPort|Wire, "type": width | ["struct", tname], "list": None | n}
  ref    = {"path": "w_1" | "c0.in_2" | "arr_3[1]", "steps": [["f", fname] | ["s", lo, hi]], "lo": bit offset in the root
            signal, "w": width}
  src    = ref | {"const": value}
  block  = {"name", "kind": "comb"|"ff", "stmts": [stmt]}
  stmt   = ["=", ref, expr] | ["if", expr, [stmt], [stmt]]
  expr   = ["rd", ref] | ["c", value, width|None] | ["bin", op, a, b] | ["cmp", op, a, b] | ["inv", a] |
           ["zext", a, w] | ["sext", a, w] | ["trunc", a, w] | ["cat", [a...]] | ["ite", c, a, b] | ["red", op, a]

The reference model (class Ref) never imports pymtl3: signals are bit cells, connections are unions of cells,
blocks are interpreted on Python ints with explicit width arithmetic (DESIGN.md Appendix B).
"""
import json
import re
import linecache
import sys
import types

WIDTHS = [1, 2, 3, 4, 5, 7, 8, 8, 9, 16, 16, 31, 32, 32, 33, 63, 64, 65, 100, 128]
SMALLW = [1, 2, 3, 4, 5, 7, 8, 8, 9, 16]


def mask(w):
  return (1 << w) - 1


def list_suffixes(lst):
  """index suffixes of a list signal: lst = n (1-D) or [n, m, ..] (multi-dimensional)"""
  if not lst: return [""]
  dims = [lst] if isinstance(lst, int) else list(lst)
  out = [""]
  for d in dims:
    out = [p + f"[{i}]" for p in out for i in range(d)]
  return out


def may_be_int(e):
  """True when the PYTHON simulation of e can produce a plain int (a literal, a free variable, or a conditional expression
  with such a branch): under ~, or next to another such operand, python computes on unbounded ints instead of Bits"""
  if e[0] == "c": return e[2] is None
  if e[0] == "fv": return True
  if e[0] == "ite": return may_be_int(e[2]) or may_be_int(e[3])
  return False


def make_explicit(e, w):
  """e re-written so that every value it can produce is a Bits of width w"""
  if e[0] == "c": return ["c", e[1], w]
  if e[0] == "fv": return ["c", e[2], w]
  if e[0] == "ite": return ["ite", e[1], make_explicit(e[2], w), make_explicit(e[3], w)]
  return e


# ---------------------------------------------------------------------------
# type helpers
# ---------------------------------------------------------------------------

def twidth(design, t):
  """t: int | ["struct", name] | ["list", n, t]"""
  if isinstance(t, int):
    return t
  if t[0] == "list":
    return t[1] * twidth(design, t[2])
  return sum(twidth(design, ft) for _, ft in design["types"][t[1]])


def subobjects(design, t, steps=(), lo=0):
  """every addressable sub-object of a value of type t: [(steps, lo, type)] - fields (first field most significant) and list
  elements (element 0 least significant), at every depth; the root itself is not included"""
  out = []
  if isinstance(t, int):
    return out
  if t[0] == "list":
    ew = twidth(design, t[2])
    for i in range(t[1]):
      st = list(steps) + [["i", i]]
      out.append((st, lo + i * ew, t[2]))
      out += subobjects(design, t[2], st, lo + i * ew)
    return out
  pos = lo + twidth(design, t)
  for fn, ft in design["types"][t[1]]:
    w = twidth(design, ft)
    pos -= w
    st = list(steps) + [["f", fn]]
    out.append((st, pos, ft))
    out += subobjects(design, ft, st, pos)
  return out


def ref_is_bits(design, cls, r):
  """True when reference r (a local path of class cls + steps) denotes a Bits-valued object (not a struct / list)"""
  return isinstance(ref_type(design, cls, r), int)


def ref_type(design, cls, r):
  """type of the object that r denotes BEFORE its slice steps (None if unknown)"""
  path = r["path"]
  while "." in path:
    iname, path = path.split(".", 1)
    iname = iname.split("[")[0]
    ccn = dict(cls["children"]).get(iname)
    if ccn is None: return None
    cls = design["classes"][ccn]
  base = path.split("[")[0].replace("$", "")
  t = None
  for sg in cls["signals"]:
    if sg["name"] == base: t = sg["type"]
  if t is None: return None
  for st in r["steps"]:
    if st[0] == "f":
      if isinstance(t, int) or t[0] != "struct": return None
      t = dict((fn, ft) for fn, ft in design["types"][t[1]])[st[1]]
    elif st[0] == "i":
      if isinstance(t, int) or t[0] != "list": return None
      t = t[2]
    else:
      return t if isinstance(t, int) else None
  return t


def struct_const(design, t, rng):
  """a random constant of type t -> (constructor text, packed value); first field most significant, list element 0 least"""
  if isinstance(t, int):
    v = rng.choice([rng.getrandbits(t), 1, mask(t)]) & mask(t)
    return bits_ctor(t, v), v
  if t[0] == "list":
    ew = twidth(design, t[2])
    parts = [struct_const(design, t[2], rng) for _ in range(t[1])]
    return "[" + ", ".join(p_[0] for p_ in parts) + "]", sum(p_[1] << (i * ew) for i, p_ in enumerate(parts))
  txt, val = [], 0
  for fn, ft in design["types"][t[1]]:
    tx, v = struct_const(design, ft, rng)
    txt.append(f"{fn}={tx}"); val = (val << twidth(design, ft)) | v
  return f"{t[1]}(" + ", ".join(txt) + ")", val


def field_range(design, t, fname):
  """(lo, width) of a top-level field inside the packed struct; first field most significant"""
  for st, lo, ft in subobjects(design, t):
    if st == [["f", fname]]:
      return lo, twidth(design, ft)
  raise KeyError(fname)


# ---------------------------------------------------------------------------
# expression utilities
# ---------------------------------------------------------------------------

def ewidth(e):
  k = e[0]
  if k == "rd": return e[1]["w"]
  if k == "c": return e[2]
  if k == "fv": return None            # free variable (closure int constant): implicit width
  if k == "lv": return None            # loop variable: a python int
  if k == "tv": return e[2]            # block-local temporary
  if k == "bin": return ewidth(e[2]) if ewidth(e[2]) is not None else ewidth(e[3])
  if k in ("cmp", "red"): return 1
  if k == "inv": return ewidth(e[1])
  if k in ("zext", "sext", "trunc"): return e[2]
  if k == "cat": return sum(ewidth(x) for x in e[1])
  if k == "cast": return e[2]            # same-width BitsN( expr ) cast
  if k == "sc": return e[3]             # struct constant kept as an attribute of the component, read whole ( s.KA0 )
  if k == "vf": return e[3]["w"]        # value-returning @s.func helper  name(arg) == arg OP s.<signal>
  if k == "vsl": return e[3]            # variable part-select x[ i : i+size ] (size 1: also the bit select x[i])
  if k == "csl": return e[3] - e[2]     # slice [lo:hi] of a call result ( concat(..)[lo:hi], sext(..)[lo:hi] )
  if k == "ite": return ewidth(e[2]) if ewidth(e[2]) is not None else ewidth(e[3])
  raise KeyError(k)


def expr_refs(e, out):
  k = e[0]
  if k == "rd": out.append(e[1])
  elif k in ("c", "fv", "lv", "sc"): pass
  elif k == "tv": out.append({"tmp": e[1]})
  elif k in ("bin", "cmp"): expr_refs(e[2], out); expr_refs(e[3], out)
  elif k in ("inv", "zext", "sext", "trunc", "csl", "cast"): expr_refs(e[1], out)
  elif k == "red": expr_refs(e[2], out)
  elif k == "vsl": out.append(e[1]); expr_refs(e[2], out)
  elif k == "vf": expr_refs(e[2], out); out.append(e[3])
  elif k == "cat":
    for x in e[1]: expr_refs(x, out)
  elif k == "ite": expr_refs(e[1], out); expr_refs(e[2], out); expr_refs(e[3], out)
  return out


def stmt_reads_writes(stmts, reads, writes):
  r0 = len(reads)
  _stmt_rw(unroll(stmts), reads, writes)
  reads[r0:] = [r for r in reads[r0:] if "tmp" not in r]       # temporaries are block-local, not signals
  return reads, writes


def _stmt_rw(stmts, reads, writes):
  for st in stmts:
    if st[0] == "=":
      writes.append(st[1]); expr_refs(st[2], reads)
    elif st[0] == "tmp":
      expr_refs(st[2], reads)
    else:
      expr_refs(st[1], reads)
      _stmt_rw(st[2], reads, writes); _stmt_rw(st[3], reads, writes)
  return reads, writes


def ref_text(r):
  s = "s." + r["path"].replace("$", "")
  for st in r["steps"]:
    if st[0] == "f": s += "." + st[1]
    elif st[0] == "i": s += f"[{st[1]}]"
    elif st[0] == "sv": s += f"[{st[1]}*{st[2]}:{st[1]}*{st[2]}+{st[2]}]"        # loop-variable slice [i*w : i*w+w]
    elif len(st) > 4 and isinstance(st[4], list):                                            # st[4] = ["ex", lo_text, hi_text]: bounds written as constant
      s += f"[{st[4][1]}:{st[4][2]}]"                                                        #   expressions of closure variables ( s.x[NB9-2:NB9-1] )
    elif len(st) > 4: s += "[:%d]" % st[2] if st[4] == "lo" else "[%d:]" % st[1]            # st[4]: the bound that the text leaves out
    else: s += f"[{st[1]}:{st[2]}]" if len(st) < 4 else f"[{st[1]}:{st[2]}:{st[3]}]"       # st[3]: a slice step (only in defective designs)
  return s


def concretize(r, env):
  """a reference that mentions loop variables ($i in the path, ["sv", i, w] slices) for concrete loop values"""
  if not r.get("sym"):
    return r
  path = r["path"]
  lo = r["lo"]
  steps = []
  for st in r["steps"]:
    if st[0] == "sv":
      v = env[st[1]]
      steps.append(["s", v * st[2], v * st[2] + st[2]]); lo += v * st[2]
    else:
      steps.append(st)
  for var, v in env.items():
    path = path.replace("$" + var, str(v))
  return {"path": path, "steps": steps, "lo": lo, "w": r["w"]}


def subst_expr(e, env):
  k = e[0]
  if k == "rd": return ["rd", concretize(e[1], env)]
  if k == "lv": return ["c", env[e[1]], None]
  if k in ("c", "fv", "tv", "sc"): return e
  if k in ("bin", "cmp"): return [k, e[1], subst_expr(e[2], env), subst_expr(e[3], env)]
  if k == "inv": return [k, subst_expr(e[1], env)]
  if k in ("zext", "sext", "trunc"): return [k, subst_expr(e[1], env)] + list(e[2:])
  if k == "csl": return [k, subst_expr(e[1], env), e[2], e[3]]
  if k == "cast": return [k, subst_expr(e[1], env), e[2]]
  if k == "vsl": return [k, concretize(e[1], env), subst_expr(e[2], env)] + list(e[3:])
  if k == "vf": return [k, e[1], subst_expr(e[2], env), e[3], e[4]]
  if k == "red": return [k, e[1], subst_expr(e[2], env)]
  if k == "cat": return [k, [subst_expr(x, env) for x in e[1]]]
  if k == "ite": return [k, subst_expr(e[1], env), subst_expr(e[2], env), subst_expr(e[3], env)]
  raise KeyError(k)


def map_expr(e, f):
  """e rebuilt bottom-up; f(node) -> replacement node (or the node itself)"""
  k = e[0]
  if k in ("rd", "c", "fv", "tv", "lv", "sc"): n = e
  elif k in ("bin", "cmp"): n = [k, e[1], map_expr(e[2], f), map_expr(e[3], f)]
  elif k == "inv": n = [k, map_expr(e[1], f)]
  elif k in ("zext", "sext", "trunc", "csl", "cast"): n = [k, map_expr(e[1], f)] + list(e[2:])
  elif k == "red": n = [k, e[1], map_expr(e[2], f)]
  elif k == "vsl": n = [k, e[1], map_expr(e[2], f)] + list(e[3:])
  elif k == "vf": n = [k, e[1], map_expr(e[2], f), e[3], e[4]]
  elif k == "cat": n = [k, [map_expr(x, f) for x in e[1]]]
  elif k == "ite": n = [k, map_expr(e[1], f), map_expr(e[2], f), map_expr(e[3], f)]
  else: raise KeyError(k)
  return f(n)


def map_stmts(stmts, f):
  out = []
  for st in stmts:
    if st[0] == "=": out.append(["=", st[1], map_expr(st[2], f)] + list(st[3:]))
    elif st[0] == "tmp": out.append(["tmp", st[1], map_expr(st[2], f)])
    elif st[0] == "for": out.append(st[:5] + [map_stmts(st[5], f)])
    elif st[0] in ("call", "raw"): out.append(st)
    else: out.append([st[0], map_expr(st[1], f), map_stmts(st[2], f), map_stmts(st[3], f)])
  return out


def unroll(stmts, env=None):
  """statements with every for loop expanded (reference side and read/write sets)"""
  env = env or {}
  out = []
  for st in stmts:
    if st[0] == "for":
      _, var, start, stop, step, body = st
      for v in range(start, stop, step):
        out += unroll(body, dict(env, **{var: v}))
    elif st[0] == "=":
      out.append(["=", concretize(st[1], env), subst_expr(st[2], env)] + list(st[3:]) if env else st)
    elif st[0] == "tmp":
      out.append(["tmp", st[1], subst_expr(st[2], env)] if env else st)
    else:
      out.append(["if", subst_expr(st[1], env) if env else st[1], unroll(st[2], env), unroll(st[3], env)])
  return out


def bits_ctor(w, v):
  return f"Bits{w}({v})" if w <= 255 else f"mk_bits({w})({v})"


BINOPS = {"add": "+", "sub": "-", "mul": "*", "and": "&", "or": "|", "xor": "^", "shl": "<<", "shr": ">>"}
CMPOPS = {"eq": "==", "ne": "!=", "lt": "<", "le": "<=", "gt": ">", "ge": ">="}


def expr_text(e):
  k = e[0]
  if k == "rd": return ref_text(e[1])
  if k == "c": return str(e[1]) if e[2] is None else bits_ctor(e[2], e[1])
  if k in ("fv", "tv", "lv"): return e[1]
  if k == "sc": return "s." + e[1]
  if k == "bin": return f"({expr_text(e[2])} {BINOPS[e[1]]} {expr_text(e[3])})"
  if k == "cmp": return f"({expr_text(e[2])} {CMPOPS[e[1]]} {expr_text(e[3])})"
  if k == "inv": return f"(~{expr_text(e[1])})"
  if k in ("zext", "sext", "trunc"):
    if len(e) > 3 and e[3] == "kw": return f"{k}(value={expr_text(e[1])}, new_width={e[2]})"        # keyword arguments
    return f"{k}({expr_text(e[1])}, {e[2]})"
  if k == "csl": return f"{expr_text(e[1])}[{e[2]}:{e[3]}]"
  if k == "vf": return f"{e[1]}({expr_text(e[2])})"
  if k == "vsl":
    it = expr_text(e[2])
    return f"{ref_text(e[1])}[{it}]" if e[4] == "bit" else f"{ref_text(e[1])}[{it}:{it}+{e[3]}]"
  if k == "cast": return f"Bits{e[2]}({expr_text(e[1])[1:-1] if expr_text(e[1]).startswith('(') and expr_text(e[1]).endswith(')') else expr_text(e[1])})"
  if k == "cat": return "concat(" + ", ".join(expr_text(x) for x in e[1]) + ")"
  if k == "ite": return f"({expr_text(e[2])} if {expr_text(e[1])} else {expr_text(e[3])})"
  if k == "red": return f"reduce_{e[1]}({expr_text(e[2])})"
  raise KeyError(k)


def ev(e, rd, env=None):
  """evaluate on ints; rd(ref)->int.  returns value (already reduced to its width; implicit consts exact)"""
  k = e[0]
  if k == "rd": return rd(e[1])
  if k == "c": return e[1]
  if k in ("fv", "sc"): return e[2]
  if k in ("tv", "lv"): return env[e[1]]
  if k == "bin":
    a, b = ev(e[2], rd, env), ev(e[3], rd, env)
    w = ewidth(e)
    op = e[1]
    if op == "add": r = a + b
    elif op == "sub": r = a - b
    elif op == "mul": r = a * b
    elif op == "and": r = a & b
    elif op == "or": r = a | b
    elif op == "xor": r = a ^ b
    elif op == "shl": r = (a << b) if b < w else 0
    else: r = (a >> b) if b < w else 0
    return r & mask(w)
  if k == "cmp":
    a, b = ev(e[2], rd, env), ev(e[3], rd, env)
    return int({"eq": a == b, "ne": a != b, "lt": a < b, "le": a <= b, "gt": a > b, "ge": a >= b}[e[1]])
  if k == "inv": return (~ev(e[1], rd, env)) & mask(ewidth(e))
  if k == "zext": return ev(e[1], rd, env)
  if k == "sext":
    a, w0 = ev(e[1], rd, env), ewidth(e[1])
    return (a - (1 << w0) if a >> (w0 - 1) else a) & mask(e[2])
  if k == "trunc": return ev(e[1], rd, env) & mask(e[2])
  if k == "csl": return (ev(e[1], rd, env) >> e[2]) & mask(e[3] - e[2])
  if k == "vsl": return (rd(e[1]) >> ev(e[2], rd, env)) & mask(e[3])
  if k == "vf": return ev(["bin", e[4], e[2], ["rd", e[3]]], rd, env)
  if k == "cast": return ev(e[1], rd, env) & mask(e[2])
  if k == "cat":
    r = 0
    for x in e[1]:
      r = (r << ewidth(x)) | ev(x, rd, env)
    return r
  if k == "ite": return ev(e[2], rd, env) if ev(e[1], rd, env) else ev(e[3], rd, env)
  if k == "red":
    a, w0 = ev(e[2], rd, env), ewidth(e[2])
    return int({"and": a == mask(w0), "or": a != 0, "xor": bin(a).count("1") & 1}[e[1]])
  raise KeyError(k)


# ---------------------------------------------------------------------------
# emitter
# ---------------------------------------------------------------------------

def type_text(t):
  if isinstance(t, int):
    return f"mk_bits({t})"
  if t[0] == "list":
    return f"[{type_text(t[2])}]*{t[1]}"
  return t[1]


def emit_stmts(stmts, ind, kind, out, op=None):
  op = op or ("@=" if kind == "comb" else "<<=")
  for st in stmts:
    if st[0] == "=":
      out.append(" " * ind + f"{ref_text(st[1])} {st[3] if len(st) > 3 else op} {expr_text(st[2])}")       # st[3]: this statement's own operator
    elif st[0] == "call":
      out.append(" " * ind + f"{st[1]}()")
    elif st[0] == "raw":
      out.append(" " * ind + st[1])
    elif st[0] == "tmp":
      names = st[1] if isinstance(st[1], list) else [st[1]]          # a list: chained assignment  a = b = expr
      out.append(" " * ind + " = ".join(names) + f" = {expr_text(st[2])}")
    elif st[0] == "for":
      rng_txt = f"range({st[3]})" if (st[2] == 0 and st[4] == 1) else f"range({st[2]}, {st[3]}, {st[4]})"
      out.append(" " * ind + f"for {st[1]} in {rng_txt}:")
      emit_stmts(st[5], ind + 2, kind, out, op)
    else:
      out.append(" " * ind + f"if {expr_text(st[1])}:")
      emit_stmts(st[2], ind + 2, kind, out, op)
      if st[3]:
        out.append(" " * ind + "else:")
        emit_stmts(st[3], ind + 2, kind, out, op)


def emit_connect(dst, src, style):
  d = ref_text(dst)
  sv = src.get("name", str(src["const"])) if "const" in src else ref_text(src)          # "name": a struct constant bound to a local
  if "const" in src and src.get("generic"): sv = f"Bits({dst['w']}, {src['const']})"       # an object of the base class Bits (what K[4:8] or K + 1 yield)
  if style == 0: return f"{d} //= {sv}"
  if style == 1 and "const" not in src: return f"{sv} //= {d}"
  if style == 2: return f"connect({d}, {sv})"
  return f"connect({sv}, {d})" if "const" not in src else f"connect({d}, {sv})"


def emit(design, connect_order=None, connect_style=None, block_order=None):
  """-> python source.  connect_order[cname] = permutation of connect indices; connect_style[cname][i] in 0..3"""
  L = ["from pymtl3 import *", ""]
  if design.get("shadow_globals"):
    # module-level names that coincide with block-local loop variables / closure constants (python scoping: local > closure > global)
    L += [f"{nm_} = {val}" for nm_, val in design["shadow_globals"]] + [""]
  kd = sorted(set(re.findall(r"KD\.D(\d+)", json.dumps(design["classes"]))), key=int)
  if kd:
    L += ["import enum", "class KD(enum.IntEnum):"] + [f"  D{n} = {n}" for n in kd] + [""]
  for tn, fields in design["types"].items():
    L += ["@bitstruct", f"class {tn}:"] + [f"  {fn}: {type_text(ft)}" for fn, ft in fields]
    dfl = design.get("type_defaults", {}).get(tn)
    if dfl:
      L.append("  def __init__(s, " + ", ".join(f"{fn}={dfl[fn]}" for fn, ft in fields) + "):")
      L += [f"    s.{fn} = {type_text(ft)}({fn})" for fn, ft in fields]
    L.append("")
  for cn in design["order"]:
    c = design["classes"][cn]
    L += [f"class {cn}({design.get('bases', {}).get(cn, 'Component')}):", "  def construct(s):"]
    for nb in sorted(set(re.findall(r"NB(\d+)", json.dumps(c["blocks"]))), key=int):
      L.append(f"    NB{nb} = {nb}")               # closure constants used in slice bounds ( s.x[NB9-5:NB9-1] )
    for nb in sorted(set(re.findall(r"s\.NBA(\d+)", json.dumps(c["blocks"]))), key=int):
      L.append(f"    s.NBA{nb} = {nb}")            # ... and constant attributes ( s.x[s.NBA2:s.NBA6] )
    for sg in c["signals"]:
      if sg["list"]:
        dims = [sg["list"]] if isinstance(sg["list"], int) else list(sg["list"])
        txt = f"{sg['kind']}({type_text(sg['type'])})"
        for n_ in reversed(dims):
          txt = f"[{txt} for _ in range({n_})]"
        L.append(f"    s.{sg['name']} = {txt}")
      else:
        L.append(f"    s.{sg['name']} = {sg['kind']}({type_text(sg['type'])})")
    for iname, ccn in c["children"]:
      L.append(f"    s.{iname} = {ccn}()")
    for fvn, fvv in sorted(c.get("freevars", {}).items()):
      L.append(f"    {fvn} = {fvv}")
    for sc in c.get("sconsts", []):
      L.append(f"    {sc['name']} = {sc['text']}")
    for sc in c.get("sattrs", []):
      L.append(f"    s.{sc['name']} = {sc['text']}")
    order = list(range(len(c["connects"])))
    if connect_order and cn in connect_order: order = connect_order[cn]
    for i in order:
      dst, src = c["connects"][i]
      style = connect_style[cn][i] if connect_style and cn in connect_style else 0
      L.append("    " + emit_connect(dst, src, style))
    blks = list(c["blocks"])
    if block_order and cn in block_order:
      blks = [blks[i] for i in block_order[cn]]
    # value-returning @s.func helpers with one argument, shared by every block that mentions the same (signal, operator)
    for fname, (op, r) in sorted(c.get("vfuncs", {}).items()):
      L.append("    @s.func")
      L.append(f"    def {fname}(x):")
      L.append(f"      return x {BINOPS[op]} {ref_text(r)}")
    # @s.func helpers (no arguments): their statements are inlined in block["stmts"]; only the emitted text calls them
    for fname, fn in sorted(c.get("funcs", {}).items()):
      L.append("    @s.func")
      L.append(f"    def {fname}():")
      body = []
      emit_stmts(fn["stmts"], 6, fn["kind"], body)
      L += body or ["      pass"]
    for b in blks:
      if b.get("lambda"):
        st = b["stmts"][0]
        L.append(f"    {ref_text(st[1])} //= lambda: {expr_text(st[2])}")
        continue
      L.append("    @update" if b["kind"] == "comb" else "    @update_ff")
      L.append(f"    def {b['name']}(){' -> None' if b.get('annot') else ''}:")          # annot: a return annotation on the block
      body = []
      emit_stmts(b.get("emit_stmts", b["stmts"]) if not b.get("op") else b["stmts"], 6, b["kind"], body, b.get("op"))
      L += body or ["      pass"]
    if c.get("constraints"):
      L.append("    s.add_constraints( " + ", ".join(c["constraints"]) + " )")
    if not c["signals"] and not c["children"]:
      L.append("    pass")
    L.append("")
  return "\n".join(L) + "\n"


_modcount = [0]


def load_source(src, tag="gen"):
  """exec generated source as a module whose lines are visible to inspect.getsource (linecache)"""
  _modcount[0] += 1
  name = f"verif_{tag}_{_modcount[0]}"
  fname = f"<{name}>"
  linecache.cache[fname] = (len(src), None, src.splitlines(True), fname)
  mod = types.ModuleType(name)
  mod.__file__ = fname
  sys.modules[name] = mod
  exec(compile(src, fname, "exec"), mod.__dict__)
  return mod


def unload(mod):
  sys.modules.pop(mod.__name__, None)
  linecache.cache.pop(mod.__file__, None)


# ---------------------------------------------------------------------------
# reference model
# ---------------------------------------------------------------------------

class Ref:
  def __init__(self, design):
    self.d = design
    self.sig = {}          # abs path -> (width, type, kind, host)
    self.inst = {}         # abs instance path -> cname
    self.blocks = []       # (host path, block)
    self.conn = []         # (host, dst_ref, src)
    self._inst("s", design["top"])
    # cells
    self.cell = {}
    n = 0
    for p, (w, t, k, h) in self.sig.items():
      self.cell[p] = list(range(n, n + w)); n += w
    self.parent = list(range(n))
    self.const = {}
    for host, dst, src in self.conn:
      dc = self.ref_cells(host, dst)
      if "const" in src:
        for i, c in enumerate(dc):
          self.const[c] = (src["const"] >> i) & 1
      else:
        sc = self.ref_cells(host, src)
        assert len(sc) == len(dc), (dst, src)
        for a, b in zip(dc, sc):
          self.union(a, b)
    self.const = {self.find(c): v for c, v in self.const.items()}
    self.bits = [0] * n
    for c, v in self.const.items():
      self.bits[c] = v
    self.comb = [(h, b) for h, b in self.blocks if b["kind"] == "comb"]
    self.ff = [(h, b) for h, b in self.blocks if b["kind"] == "ff"]
    self.rw = {}
    for h, b in self.blocks:
      rd, wr = stmt_reads_writes(b["stmts"], [], [])
      R = set(); W = set()
      for r in rd: R.update(self.find(c) for c in self.ref_cells(h, r))
      for r in wr: W.update(self.find(c) for c in self.ref_cells(h, r))
      self.rw[(h, b["name"])] = (R, W)

  def _inst(self, path, cname):
    c = self.d["classes"][cname]
    self.inst[path] = cname
    for nm, w in (("clk", 1), ("reset", 1)):
      self.sig[f"{path}.{nm}"] = (1, 1, "InPort", path)
    for sg in c["signals"]:
      w = twidth(self.d, sg["type"])
      if sg["list"]:
        for sfx in list_suffixes(sg["list"]):
          self.sig[f"{path}.{sg['name']}{sfx}"] = (w, sg["type"], sg["kind"], path)
      else:
        self.sig[f"{path}.{sg['name']}"] = (w, sg["type"], sg["kind"], path)
    for iname, ccn in c["children"]:
      self._inst(f"{path}.{iname}", ccn)
      for nm in ("clk", "reset"):
        self.conn.append((path, {"path": f"{iname}.{nm}", "steps": [], "lo": 0, "w": 1}, {"path": nm, "steps": [], "lo": 0, "w": 1}))
    for dst, src in c["connects"]:
      self.conn.append((path, dst, src))
    for b in c["blocks"]:
      self.blocks.append((path, b))

  def find(self, x):
    p = self.parent
    while p[x] != x:
      p[x] = p[p[x]]; x = p[x]
    return x

  def union(self, a, b):
    ra, rb = self.find(a), self.find(b)
    if ra != rb:
      self.parent[max(ra, rb)] = min(ra, rb)

  def ref_cells(self, host, r):
    cells = self.cell[f"{host}.{r['path']}"]
    return cells[r["lo"]:r["lo"] + r["w"]]

  # -- values ------------------------------------------------------------
  def read_cells(self, cells, bits=None):
    bits = self.bits if bits is None else bits
    v = 0
    f = self.find
    for i, c in enumerate(cells):
      v |= bits[f(c)] << i
    return v

  def write_cells(self, cells, v, sink=None):
    f = self.find
    ch = False
    for i, c in enumerate(cells):
      c = f(c)
      b = (v >> i) & 1
      if sink is not None:
        sink[c] = b
      elif self.bits[c] != b:
        self.bits[c] = b; ch = True
    return ch

  def get(self, path):
    return self.read_cells(self.cell[path])

  def set_input(self, path, v):
    self.write_cells(self.cell[path], v)

  def exec_stmts(self, host, stmts, bits, sink, env=None):
    ch = False
    if env is None:
      env = {}
      if any(st[0] == "for" for st in stmts):
        stmts = unroll(stmts)
    rd = lambda r: self.read_cells(self.ref_cells(host, r), bits)
    for st in stmts:
      if st[0] == "=":
        v = ev(st[2], rd, env) & mask(st[1]["w"])
        ch |= self.write_cells(self.ref_cells(host, st[1]), v, sink)
      elif st[0] == "tmp":
        v = ev(st[2], rd, env)                                       # evaluated ONCE, then bound to every target
        for nm in (st[1] if isinstance(st[1], list) else [st[1]]): env[nm] = v
      else:
        ch |= self.exec_stmts(host, st[2] if ev(st[1], rd, env) else st[3], bits, sink, env)
    return ch

  def settle(self, cap=300):
    """chaotic iteration of all comb blocks to the (unique) fixed point; returns rounds or None"""
    for it in range(cap):
      before = list(self.bits)
      for h, b in self.comb:
        self.exec_stmts(h, b["stmts"], self.bits, None)
      if before == self.bits:       # compare whole rounds: a block may overwrite its own default assignment
        return it + 1
    return None

  def tick(self):
    pre = list(self.bits)
    pend = {}
    for h, b in self.ff:
      self.exec_stmts(h, b["stmts"], pre, pend)
    for c, v in pend.items():
      self.bits[c] = v
    return self.settle()

  def snapshot(self):
    return {p: self.get(p) for p in self.sig}


# ---------------------------------------------------------------------------
# generator
# ---------------------------------------------------------------------------

DEFAULT_KNOBS = {"depth": 2, "max_children": 2, "p_struct": 0.25, "p_list": 0.15, "p_ff": 0.25, "p_connect": 0.3,
                 "p_split": 0.35, "p_if": 0.3, "expr_depth": 3, "widths": WIDTHS, "max_sigs": 4, "wide_ops": True,
                 "reset_ff": 0.5, "mul": True}


class Gen:
  def __init__(self, rng, knobs=None, design=None):
    self.rng = rng
    self.k = dict(DEFAULT_KNOBS)
    if knobs: self.k.update(knobs)
    self.design = design if design is not None else {"types": {}, "classes": {}, "order": [], "top": None}
    self.ncls = len(self.design["classes"])
    while f"C{self.ncls}" in self.design["classes"]: self.ncls += 1
    self.by_depth = {}

  # -- types -----------------------------------------------------------------
  def new_type(self):
    rng = self.rng
    d = self.design
    if d["types"] and rng.random() < 0.5:
      return ["struct", rng.choice(sorted(d["types"]))]
    names = rng.sample(["a", "b", "c", "d", "e"], rng.randrange(2, 5))
    fields = []
    for n in names:
      r = rng.random()
      ft = rng.choice(SMALLW)
      if r < self.k.get("p_nested_field", 0) and d["types"]:
        ft = ["struct", rng.choice(sorted(d["types"]))]          # an earlier (already emitted) struct type
      elif r < self.k.get("p_nested_field", 0) + self.k.get("p_list_field", 0):
        ft = rng.choice([1, 2, 4, 8, 16])
        for _ in range(rng.choice([1, 1, 2])):
          ft = ["list", rng.randrange(2, 4), ft]
      fields.append([n, ft])
    tn = f"T{len(d['types'])}"
    d["types"][tn] = fields
    while twidth(d, ["struct", tn]) > 400:        # keep packed values comfortably below the 1023-bit limit
      fields.pop()
      if not fields:
        fields.append(["a", 8])
    if rng.random() < self.k.get("p_struct_init", 0):
      # two Bits fields whose total width is one of the common plain widths (a struct net next to a Bits net of equal width)
      tot = rng.choice([2, 4, 8, 16])
      a = rng.randrange(1, tot)
      fields[:] = [[names[0], a], [names[1], tot - a]]
    if all(isinstance(ft, int) for _, ft in fields) and self.k.get("p_struct_init", 0):
      # a user-written __init__ with NON-ZERO default field values (the generated one is then not added): the default value of
      # every signal of this type is non-zero
      d.setdefault("type_defaults", {})[tn] = {fn: (rng.getrandbits(ft) or 1) for fn, ft in fields}
    return ["struct", tn]

  def sig_type(self):
    rng = self.rng
    if rng.random() < self.k["p_struct"]:
      return self.new_type()
    return rng.choice(self.k["widths"])

  # -- objects derived from a root signal --------------------------------------
  def root_ref(self, path, t):
    return {"path": path, "steps": [], "lo": 0, "w": twidth(self.design, t)}

  def parts_of(self, path, t, nparts_hint):
    """split a root signal into disjoint target parts"""
    rng = self.rng
    w = twidth(self.design, t)
    if not isinstance(t, int) and not self.k.get("struct_split", True):
      return [self.root_ref(path, t)]
    if not isinstance(t, int):
      # partition into sub-objects: a top-level field as a whole (Bits or nested struct), or - for list fields and with some
      # probability for nested structs - its Bits leaves
      out = []
      subs = subobjects(self.design, t)
      def leaves_under(prefix):
        return [(st, lo, ft) for st, lo, ft in subs if st[:len(prefix)] == prefix and isinstance(ft, int)]
      for fn, ft in self.design["types"][t[1]]:
        st0 = [["f", fn]]
        lo0 = next(lo for st, lo, _ in subs if st == st0)
        if isinstance(ft, int):
          out.append({"path": path, "steps": st0, "lo": lo0, "w": ft})
        elif ft[0] == "struct" and rng.random() < 0.5:
          out.append({"path": path, "steps": st0, "lo": lo0, "w": twidth(self.design, ft), "pt": ft})   # nested struct as a whole
        else:
          for st, lo, lw in leaves_under(st0):
            out.append({"path": path, "steps": st, "lo": lo, "w": lw})
      return out
    if w < 2:
      return [self.root_ref(path, t)]
    cuts = sorted(rng.sample(range(1, w), min(nparts_hint - 1, w - 1)))
    out = []
    lo = 0
    for c in cuts + [w]:
      out.append({"path": path, "steps": [["s", lo, c]], "lo": lo, "w": c - lo}); lo = c
    return out

  def read_ref(self, path, t, want=None):
    """a readable object of root signal; if want is given try to produce exactly that width (else None)"""
    rng = self.rng
    w = twidth(self.design, t)
    cands = []
    if not isinstance(t, int):
      for st, lo, ft in subobjects(self.design, t):
        if not isinstance(ft, int):
          continue                      # only Bits-valued sub-objects are read in expressions
        fw = ft
        cands.append({"path": path, "steps": st, "lo": lo, "w": fw})
        if fw > 1:
          a = rng.randrange(fw); b = rng.randrange(a + 1, fw + 1)
          if want is not None and want <= fw: a = rng.randrange(fw - want + 1); b = a + want
          cands.append({"path": path, "steps": st + [["s", a, b]], "lo": lo + a, "w": b - a})
    else:
      cands.append(self.root_ref(path, t))
      if w > 1:
        a = rng.randrange(w); b = rng.randrange(a + 1, w + 1)
        if want is not None and want <= w: a = rng.randrange(w - want + 1); b = a + want
        cands.append({"path": path, "steps": [["s", a, b]], "lo": a, "w": b - a})
    if want is not None:
      cands = [c for c in cands if c["w"] == want]
      if not cands: return None
    return rng.choice(cands)

  # -- expressions ---------------------------------------------------------------
  def var_select(self, w, srcs):
    """x[ i : i+w ] (w == 1: possibly x[i]) of a whole Bits signal x with a data-dependent position i = (E & K); K keeps
    i+w inside x AND inside the index width (python computes the upper bound i+w in clog2(nbits) bits)"""
    rng = self.rng
    for (path, t) in srcs[:6]:
      if not isinstance(t, int) or t < w + 1 or t > 256: continue
      iw = (t - 1).bit_length()
      lim = min(t, (1 << iw) - 1) - w              # largest legal position
      if lim < 1: continue
      K = (1 << rng.randrange(1, lim.bit_length() + 1)) - 1
      while K > lim: K >>= 1
      self._in_vsl = True
      try: E = self._explicit(iw, list(srcs), 1)
      finally: self._in_vsl = False
      if E[0] == "c" or not expr_refs(E, []): continue          # a constant position is an ordinary slice
      idx = ["bin", "and", E, ["c", K, None]]
      form = "bit" if (w == 1 and rng.random() < 0.6) else "ps"
      return ["vsl", self.root_ref(path, t), idx, w, form]
    return None

  def const_expr(self, w, depth=2):
    """an expression over EXPLICITLY sized constants only ( (~Bits8(1)) >> 1, Bits8(200) + Bits8(100) ): folded by the type checker,
    computed on Bits objects (wrapping at w bits) by the simulator"""
    rng = self.rng
    if depth <= 0 or rng.random() < 0.3:
      return ["c", rng.choice([0, 1, mask(w), 1 << (w - 1), rng.getrandbits(w)]), w]
    r = rng.random()
    if r < 0.3: return ["inv", self.const_expr(w, depth - 1)]
    if r < 0.5: return ["bin", rng.choice(["shl", "shr"]), self.const_expr(w, depth - 1), ["c", rng.randrange(0, min(w, 4) + 1), None]]
    return ["bin", rng.choice(["add", "sub", "and", "or", "xor"]), self.const_expr(w, depth - 1), self.const_expr(w, depth - 1)]

  def leaf(self, w, srcs):
    rng = self.rng
    rng.shuffle(srcs)
    if self.k.get("p_const_expr") and not self.k.get("avoid_const_ops") and w <= 64 and rng.random() < self.k["p_const_expr"]:
      if w >= 2 and rng.random() < 0.4:
        # a right shift of an inverted / negated constant: the bits shifted in are zeros at the constant's own width
        return ["bin", "shr", ["inv", ["c", rng.getrandbits(w) & (mask(w) >> 1), w]], ["c", rng.randrange(1, min(w, 5)), None]]
      return self.const_expr(w)
    if self.k.get("p_vsl") and not getattr(self, "_in_vsl", False) and rng.random() < self.k["p_vsl"]:
      e = self.var_select(w, srcs)
      if e is not None: return e
    for (path, t) in srcs[:6]:
      r = self.read_ref(path, t, want=w)
      if r is not None:
        return ["rd", r]
    if self.k.get("no_adapt"):
      return ["c", rng.getrandbits(w), w]
    # adapt another width
    for (path, t) in srcs[:6]:
      r = self.read_ref(path, t)
      if r["w"] < w:
        return [rng.choice(["zext", "sext"]), ["rd", r], w]
      if r["w"] > w:
        return ["trunc", ["rd", r], w]
    return ["c", rng.getrandbits(w), w]

  def const(self, w, implicit_ok=True):
    rng = self.rng
    v = rng.choice([0, 1, mask(w), mask(w) >> 1, 1 << (w - 1), rng.getrandbits(w)])
    if implicit_ok and rng.random() < self.k.get("p_freevar", 0) and w <= 32 and getattr(self, "cur_cls", None) is not None:
      fvs = self.cur_cls.setdefault("freevars", {})
      name = f"K{len(fvs)}"
      fvs[name] = v
      return ["fv", name, v]
    if implicit_ok and rng.random() < 0.6:
      return ["c", v, None]
    return ["c", v, w]

  def expr(self, w, srcs, depth):
    e = self._expr(w, srcs, depth)
    if self.k.get("avoid_const_ops") and e[0] != "c" and not expr_refs(e, []):
      # a composite expression made of constants only: RTLIR folds it to a minimal-width constant and then rejects
      # the block (outside what the translation properties quantify over) -> use a plain leaf instead
      return self.leaf(w, srcs) if srcs else ["c", ev(e, None) & mask(w), w]
    return e

  def _expr(self, w, srcs, depth):
    rng = self.rng
    if depth <= 0 or not srcs or rng.random() < 0.25:
      return self.leaf(w, srcs) if srcs and rng.random() < 0.85 else self.const(w, implicit_ok=False)
    r = rng.random()
    if r < 0.45:
      ops = ["add", "sub", "and", "or", "xor"] + (["mul"] if self.k["mul"] and w <= 64 else [])
      op = rng.choice(ops)
      a = self.expr(w, srcs, depth - 1)
      b = self.const(w) if rng.random() < 0.3 else self.expr(w, srcs, depth - 1)
      if rng.random() < 0.3 and b[0] != "c": a, b = b, a
      if ewidth(a) is None and ewidth(b) is None: a = self.leaf(w, srcs)
      if may_be_int(a) and may_be_int(b): a = make_explicit(a, w)
      node = ["bin", op, a, b]
      if self.k.get("p_cast") and w <= 64 and ewidth(a) == w and ewidth(b) == w and rng.random() < self.k["p_cast"]:
        node = ["cast", node, w]           # BitsW( a op b ): a no-op cast whose operand is a compound expression
      return node
    if r < 0.55:
      op = rng.choice(["shl", "shr"])
      a = self.expr(w, srcs, depth - 1)
      if ewidth(a) is None: a = self.leaf(w, srcs)
      a = make_explicit(a, w)
      amt = ["c", rng.choice([0, 1, w - 1, w, rng.randrange(0, w + 2)]) & mask(w), None] if rng.random() < 0.6 else self.expr(w, srcs, depth - 2)
      if amt[0] != "c": amt = make_explicit(amt, w)
      if ewidth(amt) is None and amt[1] > mask(w): amt = ["c", amt[1] & mask(w), None]
      return ["bin", op, a, amt]
    if r < 0.62:
      a = self.expr(w, srcs, depth - 1)
      if ewidth(a) is None: a = self.leaf(w, srcs)
      return ["inv", make_explicit(a, w)]
    if r < 0.72 and w > 1:
      k = rng.randrange(1, w)
      return ["cat", [self.expr(w - k, srcs, depth - 1) if False else self._explicit(w - k, srcs, depth - 1),
                      self._explicit(k, srcs, depth - 1)]]
    if r < 0.82:
      c = self.cond(srcs, depth - 1)
      a, b = self._explicit(w, srcs, depth - 1), self._explicit(w, srcs, depth - 1)
      if self.k.get("p_ite_const") and rng.random() < self.k["p_ite_const"]:
        # literal branches (possibly both, possibly of different implicit sizes)
        r2 = rng.random()
        if r2 < 0.4: a, b = self.const(w), self.const(w)
        elif r2 < 0.7: a = self.const(w)
        else: b = self.const(w)
      return ["ite", c, a, b]
    if r < 0.9:
      w0 = rng.choice([x for x in self.k["widths"] if x != w] or [w + 1])
      a = self._explicit(w0, srcs, depth - 1)
      node = [rng.choice(["zext", "sext"]), a, w] if w0 < w else ["trunc", a, w]
      cs = self.k.get("p_callshapes", 0)
      if cs and rng.random() < cs: node = node + ["kw"]
      elif cs and rng.random() < cs and w < 200:
        # the same value as a slice of a (wider) call result: sext( a, w + x )[lo:lo+w] / concat( .., a, .. )[..]
        if rng.random() < 0.5:
          ext = rng.randrange(1, 9); inner = self._explicit(w, srcs, depth - 1)
          node = ["csl", [rng.choice(["zext", "sext"]), inner, w + ext], 0, w]
        else:
          k2 = rng.randrange(1, 9)
          node = ["csl", ["cat", [self._explicit(k2, srcs, depth - 1), self._explicit(w, srcs, depth - 1)]], 0, w]
      return node
    if w == 1:
      return self.cond(srcs, depth - 1)
    return self.leaf(w, srcs)

  def _explicit(self, w, srcs, depth):
    e = self.expr(w, srcs, depth)
    if may_be_int(e):
      return make_explicit(e, w)
    return e

  def cond(self, srcs, depth):
    e = self._cond(srcs, depth)
    if self.k.get("avoid_const_ops") and not expr_refs(e, []):
      return self.leaf(1, srcs) if srcs else ["c", ev(e, None) & 1, 1]
    return e

  def _cond(self, srcs, depth):
    rng = self.rng
    r = rng.random()
    w = rng.choice(SMALLW + [32])
    if r < 0.6:
      a = self._explicit(w, srcs, depth - 1)
      b = self.const(w) if rng.random() < 0.4 else self._explicit(w, srcs, depth - 1)
      return ["cmp", rng.choice(list(CMPOPS)), a, b]
    if r < 0.8:
      return ["red", rng.choice(["and", "or", "xor"]), self._explicit(w, srcs, depth - 1)]
    return self.leaf(1, srcs)

  # -- class -------------------------------------------------------------------
  def gen_class(self, depth, is_top=False, fixed_ports=None):
    rng, k, d = self.rng, self.k, self.design
    while f"C{self.ncls}" in d["classes"]: self.ncls += 1
    cname = f"C{self.ncls}"; self.ncls += 1
    cls = {"name": cname, "signals": [], "children": [], "connects": [], "blocks": []}
    outer_cls = getattr(self, "cur_cls", None)
    # children first (their classes must be emitted before)
    if depth > 0:
      for i in range(rng.randrange(0, k["max_children"] + 1)):
        pool = self.by_depth.get(depth - 1, [])
        if pool and rng.random() < 0.5:
          ccn = rng.choice(pool)
        else:
          ccn = self.gen_class(rng.randrange(0, depth), False)
        cls["children"].append([f"c{i}", ccn])
    self.cur_cls = cls
    # signals
    nid = [0]
    def mk(kind, prefix):
      t = self.sig_type()
      if kind == "Wire" and not isinstance(t, int) and not k.get("struct_wires", True):
        t = twidth(d, t)
      lst = rng.randrange(2, 4) if (rng.random() < k["p_list"] and (isinstance(t, int) or (k.get("p_list_struct") and rng.random() < k["p_list_struct"]))) else None
      if lst and k.get("p_list2d") and rng.random() < k["p_list2d"]:
        lst = [rng.randrange(1, 4), rng.randrange(2, 4)] if rng.random() < 0.8 else [2, rng.randrange(1, 3), 2]      # non-square / 3-D
      sg = {"name": f"{prefix}{nid[0]}", "kind": kind, "type": t, "list": lst}; nid[0] += 1
      cls["signals"].append(sg)
      return sg
    if fixed_ports is not None:
      # same interface as another class (C15: replacement components)
      ins = [dict(sg) for sg in fixed_ports if sg["kind"] == "InPort"]
      outs = [dict(sg) for sg in fixed_ports if sg["kind"] == "OutPort"]
      cls["signals"] += ins + outs
      nid[0] = 100
    else:
      ins = [mk("InPort", "in_") for _ in range(rng.randrange(1, k["max_sigs"]))]
      outs = [mk("OutPort", "out_") for _ in range(rng.randrange(1, k["max_sigs"]))]
    wires = [mk("Wire", "w_") for _ in range(rng.randrange(0, k["max_sigs"] + 1))]

    def roots(sg):
      if sg["list"]:
        return [(f"{sg['name']}{sfx}", sg["type"]) for sfx in list_suffixes(sg["list"])]
      return [(sg["name"], sg["type"])]

    # entities in rank order
    ents = [("own", sg) for sg in outs + wires] + [("inst", ch) for ch in cls["children"]]
    rng.shuffle(ents)
    avail = []                      # readable roots with rank < current
    for sg in ins:
      avail += roots(sg)
    regs = []                       # registers: readable from anywhere
    # decide registers up-front so that earlier ranks may read them
    reg_names = set()
    for kind, sg in ents:
      if kind == "own" and not sg["list"] and rng.random() < k["p_ff"]:
        reg_names.add(sg["name"]); regs += roots(sg)
    comb_targets = []               # (rank, part_ref, srcs_snapshot)
    self.connect_ranks = set()
    ff_targets = []
    rank = 0
    breaks = set()                  # ranks at which a comb block chunk must break (instances)
    for kind, x in ents:
      rank += 1
      if kind == "own":
        sg = x
        if sg["name"] in reg_names:
          ff_targets.append((self.root_ref(sg["name"], sg["type"]), sg["type"]))
          continue
        if sg["list"] and isinstance(sg["list"], int) and isinstance(sg["type"], int) and rng.random() < k.get("p_for", 0):
          comb_targets.append((rank, {"forblock": self.for_block(sg, avail + regs)}, []))
          avail = avail + roots(sg)
          continue
        for (path, t) in roots(sg):
          parts = self.parts_of(path, t, rng.randrange(2, 4)) if rng.random() < k["p_split"] else [self.root_ref(path, t)]
          for p in parts:
            self.drive(cls, p, avail + regs, comb_targets, rank, whole=(len(parts) == 1), t=t, child=False)
        avail = avail + roots(sg)
      else:
        iname, ccn = x
        cc = d["classes"][ccn]
        breaks.add(rank)
        for sg in cc["signals"]:
          if sg["kind"] != "InPort": continue
          for (path, t) in roots(sg):
            path = f"{iname}.{path}"
            if k.get("p_ff_child") and rng.random() < k["p_ff_child"]:
              # the parent registers the child's input: an update_ff block of the parent writes the child's InPort
              ff_targets.append((self.root_ref(path, t), t)); continue
            parts = self.parts_of(path, t, 2) if rng.random() < k["p_split"] * 0.6 else [self.root_ref(path, t)]
            for p in parts:
              self.drive(cls, p, avail + regs, comb_targets, rank - 0.5, whole=(len(parts) == 1), t=t, child=True)
        for sg in cc["signals"]:
          if sg["kind"] == "OutPort":
            avail = avail + [(f"{iname}.{p}", t) for p, t in roots(sg)]
    # comb blocks: contiguous chunks in rank order, never spanning an instance rank
    comb_targets.sort(key=lambda x: x[0])
    blocks = []
    cur = []
    cmin = None
    for (rk, p, srcs) in comb_targets:
      new = not cur or rng.random() < 0.45
      if not new and ("forblock" in p or "forblock" in cur[-1][0]):
        # a for loop normally has its block to itself; p_for_mixed lets it share one with plain statements and temporaries
        new = not (k.get("p_for_mixed") and rng.random() < k["p_for_mixed"])
      # a chunk must not span an instance (its inputs sit at rank-0.5, its outputs are read above rank) nor a
      # connect-driven part (its net block sits between the writers below and the readers above its rank)
      if cur and (any(cmin < b <= rk for b in breaks) or any(cmin < c < rk for c in self.connect_ranks)):
        new = True
      if new and cur:
        blocks.append(cur); cur = []
      if not cur: cmin = rk
      cur.append((p, srcs))
    if cur: blocks.append(cur)
    if comb_targets and rng.random() < k.get("falseloop", 0):
      # FALSE LOOPS (C11): group targets regardless of rank -> block graph cyclic, bit-level dataflow still acyclic;
      # inside a block statements stay in rank order
      ng = rng.randrange(1, max(2, len(comb_targets) // 2 + 1))
      groups = [[] for _ in range(ng)]
      for (rk, p, srcs) in comb_targets:
        groups[rng.randrange(ng)].append((p, srcs))
      blocks = [g for g in groups if g]
    # p_digit_names: block names that end in digits and have no separator ("u", "u1", "u12", ...), so that generated code which
    # glues a name and a schedule index together can confuse two blocks
    dpool = None
    if k.get("p_digit_names") and rng.random() < k["p_digit_names"]:
      dpool = ["", "1", "2", "3", "11", "12", "13", "21", "22", "23", "31", "111", "112", "121", "211", "1_", "2_"]
      rng.shuffle(dpool)
      self.design.setdefault("stats", {}).setdefault("classes_with_digit_block_names", 0); self.design["stats"]["classes_with_digit_block_names"] += 1
    def bname(kind, bi):
      if dpool: return "u" + dpool.pop()
      return f"up_{bi}" if kind == "comb" else f"ff_{bi}"
    comb_names = {}
    for bi, tg in enumerate(blocks):
      stmts = []
      ntmp = 0
      for (p, srcs) in tg:
        if "forblock" in p:
          fb = p["forblock"]
          stmts += fb[1] if fb[0] == "seq" else [fb]
          continue
        loopn = [q["forblock"] for (q, _) in tg if "forblock" in q] if k.get("p_tmp_loopname") else []
        if srcs and rng.random() < (0.85 if loopn else k.get("p_tmp", 0)):
          # block-local temporary: t = <explicit expr>; target @= f(t)
          tw = rng.choice(SMALLW + [p["w"]])
          if loopn and rng.random() < 0.6:
            # beside a for loop the temporary may end up sharing the loop index's name: give it the width of an index, too
            fl = [st for st in (loopn[0][1] if loopn[0][0] == "seq" else [loopn[0]]) if st[0] == "for"][0]
            tw = max(1, (max(fl[2], fl[3]) ).bit_length())
          tn = f"t{bi}_{ntmp}"; ntmp += 1
          tv2 = None
          if rng.random() < k.get("p_tmp_chain", 0):
            # chained assignment to two temporaries:  a = b = expr  (expr evaluated once)
            tn2 = f"t{bi}_{ntmp}"; ntmp += 1
            shape = rng.randrange(3)
            if shape == 0:
              stmts.append(["tmp", [tn, tn2], self._explicit(tw, list(srcs), 2)])
            elif shape == 1:
              # ... as the ONLY statement of an else branch (the if branch gives the two temporaries DIFFERENT values, so a
              # second assignment that escapes the else branch is visible)
              stmts.append(["if", self.cond(list(srcs), 1),
                            [["tmp", tn, self._explicit(tw, list(srcs), 1)], ["tmp", tn2, self._explicit(tw, list(srcs), 1)]],
                            [["tmp", [tn, tn2] if rng.random() < 0.5 else [tn2, tn], self._explicit(tw, list(srcs), 1)]]])
            else:
              # ... whose right-hand side reads one of its own targets
              stmts.append(["tmp", tn2, self._explicit(tw, list(srcs), 1)])
              first = [tn, tn2] if rng.random() < 0.5 else [tn2, tn]
              stmts.append(["tmp", first, ["bin", rng.choice(["add", "xor", "sub"]), ["tv", tn2, tw], self._explicit(tw, list(srcs), 1)]])
            tv2 = ["tv", tn2, tw]
          else:
            stmts.append(["tmp", tn, self._explicit(tw, list(srcs), 2)])
          tv = ["tv", tn, tw]
          if tw == p["w"]: core = tv
          elif tw < p["w"]: core = [rng.choice(["zext", "sext"]), tv, p["w"]]
          else: core = ["trunc", tv, p["w"]]
          if tv2 is not None:
            # both temporaries are used:  f(a) op g(b)
            c2 = tv2 if tw == p["w"] else ([rng.choice(["zext", "sext"]), tv2, p["w"]] if tw < p["w"] else ["trunc", tv2, p["w"]])
            e2 = ["bin", rng.choice(["add", "xor", "sub"]), core, ["bin", "xor", c2, self._explicit(p["w"], list(srcs), 0)]]
          else:
            e2 = core if rng.random() < 0.4 else ["bin", rng.choice(["add", "xor", "and", "or", "sub"]), core, self._explicit(p["w"], list(srcs), 1)]
          stmts.append(["=", p, e2])
        else:
          stmts += self.assign_stmts(p, srcs, "comb")
      if k.get("p_tmp_loopname") and rng.random() < k["p_tmp_loopname"]:
        stmts = self.share_loop_name(stmts)
      blk = {"name": bname("comb", bi), "kind": "comb", "stmts": stmts}
      comb_names[bi] = blk["name"]
      def lambda_target(r):
        # a whole signal / list element, or (p_lambda_part) ONE field, bit or slice of it:  s.out[0:4] //= lambda: ...
        if "." in r["path"] or r.get("sym"): return False
        if not r["steps"]: return True
        return bool(k.get("p_lambda_part")) and len(r["steps"]) == 1 and (r["steps"][0][0] in ("f", "i") or (r["steps"][0][0] == "s" and len(r["steps"][0]) == 3))
      if len(stmts) == 1 and stmts[0][0] == "=" and len(stmts[0]) == 3 and lambda_target(stmts[0][1]) \
         and expr_refs(stmts[0][2], []) and rng.random() < (k.get("p_lambda", 0) if not stmts[0][1]["steps"] else k["p_lambda_part"]):
        blk["lambda"] = True
        blk["name"] = "_lambda__" + ref_text(stmts[0][1]).replace(".", "_").replace("[", "_").replace("]", "_").replace(":", "_")
        if stmts[0][1]["steps"]: self.design.setdefault("stats", {}).setdefault("lambda_on_part_of_signal", 0); self.design["stats"]["lambda_on_part_of_signal"] += 1
      if k.get("p_annot") and rng.random() < k["p_annot"]: blk["annot"] = True
      cls["blocks"].append(blk)
    # ff blocks
    rng.shuffle(ff_targets)
    i = 0
    bi = 0
    allsrc = avail + regs
    while i < len(ff_targets):
      n = rng.randrange(1, 3)
      stmts = []
      for (p, t) in ff_targets[i:i + n]:
        body = self.assign_stmts(p, allsrc, "ff", t=t)
        if rng.random() < k["reset_ff"]:
          rv = ["c", rng.choice([0, 1, mask(p["w"])]) & mask(p["w"]), None] if isinstance(t, int) else None
          if rv is not None and k.get("neg_reset") and rng.random() < 0.3:
            rv = ["c", rng.choice([-1, -(1 << (p["w"] - 1))]), None]          # s.r <<= -1: the accepted negative ints (all ones / only the top bit)
            self.design.setdefault("stats", {}).setdefault("registers_reset_to_a_negative_int", 0); self.design["stats"]["registers_reset_to_a_negative_int"] += 1
          if rv is not None:
            body = [["if", ["rd", {"path": "reset", "steps": [], "lo": 0, "w": 1}], [["=", p, rv]], body]]
        stmts += body
      cls["blocks"].append({"name": bname("ff", bi), "kind": "ff", "stmts": stmts}); bi += 1
      if k.get("p_annot") and rng.random() < k["p_annot"]: cls["blocks"][-1]["annot"] = True
      i += n
    # explicit constraints consistent with the dataflow order (comb blocks are numbered in rank order)
    cls["constraints"] = []
    ncomb = len(blocks)
    if ncomb >= 2 and rng.random() < k.get("p_constraints", 0):
      for _ in range(rng.randrange(1, 4)):
        i = rng.randrange(ncomb - 1); j = rng.randrange(i + 1, ncomb)
        whole = [p for (p, _) in blocks[i] if not p["steps"] and "." not in p["path"]]
        kind = rng.randrange(3)
        if kind == 0 or not whole:
          cls["constraints"].append(f"U({comb_names[i]}) < U({comb_names[j]})")
        elif kind == 1:
          cls["constraints"].append(f"WR({ref_text(rng.choice(whole))}) < U({comb_names[j]})")
        else:
          cls["constraints"].append(f"RD({ref_text(rng.choice(whole))}) > U({comb_names[i]})")
    cls["constraints"] = sorted(set(cls["constraints"]))
    if k.get("p_nested_slice"):
      # slices of slices in connect statements:  s.x[A:B]  ->  s.x[a:b][A-a:B-a]  (same bits)
      for con in cls["connects"]:
        for r in con:
          if "const" in r or not r.get("steps") or r["steps"][-1][0] != "s" or r.get("sym") or rng.random() >= k["p_nested_slice"]: continue
          if len(r["steps"]) >= 2 and r["steps"][-2][0] == "s": continue
          W = ref_type(d, cls, r)
          if not isinstance(W, int): continue
          A, B = r["steps"][-1][1], r["steps"][-1][2]
          a = A if rng.random() < 0.5 else rng.randrange(0, A + 1)
          b = rng.randrange(B, W + 1)
          if (a, b) == (A, B) and rng.random() < 0.7: continue
          r["steps"] = r["steps"][:-1] + [["s", a, b], ["s", A - a, B - a]]
    if k.get("p_omit_bounds"):
      # s.x[0:8] -> s.x[:8],  s.x[8:W] -> s.x[8:]  in connect statements (same bits)
      for con in cls["connects"]:
        for r in con:
          if "const" in r or not r.get("steps") or r["steps"][-1][0] != "s" or len(r["steps"][-1]) != 3 or r.get("sym") or rng.random() >= k["p_omit_bounds"]: continue
          st = r["steps"][-1]
          if len(r["steps"]) >= 2 and r["steps"][-2][0] == "s":
            W = r["steps"][-2][2] - r["steps"][-2][1]
          else:
            W = ref_type(d, cls, r)
          if not isinstance(W, int): continue
          if st[1] == 0 and st[2] < W: r["steps"] = r["steps"][:-1] + [st + [None, "lo"]]
          elif st[2] == W and st[1] > 0: r["steps"] = r["steps"][:-1] + [st + [None, "hi"]]
    if k.get("p_expr_bounds_blk"):
      # bounds of slices inside update blocks written as constant expressions of a closure variable:  s.x[NB9-5:NB9-1]
      def walk2(o):
        if isinstance(o, dict):
          if o.get("steps") and o["steps"][-1][0] == "s" and len(o["steps"][-1]) == 3 and not o.get("sym") \
             and not (len(o["steps"]) >= 2 and o["steps"][-2][0] == "s") and rng.random() < k["p_expr_bounds_blk"]:
            st = o["steps"][-1]
            nb = st[2] + rng.randrange(0, 4)
            lo = f"NB{nb}-{nb - st[1]}" if rng.random() < 0.5 else str(st[1])
            hi = f"NB{nb}-{nb - st[2]}" if nb > st[2] else f"NB{nb}+0"
            if k.get("p_attr_bounds") and rng.random() < k["p_attr_bounds"]:
              # ... or as constant ATTRIBUTES of the component ( s.x[s.NBA2:s.NBA6] )
              lo = f"s.NBA{st[1]}" if rng.random() < 0.6 else str(st[1]); hi = f"s.NBA{st[2]}"
              if rng.random() < 0.5:
                # ... or as members of a module-level IntEnum, reached through a dotted name ( s.x[KD.D2:KD.D6] )
                lo = lo.replace("s.NBA", "KD.D"); hi = hi.replace("s.NBA", "KD.D")
                self.design.setdefault("stats", {}).setdefault("dotted_name_bounds_in_blocks", 0); self.design["stats"]["dotted_name_bounds_in_blocks"] += 1
              self.design.setdefault("stats", {}).setdefault("attribute_bounds_in_blocks", 0); self.design["stats"]["attribute_bounds_in_blocks"] += 1
            o["steps"] = o["steps"][:-1] + [st + [None, ["ex", lo, hi]]]
            self.design.setdefault("stats", {}).setdefault("expression_bounds_in_blocks", 0); self.design["stats"]["expression_bounds_in_blocks"] += 1
          for v in o.values(): walk2(v)
        elif isinstance(o, list):
          for v in o: walk2(v)
      for b in cls["blocks"]:
        if not b.get("lambda"): walk2(b["stmts"])
    if k.get("p_omit_bounds_blk"):
      # ... and inside update blocks, for targets and operands alike:  s.x[:8] @= s.y[4:] + 1
      def walk(o):
        if isinstance(o, dict):
          if o.get("steps") and o["steps"][-1][0] == "s" and len(o["steps"][-1]) == 3 and not o.get("sym") \
             and not (len(o["steps"]) >= 2 and o["steps"][-2][0] == "s") and rng.random() < k["p_omit_bounds_blk"]:
            st = o["steps"][-1]
            W = ref_type(d, cls, o)
            if isinstance(W, int):
              if st[1] == 0 and st[2] < W: o["steps"] = o["steps"][:-1] + [st + [None, "lo"]]; self.design.setdefault("stats", {}).setdefault("omitted_bounds_in_blocks", 0); self.design["stats"]["omitted_bounds_in_blocks"] += 1
              elif st[2] == W and st[1] > 0: o["steps"] = o["steps"][:-1] + [st + [None, "hi"]]; self.design.setdefault("stats", {}).setdefault("omitted_bounds_in_blocks", 0); self.design["stats"]["omitted_bounds_in_blocks"] += 1
          for v in o.values(): walk(v)
        elif isinstance(o, list):
          for v in o: walk(v)
      for b in cls["blocks"]:
        if not b.get("lambda"): walk(b["stmts"])
    if k.get("p_vfunc") and rng.random() < k["p_vfunc"]:
      self.add_vfuncs(cls)
    if k.get("p_func"):
      self.add_funcs(cls)
    self.cur_cls = outer_cls
    d["classes"][cname] = cls
    d["order"].append(cname)
    self.by_depth.setdefault(depth, []).append(cname)
    return cname

  def add_vfuncs(self, cls):
    """reads of some signals go through a value-returning helper  vf(x): return x OP s.sig  - ONE helper per signal, called
    from every block that reads it (s.sig  ->  vf(0);  a OP s.sig  ->  vf(a)); values are unchanged"""
    rng = self.rng
    occ = {}
    def note(bi):
      def f(n):
        if n[0] == "rd" and not n[1].get("sym") and n[1]["w"] <= 64 and ref_is_bits(self.design, cls, n[1]):
          occ.setdefault(json.dumps(n[1], sort_keys=True), set()).add(bi)
        return n
      return f
    blks = [b for b in cls["blocks"] if not b.get("lambda") and not b.get("op")]
    for bi, b in enumerate(blks): map_stmts(b["stmts"], note(bi))
    shared = [key for key, bs in sorted(occ.items()) if len(bs) >= 2] or sorted(occ)
    if not shared: return
    rng.shuffle(shared)
    vfuncs = cls.setdefault("vfuncs", {})
    chosen = {}
    for key in shared[:rng.randrange(1, 3)]:
      name = f"vf{len(vfuncs)}"
      op = rng.choice(["xor", "or", "add"])
      vfuncs[name] = (op, json.loads(key)); chosen[key] = (name, op)
    def conv(n):
      if n[0] == "bin" and n[3][0] == "rd" and ewidth(n[2]) == n[3][1]["w"] and not may_be_int(n[2]):
        c = chosen.get(json.dumps(n[3][1], sort_keys=True))
        if c and c[1] == n[1]: return ["vf", c[0], n[2], n[3][1], c[1]]
      if n[0] == "rd":
        c = chosen.get(json.dumps(n[1], sort_keys=True))
        if c and rng.random() < 0.8: return ["vf", c[0], ["c", 0, n[1]["w"]], n[1], c[1]]
      return n
    for b in blks:
      b["stmts"] = map_stmts(b["stmts"], conv)

  def add_funcs(self, cls):
    """move runs of plain statements of some blocks into argument-less @s.func helpers (possibly nested two deep); the
    block keeps the inlined statements in "stmts" (reference, analyses) and gets "emit_stmts" with the calls"""
    rng, k = self.rng, self.k
    def local_free(e):
      return not any("tmp" in r for r in expr_refs(e, [])) and "lv" not in json.dumps(e) and '"sym"' not in json.dumps(e)
    def simple(st):
      if st[0] == "=": return local_free(st[2]) and not st[1].get("sym")
      if st[0] == "if": return local_free(st[1]) and all(simple(x) for x in st[2]) and all(simple(x) for x in st[3])
      return False
    funcs = cls.setdefault("funcs", {})
    for b in cls["blocks"]:
      if b.get("lambda") or not b["stmts"] or rng.random() >= k["p_func"]: continue
      st = b["stmts"]
      runs = [i for i in range(len(st)) if simple(st[i])]
      if not runs: continue
      i0 = rng.choice(runs); i1 = i0
      while i1 + 1 < len(st) and simple(st[i1 + 1]) and rng.random() < 0.6: i1 += 1
      moved = st[i0:i1 + 1]
      fn = f"fn_{b['name']}"
      body = list(moved)
      if len(moved) >= 2 and rng.random() < 0.5:
        # nest: the tail goes into a second helper called by the first
        cut = rng.randrange(1, len(moved))
        funcs[fn + "_in"] = {"stmts": moved[cut:], "kind": b["kind"]}
        body = moved[:cut] + [["call", fn + "_in"]]
      elif rng.random() < 0.3:
        # a pure pass-through helper in between: up -> fn -> fn_in (all statements in the inner one)
        funcs[fn + "_in"] = {"stmts": moved, "kind": b["kind"]}
        body = [["call", fn + "_in"]]
      funcs[fn] = {"stmts": body, "kind": b["kind"]}
      b["emit_stmts"] = st[:i0] + [["call", fn]] + st[i1 + 1:]
      if i0 == 0 and i1 == len(st) - 1:
        # keep a mention of `s` in the block itself (the monitors find the host component through the block's closure)
        b["emit_stmts"] = [["raw", "s.reset"]] + b["emit_stmts"]
    if not funcs: cls.pop("funcs", None)

  def share_loop_name(self, stmts):
    """legal python: a block-local temporary and the index of a LATER (or earlier) for loop of the same block share one name
    ( i = s.sel; s.x @= s.in_[i]; for i in range(4): ... ).  Every use of the temporary stays on its own side of the loop."""
    fors = [j for j, st in enumerate(stmts) if st[0] == "for"]
    if not fors: return stmts
    f = fors[0]; var = stmts[f][1]
    def names_in(sts):
      out = []
      def walk(o):
        if isinstance(o, list):
          if len(o) >= 2 and o[0] == "tmp": out.extend(o[1] if isinstance(o[1], list) else [o[1]])
          if len(o) == 3 and o[0] == "tv": out.append(o[1])
          for x in o: walk(x)
        elif isinstance(o, dict):
          for x in o.values(): walk(x)
      walk(sts); return out
    sides = [("before", stmts[:f], stmts[f:])] + ([("after", stmts[fors[-1] + 1:], stmts[:fors[-1] + 1])] if self.k.get("tmp_after_loop", True) else [])
    self.rng.shuffle(sides)
    for side, mine, other in sides:
      cands = [n for n in dict.fromkeys(names_in(mine)) if n not in names_in(other) and n != var]
      if not cands: continue
      tn = self.rng.choice(cands)
      def ren(o):
        if isinstance(o, list):
          if len(o) >= 2 and o[0] == "tmp":
            return ["tmp", ([var if x == tn else x for x in o[1]] if isinstance(o[1], list) else (var if o[1] == tn else o[1]))] + [ren(x) for x in o[2:]]
          if len(o) == 3 and o[0] == "tv" and o[1] == tn: return ["tv", var, o[2]]
          return [ren(x) for x in o]
        if isinstance(o, dict): return {a: ren(b) for a, b in o.items()}
        return o
      mine2 = ren(mine)
      self.design.setdefault("stats", {}).setdefault("tmp_shares_loop_name_" + side, 0)
      self.design["stats"]["tmp_shares_loop_name_" + side] += 1
      return (mine2 + stmts[f:]) if side == "before" else (stmts[:fors[-1] + 1] + mine2)
    return stmts

  def for_block(self, sg, srcs):
    """for i in range(...): s.lst[i] @= f(i)  - list-element / loop-variable-slice reads, loop variable as operand"""
    rng = self.rng
    n, w = sg["list"], sg["type"]
    var = "i"
    shape = rng.randrange(4) if self.k.get("for_desc", True) else 0
    if shape == 0: start, stop, step = 0, n, 1
    elif shape == 1: start, stop, step = n - 1, 0, -1                  # descending (the translator wants a non-negative end:
    elif shape == 2: start, stop, step = 0, n, 1                       #  element 0 is assigned by a separate statement)
    else: start, stop, step = n - 1, 0, -1
    tgt = {"path": f"{sg['name']}[${var}]", "steps": [], "lo": 0, "w": w, "sym": True}
    # element-wise source: another list of the same length (element width wl), or i-th w-bit slice of a wide signal
    lists = {}
    for path, t in srcs:
      if path.count("[") == 1 and path.endswith("]") and isinstance(t, int):      # elements of a 1-D list only
        base = path.split("[")[0]
        lists.setdefault((base, t), 0); lists[(base, t)] += 1
    cands = []
    for (base, wl), cnt in lists.items():
      if cnt >= n and "." not in base or cnt >= n:
        cands.append(("list", base, wl))
    for path, t in srcs:
      if isinstance(t, int) and "[" not in path and t >= n * w:
        cands.append(("wide", path, t))
    def adapt(e, we):
      if we == w: return e
      return [rng.choice(["zext", "sext"]), e, w] if we < w else ["trunc", e, w]
    if cands:
      kind, base, wl = rng.choice(cands)
      if kind == "list":
        core = adapt(["rd", {"path": f"{base}[${var}]", "steps": [], "lo": 0, "w": wl, "sym": True}], wl)
      else:
        core = ["rd", {"path": base, "steps": [["sv", var, w]], "lo": 0, "w": w, "sym": True}]
    else:
      core = self._explicit(w, list(srcs), 1)
    fits = (n - 1) <= mask(w)
    r = rng.random()
    if fits and r < 0.3: e = ["bin", rng.choice(["add", "sub", "xor"]), core, ["lv", var]]
    elif fits and r < 0.55: e = ["bin", rng.choice(["shl", "shr"]), core, ["lv", var]]           # loop variable as shift amount
    elif fits and r < 0.7: e = ["ite", ["cmp", rng.choice(["lt", "ge", "eq"]), self._explicit(w, list(srcs), 1), ["lv", var]], core, self._explicit(w, list(srcs), 1)]
    else: e = core
    loop = ["for", var, start, stop, step, [["=", tgt, e]]]
    if step < 0 and self.k.get("for_full_desc"):
      # count down to index 0 inclusive ( range(n-1, -1, -1) ), or in steps of two with the other elements assigned one by one
      st2 = rng.choice([-1, -2, -2, -3, -3, -4])  # the type checker wants a non-negative end value: stop at 0, 1 or 2 (exclusive)
      end_ = rng.choice([0, 0, 1, 2]) if n >= 4 else 0
      loop = ["for", var, n - 1, end_, st2, [["=", tgt, e]]]
      extra = [["=", concretize(tgt, {var: j}), subst_expr(e, {var: j})] for j in range(n) if j not in range(n - 1, end_, st2)]
      return ["seq", extra + [loop]] if extra else loop
    if step < 0:
      return ["if", ["c", 1, 1], [["=", concretize(tgt, {var: 0}), subst_expr(e, {var: 0})], loop], []] if False else \
             ["seq", [["=", concretize(tgt, {var: 0}), subst_expr(e, {var: 0})], loop]]
    return loop

  def drive(self, cls, p, srcs, comb_targets, rank, whole, t, child):
    """choose a driver for target part p"""
    rng, k = self.rng, self.k
    if "pt" in p:
      # a nested-struct-typed field can only be connected to a signal of that very type: drive it from a block
      p = dict({kk: v for kk, v in p.items() if kk != "pt"}, stype=p["pt"])
      p["struct_target"] = True
      comb_targets.append((rank, p, list(srcs))); return
    if k.get("p_const") and (isinstance(t, int) or not whole) and rng.random() < k["p_const"]:
      # tie the signal to a constant (small non-zero values preferred: they coincide with live values of other nets)
      cv = rng.choice([1, 2, 3, mask(p["w"]), rng.getrandbits(p["w"])]) & mask(p["w"])
      cst = {"const": cv}
      if k.get("p_const_generic") and rng.random() < k["p_const_generic"]:
        cst["generic"] = True
        self.design.setdefault("stats", {}).setdefault("connections_to_base_class_bits_constants", 0); self.design["stats"]["connections_to_base_class_bits_constants"] += 1
      cls["connects"].append([p, cst]); return
    if whole and not isinstance(t, int) and t[0] == "struct" and rng.random() < k.get("p_const_struct", 0) * (2 if child else 1):
      # tie a whole struct signal to a struct CONSTANT bound to a local name; the same constant object may drive several signals
      scs = cls.setdefault("sconsts", [])
      same = [sc for sc in scs if sc["type"] == t]
      if same and rng.random() < 0.7:
        sc = rng.choice(same)
      else:
        tx, v = struct_const(self.design, t, rng)
        sc = {"name": f"KS{len(scs)}", "type": t, "text": tx, "value": v}
        scs.append(sc)
      cls["connects"].append([p, {"const": sc["value"], "name": sc["name"]}]); return
    if child and k.get("p_connect_reset") and p["w"] == 1 and (isinstance(t, int) or not whole) and rng.random() < k["p_connect_reset"]:
      # a 1-bit input (or one bit of an input) of a child is tied to the PARENT's own reset ( s.cnt.clear //= s.reset )
      cls["connects"].append([p, {"path": "reset", "steps": [], "lo": 0, "w": 1}]); self.connect_ranks.add(rank)
      self.design.setdefault("stats", {}).setdefault("child_inputs_tied_to_parent_reset", 0); self.design["stats"]["child_inputs_tied_to_parent_reset"] += 1
      return
    if rng.random() < k["p_connect"] + (0.2 if child else 0):
      # connect: need an equal-width (and, for whole structs, equal-type) source
      cands = list(srcs)
      rng.shuffle(cands)
      for (path, st) in cands[:8]:
        if whole and not isinstance(t, int):
          if st == t:
            cls["connects"].append([p, self.root_ref(path, st)]); self.connect_ranks.add(rank); return
          continue
        r = self.read_ref(path, st, want=p["w"])
        if r is not None and r["path"] != p["path"]:
          cls["connects"].append([p, r]); self.connect_ranks.add(rank); return
      if rng.random() < 0.3 and (isinstance(t, int) or not whole):
        cst = {"const": rng.getrandbits(p["w"])}
        if k.get("p_const_generic") and rng.random() < k["p_const_generic"]:
          cst["generic"] = True
          self.design.setdefault("stats", {}).setdefault("connections_to_base_class_bits_constants", 0); self.design["stats"]["connections_to_base_class_bits_constants"] += 1
        cls["connects"].append([p, cst]); return
    if whole and not isinstance(t, int):
      p = dict(p, struct_target=True, stype=t)
    comb_targets.append((rank, p, list(srcs)))

  def assign_stmts(self, p, srcs, kind, t=None):
    rng, k = self.rng, self.k
    w = p["w"]
    if t is not None and not isinstance(t, int) and not p["steps"]:
      # whole struct register: copy from a same-typed source if any, else hold
      same = [(path, st) for path, st in srcs if st == t and path != p["path"]]
      if same:
        path, st = rng.choice(same)
        return [["=", p, ["rd", self.root_ref(path, st)]]]
      return [["=", p, ["rd", p]]]
    st_ = p.get("stype")
    if kind == "comb" and st_ is not None and not isinstance(st_, int) and st_[0] == "struct" and rng.random() < k.get("p_const_struct", 0) \
       and getattr(self, "cur_cls", None) is not None:
      # the block assigns a struct CONSTANT that the component keeps as an attribute ( s.KA0 = T0(...) ), read whole
      sa = self.cur_cls.setdefault("sattrs", [])
      same = [x for x in sa if x["type"] == st_]
      if same and rng.random() < 0.4:
        sc = rng.choice(same)
      else:
        tx, v = struct_const(self.design, st_, rng)
        sc = {"name": f"KA{len(sa)}", "type": st_, "text": tx, "value": v}
        sa.append(sc)
      return [["=", p, ["sc", sc["name"], sc["value"], w]]]
    mk = lambda: self.expr(w, list(srcs), k["expr_depth"])
    def fit(e):
      # an implicit literal must fit the target; make it explicit-safe
      if ewidth(e) is None and e[0] == "c":
        return ["c", e[1] & mask(w), None]
      if (t is not None and not isinstance(t, int)) or p.get("struct_target"):
        return make_explicit(e, w)          # a struct-typed target takes Bits (or structs) only, never a plain int
      return e
    if kind == "comb" and k.get("p_branchy") and srcs and rng.random() < k["p_branchy"]:
      # a decoder: 20-25 way if / elif chain on one selector (schedulers that weigh blocks by their number of branches treat such
      # a block specially)
      n = rng.randrange(20, 26)
      sel = self._explicit(5, list(srcs), 1)
      kc = lambda: ["c", rng.getrandbits(min(w, 8)), w]          # explicitly sized constants (a struct-typed target takes no plain int)
      node = [["=", p, kc()]]
      for i in reversed(range(n)):
        node = [["if", ["cmp", "eq", sel, ["c", i, None]], [["=", p, fit(mk()) if rng.random() < 0.3 else kc()]], node]]
      self.design.setdefault("stats", {}).setdefault("branchy_blocks", 0); self.design["stats"]["branchy_blocks"] += 1
      return node
    if rng.random() < k["p_if"] and srcs:
      c = self.cond(list(srcs), 2)
      if kind == "ff" and rng.random() < 0.5:
        return [["if", c, [["=", p, fit(mk())]], []]]        # register holds otherwise
      if rng.random() < 0.5:
        return [["=", p, fit(mk())], ["if", c, [["=", p, fit(mk())]], []]]   # default + override (last assignment wins)
      return [["if", c, [["=", p, fit(mk())]], [["=", p, fit(mk())]]]]
    return [["=", p, fit(mk())]]


def generate(rng, knobs=None):
  g = Gen(rng, knobs)
  g.design["top"] = g.gen_class(g.k["depth"], True)
  if g.k.get("p_subclass"):
    # some classes derive from an EARLIER generated class and override construct() completely: same block names, other bodies
    order = g.design["order"]
    g.design["bases"] = {cn: rng.choice(order[:i]) for i, cn in enumerate(order) if i and rng.random() < g.k["p_subclass"]}
  if g.k.get("p_shadow") and rng.random() < g.k["p_shadow"]:
    names = {"i"}
    for c in g.design["classes"].values():
      names |= set(c.get("freevars", {}))
    g.design["shadow_globals"] = [(n, rng.choice([0, 1, 2, 77])) for n in sorted(names)]
  return g.design


def block_graph_acyclic(ref):
  """spec-side premise of C01/C02/C07: the comb block graph (edges through nets included, cells are merged by
  union-find) has no cycle; a block reading through an alias a cell it writes itself counts as a cycle"""
  comb = [(h, b) for h, b in ref.blocks if b["kind"] == "comb"]
  keys = [(h, b["name"]) for h, b in comb]
  for h, b in comb:
    rd, wr = stmt_reads_writes(b["stmts"], [], [])
    for r in rd:
      rc = {ref.find(c) for c in ref.ref_cells(h, r)}
      for w in wr:
        if w["path"] != r["path"] and rc & {ref.find(c) for c in ref.ref_cells(h, w)}:
          return False
  succ = {k: [k2 for k2 in keys if k2 != k and ref.rw[k][1] & ref.rw[k2][0]] for k in keys}
  state = {}
  def dfs(u):
    state[u] = 1
    for v in succ[u]:
      if state.get(v) == 1: return False
      if v not in state and not dfs(v): return False
    state[u] = 2
    return True
  return all(dfs(k) for k in keys if k not in state)


def top_inputs(design):
  """[(abs path, width)] of the primary inputs (without clk/reset)"""
  c = design["classes"][design["top"]]
  out = []
  for sg in c["signals"]:
    if sg["kind"] == "InPort":
      w = twidth(design, sg["type"])
      if sg["list"]:
        out += [(f"s.{sg['name']}{sfx}", w) for sfx in list_suffixes(sg["list"])]
      else:
        out.append((f"s.{sg['name']}", w))
  return out


def spec_replace(design, path, new_cname, tag):
  """design' (deep copy) in which the instance at `path` (list of instance names from the top) is of class new_cname;
  every ancestor class on the path is cloned under a fresh name so that other instances keep the old classes"""
  import copy
  d = copy.deepcopy(design)
  chain = [d["top"]]
  for iname in path[:-1]:
    chain.append(dict(d["classes"][chain[-1]]["children"])[iname])
  child = new_cname
  for depth in range(len(path) - 1, -1, -1):
    pc = copy.deepcopy(d["classes"][chain[depth]])
    pc["name"] = f"{chain[depth]}_{tag}"
    pc["children"] = [[i, (child if i == path[depth] else c)] for i, c in pc["children"]]
    d["classes"][pc["name"]] = pc
    d["order"].append(pc["name"])
    child = pc["name"]
  d["top"] = child
  return d


def instance_paths(design):
  out = []
  def walk(cn, path):
    for iname, ccn in design["classes"][cn]["children"]:
      out.append((path + [iname], ccn)); walk(ccn, path + [iname])
  walk(design["top"], [])
  return out
