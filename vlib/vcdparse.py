"""Independent minimal VCD reader (IEEE 1364 four-state text format subset: scopes, vars, #time, scalar and vector changes)."""


def parse(text):
  """-> (vars, changes) ; vars: list of (scope tuple, name, width, symbol); changes: {symbol: [(time, int value)]}"""
  toks = text.split()
  i = 0
  scope = []
  vars_ = []
  changes = {}
  time = None
  n = len(toks)
  in_defs = True
  while i < n:
    t = toks[i]
    if in_defs:
      if t == "$scope":
        scope.append(toks[i + 2]); i += 4; continue      # $scope module NAME $end
      if t == "$upscope":
        scope.pop(); i += 2; continue
      if t == "$var":
        # $var reg WIDTH SYMBOL NAME $end
        width, sym, name = int(toks[i + 2]), toks[i + 3], toks[i + 4]
        j = i + 5
        while toks[j] != "$end":
          name += toks[j]; j += 1
        vars_.append((tuple(scope), name, width, sym)); i = j + 1; continue
      if t == "$enddefinitions":
        in_defs = False; i += 2; continue
      if t in ("$date", "$version", "$timescale", "$comment"):
        while toks[i] != "$end": i += 1
        i += 1; continue
      i += 1; continue
    if t[0] == "#":
      time = int(t[1:]); i += 1; continue
    if t[0] in "bB":
      val = int(t[1:], 2); sym = toks[i + 1]; i += 2
    elif t[0] in "01":
      val = int(t[0]); sym = t[1:]; i += 1
    elif t.startswith("$"):
      i += 1; continue
    else:
      raise ValueError("unexpected token in value section: %r" % t)
    changes.setdefault(sym, []).append((time if time is not None else -1, val))
  return vars_, changes


def value_at(series, time):
  """value in effect at `time` (last change with t <= time); None if none"""
  v = None
  for (t, x) in series:
    if t <= time: v = x
    else: break
  return v
