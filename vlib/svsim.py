"""svsim - interpreter for the (System)Verilog subset emitted by pymtl3's two translation backends.

Written against IEEE 1800-2017 (expression sizing 11.6, casts 6.24.1, processes 9.2) - see DESIGN.md Appendix A -
not against pymtl3.  Two-state, all-unsigned evaluation (the emitted text contains no signed operands except
non-negative loop variables).  Provides

  parse(text)            -> Design (typedefs, modules)
  Sim(design, top)       -> elaborated instance tree; set()/get() on top-level ports, settle(), tick()
  drivers(sim)           -> static driver analysis of every variable bit
"""
import re

# ---------------------------------------------------------------------------
# lexer
# ---------------------------------------------------------------------------
TOKEN_RE = re.compile(r"""
   (?P<ws>\s+|//[^\n]*|/\*.*?\*/)
 | (?P<num>\d+\s*'\s*[sS]?[bBdDhHoO]\s*[0-9a-fA-F_xXzZ?]+|'[bBdDhHoO][0-9a-fA-F_]+|\d+)
 | (?P<id>[A-Za-z_$][A-Za-z_0-9$]*)
 | (?P<op>\+:|-:|<<<|>>>|<=|>=|==|!=|<<|>>|&&|\|\||\*\*|\+=|-=|'\{|[-+*/%&|^~!<>=?:;,.()\[\]{}@#'])
""", re.X | re.S)


class SVError(Exception):
  pass


def lex(text):
  out = []
  pos = 0
  n = len(text)
  while pos < n:
    m = TOKEN_RE.match(text, pos)
    if not m:
      raise SVError(f"lexical error at {text[pos:pos+30]!r}")
    pos = m.end()
    k = m.lastgroup
    if k == "ws":
      continue
    out.append((k, m.group(k)))
  out.append(("eof", ""))
  return out


def parse_number(tok):
  t = tok.replace("_", "").replace(" ", "")
  if "'" not in t:
    return ("num", int(t), None, True)         # unsized decimal: 32 bit signed
  size, rest = t.split("'")
  signed = rest[0] in "sS"
  if signed: rest = rest[1:]
  base = {"b": 2, "d": 10, "h": 16, "o": 8}[rest[0].lower()]
  digits = rest[1:].lower().replace("x", "0").replace("z", "0").replace("?", "0")
  try:
    v = int(digits, base)
  except ValueError:
    raise SVError(f"malformed number literal {tok!r}")
  w = int(size) if size else 32
  return ("num", v & ((1 << w) - 1), w, signed)


# ---------------------------------------------------------------------------
# parser
# ---------------------------------------------------------------------------
BINPREC = [("||",), ("&&",), ("|",), ("^",), ("&",), ("==", "!="), ("<", "<=", ">", ">="), ("<<", ">>", "<<<", ">>>"),
           ("+", "-"), ("*", "/", "%"), ("**",)]
PREC = {}
for i, ops in enumerate(BINPREC):
  for o in ops:
    PREC[o] = i + 1

KEYWORDS = {"module", "endmodule", "input", "output", "inout", "logic", "wire", "reg", "assign", "always_comb", "always_ff", "always",
            "begin", "end", "if", "else", "for", "typedef", "struct", "packed", "localparam", "parameter", "integer", "int",
            "unsigned", "signed", "posedge", "negedge", "case", "endcase", "default", "function", "endfunction", "generate",
            "endgenerate", "genvar", "bit", "byte"}


class Parser:
  def __init__(self, text):
    self.toks = lex(text)
    self.i = 0
    self.typedefs = {}
    self.modules = {}
    self.module_order = []
    self.forms = {}     # syntactic form -> count (parser coverage evidence)

  def form(self, k):
    self.forms[k] = self.forms.get(k, 0) + 1

  def peek(self, k=0):
    return self.toks[self.i + k]

  def next(self):
    t = self.toks[self.i]; self.i += 1
    return t

  def accept(self, v):
    if self.toks[self.i][1] == v and self.toks[self.i][0] != "eof":
      self.i += 1
      return True
    return False

  def expect(self, v):
    t = self.next()
    if t[1] != v:
      ctx = " ".join(x[1] for x in self.toks[max(0, self.i - 8):self.i + 4])
      raise SVError(f"expected {v!r} got {t[1]!r} near: {ctx}")
    return t

  def ident(self):
    t = self.next()
    if t[0] != "id":
      ctx = " ".join(x[1] for x in self.toks[max(0, self.i - 8):self.i + 4])
      raise SVError(f"expected identifier got {t[1]!r} near: {ctx}")
    return t[1]

  # -- top ----------------------------------------------------------------
  def parse(self):
    while self.peek()[0] != "eof":
      t = self.peek()[1]
      if t == "typedef": self.typedef()
      elif t == "module": self.module()
      else:
        raise SVError(f"unexpected top-level token {t!r}")
    return self

  def packed_dims(self):
    dims = []
    while self.peek()[1] == "[":
      self.next()
      hi = self.expr(); self.expect(":"); lo = self.expr(); self.expect("]")
      dims.append((const_eval(hi), const_eval(lo)))
    return dims

  def data_type(self):
    """-> type tuple"""
    t = self.peek()
    if t[1] in ("logic", "wire", "reg", "bit"):
      self.next()
      if self.peek()[1] in ("signed", "unsigned"): self.next()
      dims = self.packed_dims()
      return mk_vec_type(dims)
    if t[1] == "integer":
      self.next(); self.form("integer"); return ("vec", 32)
    if t[1] == "int":
      self.next()
      if self.peek()[1] in ("unsigned", "signed"): self.next()
      self.form("int unsigned"); return ("vec", 32)
    if t[0] == "id" and t[1] in self.typedefs:
      self.next(); return self.typedefs[t[1]]
    raise SVError(f"unknown type {t[1]!r}")

  def typedef(self):
    self.expect("typedef"); self.expect("struct"); self.expect("packed"); self.expect("{")
    self.form("typedef struct packed")
    fields = []
    while not self.accept("}"):
      ft = self.data_type()
      fn = self.ident()
      self.expect(";")
      fields.append((fn, ft))
    name = self.ident(); self.expect(";")
    if name in self.typedefs:
      raise SVError(f"typedef {name} defined twice")
    self.typedefs[name] = ("struct", name, tuple(fields), sum(twidth(t) for _, t in fields))

  def unpacked_dims(self):
    dims = []
    while self.peek()[1] == "[":
      self.next()
      a = const_eval(self.expr())
      if self.accept(":"):
        b = const_eval(self.expr())
        if a != 0: raise SVError("unpacked range must start at 0")
        dims.append(b + 1)
      else:
        dims.append(a)
      self.expect("]")
    return dims

  def module(self):
    self.expect("module")
    name = self.ident()
    if name in self.modules:
      raise SVError(f"module {name} defined twice")
    self.form("module")
    ports = []
    items = []
    if self.accept("("):
      while not self.accept(")"):
        d = self.next()[1]
        if d not in ("input", "output"):
          raise SVError(f"port direction expected, got {d!r}")
        ty = self.data_type()
        pn = self.ident()
        dims = self.unpacked_dims()
        if dims: self.form("unpacked array port")
        ports.append((d, ty, pn, dims))
        self.accept(",")
    self.expect(";")
    while not self.accept("endmodule"):
      items.append(self.item())
    self.modules[name] = {"name": name, "ports": ports, "items": items}
    self.module_order.append(name)

  def item(self):
    t = self.peek()
    if t[1] == "assign":
      self.next(); lhs = self.lvalue(); self.expect("="); rhs = self.expr(); self.expect(";")
      self.form("assign")
      return ("assign", lhs, rhs)
    if t[1] == "always_comb":
      self.next(); self.form("always_comb")
      body, label = self.labelled_block()
      return ("comb", label, body)
    if t[1] == "always_ff":
      self.next(); self.expect("@"); self.expect("("); self.expect("posedge"); clk = self.ident(); self.expect(")")
      self.form("always_ff")
      body, label = self.labelled_block()
      return ("ff", label, body, clk)
    if t[1] == "localparam":
      self.next(); ty = self.data_type(); nm = self.ident(); self.expect("="); e = self.expr(); self.expect(";")
      self.form("localparam")
      return ("localparam", ty, nm, e)
    if t[1] in ("logic", "wire", "reg", "integer", "int", "bit") or (t[0] == "id" and t[1] in self.typedefs):
      ty = self.data_type()
      is_signed_int = t[1] in ("integer", "int") and self.toks[self.i - 1][1] != "unsigned"       # LRM 6.11: integer / int are signed
      nm = self.ident(); dims = self.unpacked_dims()
      if is_signed_int: self.signed_ints = getattr(self, "signed_ints", set()) | {nm}
      if dims: self.form("unpacked array decl")
      self.expect(";")
      return ("decl", ty, nm, dims)
    if t[0] == "id" and t[1] not in KEYWORDS:
      mod = self.ident(); inst = self.ident(); self.expect("(")
      conns = []
      while not self.accept(")"):
        self.expect("."); pn = self.ident(); self.expect("(")
        e = None if self.peek()[1] == ")" else self.expr()
        self.expect(")"); self.accept(",")
        conns.append((pn, e))
      self.expect(";")
      self.form("module instance")
      return ("inst", mod, inst, conns)
    raise SVError(f"unexpected module item starting with {t[1]!r}")

  def labelled_block(self):
    st = self.stmt()
    label = st[2] if st[0] == "blk" else None
    return st, label

  def stmt(self):
    t = self.peek()
    if t[1] == "begin":
      self.next()
      label = None
      if self.accept(":"): label = self.ident()
      body = []
      while not self.accept("end"):
        body.append(self.stmt())
      if self.accept(":"): self.ident()
      return ("blk", body, label)
    if t[1] == "if":
      self.next(); self.expect("("); c = self.expr(); self.expect(")")
      s1 = self.stmt()
      s2 = None
      if self.accept("else"):
        s2 = self.stmt()
      self.form("if/else" if s2 else "if")
      return ("if", c, s1, s2)
    if t[1] == "for":
      self.next(); self.expect("("); self.form("for")
      decl = False
      if self.peek()[1] in ("int", "integer"):
        # `int` / `integer` are SIGNED 32-bit types unless declared `int unsigned` (LRM 6.11)
        is_int = self.peek()[1] == "int"
        self.data_type(); decl = "signed"
        if is_int and self.toks[self.i - 1][1] == "unsigned": decl = "unsigned"
      var = self.ident(); self.expect("="); init = self.expr(); self.expect(";")
      cond = self.expr(); self.expect(";")
      sv = self.ident()
      if self.accept("+="): step = ("bin", "+", ("id", sv, ()), self.expr())
      elif self.accept("-="): step = ("bin", "-", ("id", sv, ()), self.expr())
      else:
        self.expect("="); step = self.expr()
      self.expect(")")
      body = self.stmt()
      return ("for", var, init, cond, sv, step, body, decl)
    lhs = self.lvalue()
    op = self.next()[1]
    if op not in ("=", "<="):
      raise SVError(f"assignment operator expected, got {op!r}")
    rhs = self.expr(); self.expect(";")
    self.form("blocking assign" if op == "=" else "nonblocking assign")
    return (op, lhs, rhs)

  def lvalue(self):
    if self.peek()[1] == "{":
      raise SVError("concatenation on the left-hand side is not in the supported subset")
    return self.primary_ident()

  def primary_ident(self):
    name = self.ident()
    sels = []
    while True:
      if self.accept("."):
        sels.append(("mem", self.ident())); self.form("member access")
      elif self.peek()[1] == "[":
        self.next()
        a = self.expr()
        if self.accept(":"):
          b = self.expr(); sels.append(("range", a, b)); self.form("part select [h:l]")
        elif self.accept("+:"):
          b = self.expr(); sels.append(("plus", a, b)); self.form("indexed part select +:")
        else:
          sels.append(("idx", a)); self.form("index")
        self.expect("]")
      else:
        break
    return ("id", name, tuple(sels))

  def cat_select(self, base):
    """IEEE 1800-2017 11.4.12: a concatenation may be followed by a bit- or part-select: {a + b}[1:0]"""
    while self.peek()[1] == "[":
      self.next()
      a = self.expr()
      if self.accept(":"):
        b = self.expr(); sel = ("range", a, b)
      elif self.accept("+:"):
        b = self.expr(); sel = ("plus", a, b)
      else:
        sel = ("idx", a)
      self.expect("]")
      self.form("select on concatenation")
      base = ("sel", base, sel)
    return base

  # -- expressions ------------------------------------------------------------
  def expr(self):
    c = self.binary(1)
    if self.accept("?"):
      a = self.expr(); self.expect(":"); b = self.expr()
      self.form("?:")
      return ("tern", c, a, b)
    return c

  def binary(self, prec):
    lhs = self.unary()
    while True:
      t = self.peek()
      p = PREC.get(t[1]) if t[0] == "op" else None
      if p is None or p < prec:
        return lhs
      self.next()
      rhs = self.binary(p + 1)
      self.form("binary " + t[1])
      lhs = ("bin", t[1], lhs, rhs)

  def unary(self):
    t = self.peek()
    if t[0] == "op" and t[1] in ("~", "-", "+", "!", "&", "|", "^"):
      self.next()
      e = self.unary()
      self.form("unary " + t[1])
      return ("un", t[1], e)
    return self.postfix()

  def postfix(self):
    t = self.peek()
    if t[0] == "num":
      self.next()
      n = parse_number(t[1])
      if self.peek()[1] == "'" and self.peek(1)[1] == "(":
        self.next(); self.next(); e = self.expr(); self.expect(")")
        self.form("size cast N'(e)")
        return ("cast", n[1], e)
      self.form("sized literal" if n[2] is not None else "unsized literal")
      return n
    if t[1] == "(":
      self.next(); e = self.expr(); self.expect(")")
      return e
    if t[1] == "{":
      self.next()
      first = self.expr()
      if self.peek()[1] == "{":
        self.next()
        parts = [self.expr()]
        while self.accept(","): parts.append(self.expr())
        self.expect("}"); self.expect("}")
        self.form("replication")
        return self.cat_select(("rep", first, parts))
      parts = [first]
      while self.accept(","): parts.append(self.expr())
      self.expect("}")
      self.form("concatenation")
      return self.cat_select(("cat", parts))
    if t[0] == "id" and t[1] in ("$unsigned", "$signed"):
      self.next(); self.expect("("); e = self.expr(); self.expect(")")
      self.form(t[1])
      return ("sgn", t[1] == "$signed", e)
    if t[0] == "id" and t[1] not in KEYWORDS:
      return self.primary_ident()
    raise SVError(f"unexpected token in expression: {t[1]!r}")


def mk_vec_type(dims):
  if not dims:
    return ("vec", 1)
  ty = ("vec", dims[-1][0] - dims[-1][1] + 1)
  for (hi, lo) in reversed(dims[:-1]):
    ty = ("parr", hi - lo + 1, ty)
  return ty


def twidth(t):
  if t[0] == "vec": return t[1]
  if t[0] == "parr": return t[1] * twidth(t[2])
  return t[3]


def const_eval(e):
  if e[0] == "num": return e[1]
  if e[0] == "bin":
    a, b = const_eval(e[2]), const_eval(e[3])
    return {"+": a + b, "-": a - b, "*": a * b}[e[1]]
  raise SVError("constant expression expected")


def parse(text):
  return Parser(text).parse()


# ---------------------------------------------------------------------------
# elaboration + evaluation
# ---------------------------------------------------------------------------

def mask(w):
  return (1 << w) - 1


class Var:
  __slots__ = ("name", "type", "dims", "val", "kind")

  def __init__(self, name, ty, dims, kind):
    self.name, self.type, self.dims, self.kind = name, ty, list(dims), kind
    self.val = self._zero(dims)

  def _zero(self, dims):
    if not dims: return 0
    return [self._zero(dims[1:]) for _ in range(dims[0])]


class Inst:
  def __init__(self, mod, path):
    self.mod, self.path = mod, path
    self.vars = {}
    self.children = {}
    self.procs = []          # (kind, payload)


class Sim:
  def __init__(self, design, top=None):
    self.design = design
    self.top_name = top or design.module_order[-1]
    self.events = {}         # flagged situations (div by zero, out-of-range index, ...)
    self.insts = []
    self.loopvars = {}
    self.track = None
    self.top = self.elab(self.top_name, "top")
    self.changed = False
    self.track = None

  def flag(self, k):
    self.events[k] = self.events.get(k, 0) + 1

  def elab(self, modname, path):
    if modname not in self.design.modules:
      raise SVError(f"instantiated module {modname} is not defined")
    m = self.design.modules[modname]
    inst = Inst(m, path)
    self.insts.append(inst)
    def declare(nm, ty, dims, kind):
      if nm in inst.vars:
        raise SVError(f"identifier {nm} declared twice in module {modname}")
      if nm in KEYWORDS or not re.match(r"^[A-Za-z_][A-Za-z_0-9$]*$", nm):
        raise SVError(f"illegal identifier {nm!r} in module {modname}")
      inst.vars[nm] = Var(nm, ty, dims, kind)
    for (d, ty, pn, dims) in m["ports"]:
      declare(pn, ty, dims, d)
    for it in m["items"]:
      if it[0] == "decl":
        declare(it[2], it[1], it[3], "var")
      elif it[0] == "localparam":
        declare(it[2], it[1], [], "const")
    for it in m["items"]:
      if it[0] == "localparam":
        v = inst.vars[it[2]]
        v.val = self.ev(it[3], inst, twidth(it[1])) & mask(twidth(it[1]))
      elif it[0] == "assign":
        inst.procs.append(("assign", it))
      elif it[0] == "comb":
        inst.procs.append(("comb", it))
      elif it[0] == "ff":
        inst.procs.append(("ff", it))
      elif it[0] == "inst":
        if it[2] in inst.children or it[2] in inst.vars:
          raise SVError(f"instance name {it[2]} clashes in module {modname}")
        child = self.elab(it[1], path + "." + it[2])
        inst.children[it[2]] = child
        cports = {p[2]: p for p in child.mod["ports"]}
        seen = set()
        for pn, e in it[3]:
          if pn not in cports:
            raise SVError(f"instance {it[2]} of {it[1]} connects unknown port {pn}")
          if pn in seen:
            raise SVError(f"port {pn} connected twice on instance {it[2]}")
          seen.add(pn)
          if e is None: continue
          d, pty, _, pdims = cports[pn]
          # width / shape check of the connection
          if e[0] == "id" and e[1] in inst.vars and all(s_[0] == "idx" for s_ in e[2]) and len(e[2]) <= len(inst.vars[e[1]].dims):
            pv0 = inst.vars[e[1]]
            pv = Var(pv0.name, pv0.type, pv0.dims[len(e[2]):], "tmp")
            if pv.dims != pdims or twidth(pv.type) != twidth(pty):
              raise SVError(f"port connection shape mismatch: {it[2]}.{pn} ({twidth(pty)} bits {pdims}) <- {e[1]} ({twidth(pv.type)} bits {pv.dims})")
          inst.procs.append(("bind_in" if d == "input" else "bind_out", (child, pn, e)))
    return inst

  # -- selector resolution ----------------------------------------------------
  def resolve(self, node, inst):
    """-> (var, unpacked idx tuple, lo, width, type, ok)   (ok False = out of range somewhere)"""
    name = node[1]
    if name in self.loopvars and not node[2]:
      return None
    v = inst.vars.get(name)
    if v is None:
      raise SVError(f"unknown identifier {name} in {inst.mod['name']}")
    idx = []
    dims = v.dims
    ty = v.type
    lo = 0
    w = twidth(ty)
    ok = True
    for s in node[2]:
      if len(idx) < len(dims):
        if s[0] != "idx": raise SVError(f"range select on unpacked dimension of {name}")
        i = self.ev_self(s[1], inst)
        if not (0 <= i < dims[len(idx)]): ok = False; i = 0
        idx.append(i)
        continue
      if s[0] == "mem":
        if ty[0] != "struct": raise SVError(f"member access .{s[1]} on non-struct {name} in {inst.mod['name']}")
        off = ty[3]
        found = False
        for fn, ft in ty[2]:
          off -= twidth(ft)
          if fn == s[1]:
            lo += off; ty = ft; w = twidth(ft); found = True; break
        if not found: raise SVError(f"struct {ty[1]} has no member {s[1]}")
      elif s[0] == "idx":
        i = self.ev_self(s[1], inst)
        if ty[0] == "parr":
          ew = twidth(ty[2])
          if not (0 <= i < ty[1]): ok = False; i = 0
          lo += i * ew; ty = ty[2]; w = ew
        else:
          if not (0 <= i < w): ok = False; i = 0
          lo += i; ty = ("vec", 1); w = 1
      elif s[0] == "range":
        h, l = self.ev_self(s[1], inst), self.ev_self(s[2], inst)
        if not (0 <= l <= h < w): ok = False; h, l = 0, 0
        lo += l; w = h - l + 1; ty = ("vec", w)
      else:
        b, ww = self.ev_self(s[1], inst), self.ev_self(s[2], inst)
        if not (0 <= b and b + ww <= w): ok = False; b = 0
        lo += b; w = ww; ty = ("vec", w)
    return (v, tuple(idx), lo, w, ty, ok)

  def read(self, node, inst):
    r = self.resolve(node, inst)
    if r is None:
      return self.loopvars[node[1]], 32
    v, idx, lo, w, ty, ok = r
    if len(idx) < len(v.dims):
      raise SVError(f"unpacked array {v.name} used as a value in an expression")
    if not ok:
      self.flag("out-of-range-select(read as 0)")
      return 0, w
    x = v.val
    for i in idx: x = x[i]
    return (x >> lo) & mask(w), w

  def write(self, node, inst, value, queue=None):
    r = self.resolve(node, inst)
    if r is None:
      self.loopvars[node[1]] = value & mask(32); return
    v, idx, lo, w, ty, ok = r
    if v.kind == "const":
      raise SVError(f"assignment to localparam {v.name}")
    if not ok:
      self.flag("out-of-range-select(write dropped)"); return
    if len(idx) < len(v.dims):
      raise SVError(f"whole-array assignment to {v.name} in a procedural/continuous assignment")
    if queue is not None:
      queue.append((v, idx, lo, w, value & mask(w))); return
    self.store(v, idx, lo, w, value)

  def store(self, v, idx, lo, w, value):
    """writes are tracked per process: `changed` is decided on the state at the END of a process (a block may write
    a temporary several times and still leave everything as it was)"""
    if idx:
      holder = v.val
      for i in idx[:-1]: holder = holder[i]
      old = holder[idx[-1]]
      new = (old & ~(mask(w) << lo)) | ((value & mask(w)) << lo)
      if new != old:
        if self.track is not None: self.track.setdefault((v, idx), old)
        else: self.changed = True
        holder[idx[-1]] = new
    else:
      old = v.val
      new = (old & ~(mask(w) << lo)) | ((value & mask(w)) << lo)
      if new != old:
        if self.track is not None: self.track.setdefault((v, ()), old)
        else: self.changed = True
        v.val = new

  def end_track(self):
    for (v, idx), old in self.track.items():
      x = v.val
      for i in idx: x = x[i]
      if x != old:
        self.changed = True; break
    self.track = None

  # -- sizing (IEEE 1800-2017 11.6.1) ------------------------------------------
  def size(self, e, inst):
    k = e[0]
    if k == "num": return e[2] if e[2] is not None else 32
    if k == "id":
      r = self.resolve_static(e, inst)
      return r
    if k == "un":
      return 1 if e[1] in ("&", "|", "^", "!") else self.size(e[2], inst)
    if k == "bin":
      op = e[1]
      if op in ("==", "!=", "<", "<=", ">", ">=", "&&", "||"): return 1
      if op in ("<<", ">>", "<<<", ">>>", "**"): return self.size(e[2], inst)
      return max(self.size(e[2], inst), self.size(e[3], inst))
    if k == "tern": return max(self.size(e[2], inst), self.size(e[3], inst))
    if k == "cat": return sum(self.size(x, inst) for x in e[1])
    if k == "rep": return const_eval(e[1]) * sum(self.size(x, inst) for x in e[2])
    if k == "cast": return e[1]
    if k == "sgn": return self.size(e[2], inst)          # $unsigned / $signed: same size, argument self-determined (11.7)
    if k == "sel":
      sl = e[2]
      if sl[0] == "idx": return 1
      if sl[0] == "range": return self.ev_self(sl[1], inst) - self.ev_self(sl[2], inst) + 1
      return const_eval(sl[2])
    raise SVError(f"size of {k}")

  def resolve_static(self, node, inst):
    """width of an identifier expression without evaluating indices (widths never depend on index values here)"""
    name = node[1]
    if name in self.loopvars and not node[2]: return 32
    v = inst.vars.get(name)
    if v is None:
      raise SVError(f"unknown identifier {name} in {inst.mod['name']}")
    nd = len(v.dims)
    ty = v.type
    w = twidth(ty)
    cnt = 0
    for s in node[2]:
      if cnt < nd:
        cnt += 1; continue
      if s[0] == "mem":
        if ty[0] != "struct": raise SVError(f"member access .{s[1]} on non-struct {name} in {inst.mod['name']}")
        f = dict(ty[2]).get(s[1])
        if f is None: raise SVError(f"struct {ty[1]} has no member {s[1]}")
        ty = f; w = twidth(f)
      elif s[0] == "idx":
        if ty[0] == "parr": ty = ty[2]; w = twidth(ty)
        else: ty = ("vec", 1); w = 1
      elif s[0] == "range":
        w = const_eval(s[1]) - const_eval(s[2]) + 1 if s[1][0] == "num" and s[2][0] == "num" else self.ev_self(s[1], inst) - self.ev_self(s[2], inst) + 1
        ty = ("vec", w)
      else:
        w = const_eval(s[2]); ty = ("vec", w)
    return w

  def is_signed(self, e, inst):
    """expression signedness (LRM 11.8.1) for the forms the back ends emit: unsized decimal literals and `int` loop counters are
    signed, sized literals / nets / variables / selects / comparisons are unsigned, an operator is signed iff all operands are"""
    k = e[0]
    if k == "num": return bool(e[3])
    if k == "id": return (not e[2]) and e[1] in self.loopvars and getattr(self, "loop_signed", {}).get(e[1], False)
    if k == "cast": return self.is_signed(e[2], inst)          # 6.24.1: a size cast passes the signedness through
    if k == "sgn": return bool(e[1])
    if k == "un": return e[1] in ("-", "+", "~") and self.is_signed(e[2], inst)
    if k == "bin" and e[1] in ("+", "-", "*", "/", "%", "&", "|", "^"): return self.is_signed(e[2], inst) and self.is_signed(e[3], inst)
    return False

  def ev_self(self, e, inst):
    return self.ev(e, inst, self.size(e, inst))

  def ev(self, e, inst, W):
    """value of e in a context of W bits (W >= self size for context-determined nodes); result < 2**W"""
    k = e[0]
    if k == "num":
      return e[1] & mask(W)
    if k == "id":
      v, w = self.read(e, inst)
      return v
    if k == "un":
      op = e[1]
      if op in ("&", "|", "^"):
        w = self.size(e[2], inst); a = self.ev(e[2], inst, w)
        return int({"&": a == mask(w), "|": a != 0, "^": bin(a).count("1") & 1}[op])
      if op == "!":
        return int(self.ev_self(e[2], inst) == 0)
      a = self.ev(e[2], inst, W)
      if op == "~": return (~a) & mask(W)
      if op == "-": return (-a) & mask(W)
      return a
    if k == "bin":
      op = e[1]
      if op in ("==", "!=", "<", "<=", ">", ">="):
        w = max(self.size(e[2], inst), self.size(e[3], inst))
        a, b = self.ev(e[2], inst, w), self.ev(e[3], inst, w)
        if self.is_signed(e[2], inst) and self.is_signed(e[3], inst):
          # both operands signed: a signed comparison (LRM 11.8.1); a single unsigned operand makes it unsigned
          a = a - (1 << w) if a >> (w - 1) else a
          b = b - (1 << w) if b >> (w - 1) else b
        return int({"==": a == b, "!=": a != b, "<": a < b, "<=": a <= b, ">": a > b, ">=": a >= b}[op])
      if op in ("&&", "||"):
        a, b = self.ev_self(e[2], inst) != 0, self.ev_self(e[3], inst) != 0
        return int((a and b) if op == "&&" else (a or b))
      if op in ("<<", ">>", "<<<", ">>>"):
        a = self.ev(e[2], inst, W); b = self.ev_self(e[3], inst)
        if op in ("<<", "<<<"): return (a << b) & mask(W) if b < W else 0
        return a >> b if b < W else 0
      a, b = self.ev(e[2], inst, W), self.ev(e[3], inst, W)
      if op == "+": r = a + b
      elif op == "-": r = a - b
      elif op == "*": r = a * b
      elif op == "&": r = a & b
      elif op == "|": r = a | b
      elif op == "^": r = a ^ b
      elif op in ("/", "%"):
        if b == 0:
          self.flag("division-by-zero(x mapped to 0)"); r = 0
        else:
          r = a // b if op == "/" else a % b
      elif op == "**": r = pow(a, self.ev_self(e[3], inst), 1 << W)
      else: raise SVError("operator " + op)
      return r & mask(W)
    if k == "tern":
      c = self.ev_self(e[1], inst)
      return self.ev(e[2] if c else e[3], inst, W)
    if k == "cat":
      r = 0
      for x in e[1]:
        w = self.size(x, inst)
        r = (r << w) | self.ev(x, inst, w)
      return r & mask(W) if W < self.size(e, inst) else r
    if k == "rep":
      n = const_eval(e[1])
      inner = 0; iw = 0
      for x in e[2]:
        w = self.size(x, inst); inner = (inner << w) | self.ev(x, inst, w); iw += w
      r = 0
      for _ in range(n): r = (r << iw) | inner
      return r
    if k == "sel":
      bw = self.size(e[1], inst)
      b = self.ev(e[1], inst, bw)
      sl = e[2]
      if sl[0] == "idx": lo, w = self.ev_self(sl[1], inst), 1
      elif sl[0] == "range":
        lo = self.ev_self(sl[2], inst); w = self.ev_self(sl[1], inst) - lo + 1
      else:
        lo, w = self.ev_self(sl[1], inst), const_eval(sl[2])
      if lo + w > bw or w < 1:
        self.flag("out-of-range-select(read as 0)"); return 0
      return (b >> lo) & mask(w)
    if k == "sgn":
      w0 = self.size(e[2], inst); v = self.ev(e[2], inst, w0)
      if e[1] and W > w0 and v >> (w0 - 1): v |= mask(W) & ~mask(w0)          # $signed: sign-extended into a wider context
      return v & mask(max(W, w0)) if W >= w0 else v & mask(W)
    if k == "cast":
      N = e[1]
      inner = self.size(e[2], inst)
      if N > inner and _has_ctx_op(e[2]):
        self.flag("ambiguous-cast(widening cast of an expression with context-sensitive operators)")
      v = self.ev(e[2], inst, max(N, inner))
      return v & mask(N)
    raise SVError(f"eval of {k}")

  # -- statements ----------------------------------------------------------------
  def exec(self, st, inst, nba):
    k = st[0]
    if k == "blk":
      for s in st[1]: self.exec(s, inst, nba)
    elif k == "=" or k == "<=":
      lw = self.lsize(st[1], inst)
      W = max(lw, self.size(st[2], inst))
      v = self.ev(st[2], inst, W) & mask(lw)
      self.write(st[1], inst, v, nba if k == "<=" else None)
    elif k == "if":
      if self.ev_self(st[1], inst) != 0: self.exec(st[2], inst, nba)
      elif st[3] is not None: self.exec(st[3], inst, nba)
    elif k == "for":
      _, var, init, cond, sv, step, body, decl = st
      islocal = True      # loop variables (also module-level `integer` ones) are process-local scratch
      saved = self.loopvars.get(var)
      if not hasattr(self, "loop_signed"): self.loop_signed = {}
      # a loop over a variable declared elsewhere ( integer i; ... for ( i = 0; ... ) ) has the signedness of that declaration
      self.loop_signed[var] = (decl == "signed") or (decl is False and var in getattr(self.design, "signed_ints", ()))
      if islocal:
        self.loopvars[var] = self.ev(init, inst, 32)
      else:
        self.write(("id", var, ()), inst, self.ev(init, inst, 32))
      n = 0
      while True:
        if self.ev_self(cond, inst) == 0: break
        self.exec(body, inst, nba)
        nv = self.ev(step, inst, 32)
        if islocal: self.loopvars[sv] = nv
        else: self.write(("id", sv, ()), inst, nv)
        n += 1
        if n > 100000: raise SVError("for loop does not terminate")
      if islocal:
        if saved is None: self.loopvars.pop(var, None)
        else: self.loopvars[var] = saved
    else:
      raise SVError("statement " + k)

  def lsize(self, node, inst):
    return self.resolve_static(node, inst)

  # -- processes -------------------------------------------------------------------
  def run_proc(self, inst, kind, payload):
    if kind == "assign":
      _, lhs, rhs = payload
      lw = self.lsize(lhs, inst)
      W = max(lw, self.size(rhs, inst))
      self.write(lhs, inst, self.ev(rhs, inst, W) & mask(lw))
    elif kind == "comb":
      self.track = {}
      try:
        self.exec(payload[2], inst, None)
      finally:
        self.end_track()
    elif kind == "bind_in":
      child, pn, e = payload
      pv = child.vars[pn]
      if pv.dims:
        sub = self.subarray(e, inst)
        if sub != pv.val:
          pv.val = _deepcopy(sub); self.changed = True
      else:
        w = twidth(pv.type)
        v = self.ev(e, inst, max(w, self.size(e, inst))) & mask(w)
        if v != pv.val:
          pv.val = v; self.changed = True
    elif kind == "bind_out":
      child, pn, e = payload
      pv = child.vars[pn]
      if pv.dims:
        holder, key = self.subarray(e, inst, want_holder=True)
        cur = holder.val if key is None else holder[key]
        if cur != pv.val:
          if key is None: holder.val = _deepcopy(pv.val)
          else: holder[key] = _deepcopy(pv.val)
          self.changed = True
      else:
        self.write(e, inst, pv.val)

  def subarray(self, e, inst, want_holder=False):
    """an identifier with fewer constant indices than unpacked dimensions: a whole (sub-)array used as a port connection"""
    if e[0] != "id": raise SVError("array port connected to a non-identifier expression")
    v = inst.vars.get(e[1])
    if v is None: raise SVError(f"unknown identifier {e[1]}")
    x = v.val
    holder, key = v, None
    for s_ in e[2]:
      if s_[0] != "idx": raise SVError("range select in an array port connection")
      i = self.ev_self(s_[1], inst)
      if not isinstance(x, list) or not (0 <= i < len(x)): raise SVError(f"array port connection index out of range on {e[1]}")
      holder, key = x, i
      x = x[i]
    if not isinstance(x, list): raise SVError(f"array port connected to a scalar element of {e[1]}")
    return (holder, key) if want_holder else x

  def settle(self, cap=2000):
    """run all combinational processes until nothing changes; returns rounds, raises on oscillation"""
    for it in range(cap):
      self.changed = False
      for inst in self.insts:
        for kind, payload in inst.procs:
          if kind != "ff":
            self.run_proc(inst, kind, payload)
      if not self.changed:
        return it + 1
    raise SVError("combinational logic oscillates (no fixed point within the iteration cap)")

  def tick(self):
    nba = []
    for inst in self.insts:
      for kind, payload in inst.procs:
        if kind == "ff":
          self.exec(payload[2], inst, nba)
    for (v, idx, lo, w, value) in nba:
      self.store(v, idx, lo, w, value)
    return self.settle()

  # -- top-level access --------------------------------------------------------------
  def set(self, name, value, idx=()):
    v = self.top.vars[name]
    if idx:
      holder = v.val
      for i in idx[:-1]: holder = holder[i]
      holder[idx[-1]] = value & mask(twidth(v.type))
    else:
      v.val = value & mask(twidth(v.type))

  def get(self, name, idx=()):
    x = self.top.vars[name].val
    for i in idx: x = x[i]
    return x


def _deepcopy(x):
  return [_deepcopy(y) for y in x] if isinstance(x, list) else x


def _has_ctx_op(e):
  k = e[0]
  if k == "bin": return e[1] in ("+", "-", "*", "/", "%", "<<", "<<<") or _has_ctx_op(e[2]) or _has_ctx_op(e[3])
  if k == "un": return e[1] in ("-", "~") or _has_ctx_op(e[2])
  if k == "tern": return _has_ctx_op(e[2]) or _has_ctx_op(e[3])
  return False


# ---------------------------------------------------------------------------
# static driver analysis
# ---------------------------------------------------------------------------

def _expr_ids(e, out):
  k = e[0]
  if k == "id":
    out.append(e)
    for s in e[2]:
      for x in s[1:]:
        if isinstance(x, tuple): _expr_ids(x, out)
  elif k == "un": _expr_ids(e[2], out)
  elif k == "bin": _expr_ids(e[2], out); _expr_ids(e[3], out)
  elif k == "tern": _expr_ids(e[1], out); _expr_ids(e[2], out); _expr_ids(e[3], out)
  elif k == "cat":
    for x in e[1]: _expr_ids(x, out)
  elif k == "rep":
    for x in e[2]: _expr_ids(x, out)
  elif k in ("cast", "sgn"): _expr_ids(e[2], out)
  elif k == "sel":
    _expr_ids(e[1], out)
    for x in e[2][1:]:
      if isinstance(x, tuple): _expr_ids(x, out)
  return out


def _stmt_rw(st, reads, writes, loopvars):
  k = st[0]
  if k == "blk":
    for s in st[1]: _stmt_rw(s, reads, writes, loopvars)
  elif k in ("=", "<="):
    writes.append(st[1])
    for s in st[1][2]:
      for x in s[1:]:
        if isinstance(x, tuple): _expr_ids(x, reads)
    _expr_ids(st[2], reads)
  elif k == "if":
    _expr_ids(st[1], reads); _stmt_rw(st[2], reads, writes, loopvars)
    if st[3] is not None: _stmt_rw(st[3], reads, writes, loopvars)
  elif k == "for":
    loopvars.add(st[1])
    _expr_ids(st[2], reads); _expr_ids(st[3], reads); _expr_ids(st[5], reads)
    _stmt_rw(st[6], reads, writes, loopvars)


def _static_region(sim, inst, node):
  """-> (varname, elem index tuple or None(=all), lo, width, static?)"""
  v = inst.vars.get(node[1])
  if v is None:
    return None
  idx = []
  static = True
  nd = len(v.dims)
  ty = v.type
  lo, w = 0, twidth(ty)
  for s in node[2]:
    if len(idx) < nd:
      if s[1][0] == "num": idx.append(s[1][1])
      else: idx.append(None); static = False
      continue
    try:
      if s[0] == "mem":
        off = ty[3]
        for fn, ft in ty[2]:
          off -= twidth(ft)
          if fn == s[1]:
            lo += off; ty = ft; w = twidth(ft); break
      elif s[0] == "idx":
        if s[1][0] != "num": static = False; break
        i = s[1][1]
        if ty[0] == "parr": ew = twidth(ty[2]); lo += i * ew; ty = ty[2]; w = ew
        else: lo += i; w = 1; ty = ("vec", 1)
      elif s[0] == "range":
        if s[1][0] != "num" or s[2][0] != "num": static = False; break
        lo += s[2][1]; w = s[1][1] - s[2][1] + 1; ty = ("vec", w)
      else:
        if s[1][0] != "num": static = False; break
        lo += s[1][1]; w = const_eval(s[2]); ty = ("vec", w)
    except Exception:
      static = False; break
  if not static:
    return (v.name, None, 0, twidth(v.type), False)
  return (v.name, tuple(idx), lo, w, True)


def drivers(sim):
  """-> dict with 'multi' [(inst path, var, elem, bitmask, [driver ids])], 'undriven' [(inst path, var)], 'analysed' count,
  'unresolved' count (dynamic selects, not judged)"""
  multi, undriven, elem_undriven = [], [], []
  driver_reads = {}      # (inst path, var) -> [set of variable names a driver of var reads]
  analysed = unresolved = 0
  for inst in sim.insts:
    drv = {}      # (var, elem) -> list of (mask, driver id, static)
    readvars = set()
    readelems = {}      # unpacked-array variable -> set of statically indexed elements that are read
    looplocals = set()
    def note_reads(ids):
      for x in ids:
        readvars.add(x[1])
        if x[1] in inst.vars and inst.vars[x[1]].dims and x[2]:
          r_ = _static_region(sim, inst, x)
          if r_ is not None and r_[4] and len(r_[1]) == len(inst.vars[x[1]].dims):
            readelems.setdefault(x[1], set()).add(tuple(r_[1]))
    def add(node, did):
      nonlocal unresolved
      r = _static_region(sim, inst, node)
      if r is None: return
      name, idx, lo, w, static = r
      if not static: unresolved += 1
      v = inst.vars[name]
      # a static (possibly partial: sub-array) index prefix selects the elements below it; None = any element
      elems = [tuple(idx)] if (static and len(idx) <= len(v.dims)) else [None]
      for el in elems:
        drv.setdefault((name, el), []).append((mask(w) << lo if static else mask(twidth(v.type)), did, static))
    for pi, (kind, payload) in enumerate(inst.procs):
      if kind == "assign":
        add(payload[1], f"assign#{pi}")
        note_reads(_expr_ids(payload[2], []))
        driver_reads.setdefault((inst.path, payload[1][1]), []).append({x[1] for x in _expr_ids(payload[2], [])})
      elif kind in ("comb", "ff"):
        rd, wr, lv = [], [], set()
        _stmt_rw(payload[2], rd, wr, lv)
        looplocals |= lv
        note_reads(rd)
        for node in wr: driver_reads.setdefault((inst.path, node[1]), []).append({x[1] for x in rd})
        for node in wr:
          if node[1] in lv and node[1] not in inst.vars: continue
          add(node, f"{'always_comb' if kind == 'comb' else 'always_ff'}:{payload[1]}")
      elif kind == "bind_out":
        child, pn, e = payload
        add(e, f"inst-output:{child.path.rsplit('.', 1)[-1]}.{pn}")
      elif kind == "bind_in":
        note_reads(_expr_ids(payload[2], []))
    for name, v in inst.vars.items():
      if v.kind == "const": continue
      entries = [(k, lst) for k, lst in drv.items() if k[0] == name]
      external = v.kind == "input"
      analysed += 1
      # multi-driver: two different drivers with overlapping static regions on the same element
      flat = []
      for (nm, el), lst in entries:
        for (m, did, static) in lst:
          flat.append((el, m, did, static))
      if external and flat:
        multi.append((inst.path, name, None, 0, ["module-input"] + sorted({f[2] for f in flat})))
      seen_pairs = set()
      for i in range(len(flat)):
        for j in range(i + 1, len(flat)):
          a, b = flat[i], flat[j]
          if a[2] == b[2]: continue
          if not (a[3] and b[3]): continue
          if a[0] is not None and b[0] is not None:
            k_ = min(len(a[0]), len(b[0]))
            if tuple(a[0][:k_]) != tuple(b[0][:k_]): continue            # disjoint elements / sub-arrays
          if a[1] & b[1]:
            key = tuple(sorted((a[2], b[2])))
            if key not in seen_pairs:
              seen_pairs.add(key)
              multi.append((inst.path, name, a[0], a[1] & b[1], list(key)))
      if not flat and not external and (name in readvars or v.kind == "output") and name not in looplocals:
        undriven.append((inst.path, name))
      elif flat and not external and v.dims and name in readelems and all(f[3] and f[0] is not None for f in flat):
        # an unpacked array with drivers on SOME of its elements (all statically indexed): an element that is read and that no
        # driver covers is undriven, too
        for el in sorted(readelems[name]):
          if not any(tuple(el[:len(f[0])]) == tuple(f[0]) for f in flat):
            elem_undriven.append((inst.path, name, el)); break
  return {"multi": multi, "undriven": undriven, "analysed": analysed, "unresolved": unresolved, "elem_undriven": elem_undriven, "driver_reads": driver_reads}
