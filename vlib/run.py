"""entry point:  cd /verif && /venv/bin/python -m vlib.run Cxx --tier quick|thorough [--replay path]"""
import argparse, os, sys
from vlib.common import run_check, CHECKS

def main():
  ap = argparse.ArgumentParser()
  ap.add_argument("prop")
  ap.add_argument("--tier", default=os.environ.get("VERIF_TIER", "quick"))
  ap.add_argument("--seed", type=int, default=int(os.environ.get("VERIF_SEED", "0")))
  ap.add_argument("--replay")
  a = ap.parse_args()
  if a.prop not in CHECKS:
    print("unknown property", a.prop); return 3
  return run_check(a.prop, a.tier, a.seed, a.replay)

if __name__ == "__main__":
  sys.exit(main())
