"""Monitors for running pymtl3 simulations of specgen designs (C01, C02, C07, C11, C16 share this).

 * Tracer      sys.monitoring PY_START on the code objects of every scheduled block (update / update_ff /
               generated net blocks); identity = (host path from the frame's closure `s`, function name)
 * stale-read  at a block's PY_START the spec's read set of that block is read from the live simulator
 * snapshot    all signals of all components as packed ints
 * apply_mode  the five pass groups + 'inject' (random linear extension of pymtl3's own constraint set and a
               random permutation of the ff blocks, swapped in between the schedule pass and PrepareSimPass)
"""
import random
import sys

from vlib import specgen as G

MON = sys.monitoring
TOOL = 4
_tool_ready = [False]

MODES = ["default", "simple", "unroll", "heutopo", "mamba", "inject"]


def apply_mode(top, mode, rng):
  from pymtl3 import DefaultPassGroup
  from pymtl3.passes.PassGroups import SimpleSimPass
  from pymtl3.passes.mamba.PassGroups import UnrollSim, HeuTopoUnrollSim, Mamba2020
  if mode == "default":
    top.elaborate(); top.apply(DefaultPassGroup())
  elif mode == "simple":
    random.seed(rng.getrandbits(32))
    top.elaborate(); top.apply(SimpleSimPass())
  elif mode == "unroll":
    random.seed(rng.getrandbits(32))
    top.apply(UnrollSim(print_line_trace=False))
  elif mode == "heutopo":
    top.apply(HeuTopoUnrollSim(print_line_trace=False))
  elif mode == "mamba":
    top.apply(Mamba2020(print_line_trace=False))
  elif mode == "inject":
    from pymtl3.passes.sim.GenDAGPass import GenDAGPass
    from pymtl3.passes.sim.WrapGreenletPass import WrapGreenletPass
    from pymtl3.passes.sim.SimpleSchedulePass import SimpleSchedulePass
    from pymtl3.passes.sim.PrepareSimPass import PrepareSimPass
    top.elaborate()
    GenDAGPass()(top); WrapGreenletPass()(top); SimpleSchedulePass()(top)
    V = list(top._sched.update_schedule)
    Vs = set(V)
    succ = {v: [] for v in V}; ind = {v: 0 for v in V}
    for (u, v) in top._dag.all_constraints:
      if u in Vs and v in Vs:
        succ[u].append(v); ind[v] += 1
    V.sort(key=lambda f: (f.__name__, id(f)))
    ready = [v for v in V if ind[v] == 0]
    order = []
    while ready:
      u = ready.pop(rng.randrange(len(ready)))
      order.append(u)
      for v in succ[u]:
        ind[v] -= 1
        if ind[v] == 0:
          ready.append(v)
    assert len(order) == len(V)
    top._sched.update_schedule = order
    ff = list(top._sched.schedule_ff)
    ff.sort(key=lambda f: (f.__name__, id(f)))
    rng.shuffle(ff)
    top._sched.schedule_ff = ff
    PrepareSimPass(print_line_trace=False)(top)
  else:
    raise KeyError(mode)


class BoundExceeded(Exception):
  """raised from the monitoring callback into the running evaluation: a block ran more often than the logical bound"""


class Tracer:
  def __init__(self, top, on_start=None, limit=None):
    self.top = top
    self.limit = limit
    self.counts = {}
    self.events = []
    self.on_start = on_start
    self.codes = {}
    ffs = top.get_all_update_ff()
    for b in top._dag.final_upblks:
      self.codes[b.__code__] = "ff" if b in ffs else "comb"
    # generated net-propagation blocks have no host in their frame; two of them may carry the same name (two nets
    # driven by equal constants): keep them apart by a per-code-object suffix
    user = top.get_all_update_blocks()
    byname = {}
    for b in top._dag.final_upblks:
      if b not in user:
        byname.setdefault(b.__code__.co_name, []).append(b.__code__)
    self.suffix = {}
    for nm_, cs in byname.items():
      if len(set(cs)) > 1:
        for k_, c in enumerate(sorted(set(cs), key=lambda c: (c.co_filename, c.co_firstlineno, id(c)))):
          self.suffix[c] = f"#{k_}"
    if not _tool_ready[0]:
      MON.use_tool_id(TOOL, "verif-simmon")
      _tool_ready[0] = True
    MON.register_callback(TOOL, MON.events.PY_START, self._cb)
    for c in self.codes:
      MON.set_local_events(TOOL, c, MON.events.PY_START)

  def _cb(self, code, off):
    kind = self.codes.get(code)
    if kind is None:
      return
    s = sys._getframe(1).f_locals.get("s")
    key = (repr(s) if s is not None and hasattr(s, "_dsl") else "", code.co_name + self.suffix.get(code, ""), kind)
    self.events.append(key)
    if self.limit is not None:
      n = self.counts[key] = self.counts.get(key, 0) + 1
      if n > self.limit:
        self.counts.clear()
        raise BoundExceeded(f"{key} started {n} times in one evaluation")
    if self.on_start is not None:
      self.on_start(key)

  def take(self):
    ev, self.events = self.events, []
    self.counts.clear()
    return ev

  def close(self):
    for c in self.codes:
      MON.set_local_events(TOOL, c, 0)
    MON.register_callback(TOOL, MON.events.PY_START, None)


def split_tick(ev):
  """tick trace -> (comb pass 1, ff events, comb pass 2)"""
  idx = [i for i, e in enumerate(ev) if e[2] == "ff"]
  if idx:
    return ev[:idx[0]], [e for e in ev if e[2] == "ff"], [e for e in ev[idx[-1] + 1:] if e[2] == "comb"]
  h = len(ev) // 2
  return ev[:h], [], ev[h:]


def to_int(o):
  return int(o.to_bits()) if hasattr(o, "to_bits") else int(o)


class Live:
  """reads of the running simulator through names only"""
  def __init__(self, top):
    self.top = top
    self.env = {"s": top}
    self.cache = {}

  def sig(self, path):
    c = self.cache.get(path)
    if c is None:
      c = self.cache[path] = compile(path, "<live>", "eval")
    return to_int(eval(c, self.env))

  def ref(self, host, r):
    """value of a spec ref relative to host instance path"""
    key = (host, r["path"], r["lo"], r["w"])
    c = self.cache.get(key)
    if c is None:
      c = self.cache[key] = compile(f"{host}.{r['path']}", "<live>", "eval")
    v = to_int(eval(c, self.env))
    return (v >> r["lo"]) & G.mask(r["w"])

  def snapshot(self, paths):
    return {p: self.sig(p) for p in paths}


def gen_inputs(rng, design, ncyc):
  """per cycle {path: value}; at least half of the input bits flip every cycle (stale reads become visible)"""
  ins = G.top_inputs(design)
  prev = {p: 0 for p, w in ins}
  seq = []
  for c in range(ncyc):
    cur = {}
    for p, w in ins:
      k = rng.random()
      if k < 0.1: v = prev[p]
      elif k < 0.2: v = 0
      elif k < 0.3: v = G.mask(w)
      elif k < 0.6: v = prev[p] ^ G.mask(w)
      else: v = rng.getrandbits(w)
      cur[p] = v
    seq.append(cur); prev = cur
  return seq


def reference_trace(design, seq, reset_cycles=2, sim_reset=False):
  """[(snapshot after eval, snapshot after tick)] per cycle, or None if the reference does not settle.
  sim_reset: the run starts with the simulator's own sim_reset() - three clock edges with reset high, the combinational logic
  evaluated before each of them, all inputs at their initial value 0 - instead of reset cycles driven by the harness"""
  ref = G.Ref(design)
  out = []
  if sim_reset:
    reset_cycles = 0
    ref.set_input("s.reset", 1)
    for _ in range(3):
      if ref.settle() is None: return None, ref
      if ref.tick() is None: return None, ref
  for c, inp in enumerate(seq):
    ref.set_input("s.reset", int(c < reset_cycles))
    for p, v in inp.items():
      ref.set_input(p, v)
    if ref.settle() is None: return None, ref
    a = ref.snapshot()
    if ref.tick() is None: return None, ref
    out.append((a, ref.snapshot()))
  return out, ref


def set_inputs(top, live, inp, widths, reset):
  from pymtl3 import Bits
  top.reset @= reset
  for p, v in inp.items():
    o = eval(p, live.env)
    o @= Bits(widths[p], v)
